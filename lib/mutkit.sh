#!/bin/bash
# Rebuilds /tmp/pavexc-kit: the environment notes + template workspace handed to independent mutation agents for
# compiler properties (see lib/mutprep.py --compiler) and used by the demos kept under seeded/. Nothing a registered
# check needs lives there. Requires ./setup.sh to have run (docs toolchain, slot 0 with a warm docs cache).
set -e; K=/tmp/pavexc-kit; rm -rf $K; mkdir -p $K/bin $K/template; cp -r /verif/build/docs-toolchain $K/docs-toolchain
cat > $K/bin/rustup <<EOF
#!/bin/bash
# rustup shim: pavexc asks rustup for the docs toolchain; the pinned nightly is not installed here, the plain
# \`nightly\` works (same rustdoc JSON format) once std/core/alloc JSON docs are provided (docs-toolchain/).
if [ "\$1" = "which" ]; then echo "$K/docs-toolchain/bin/cargo"; exit 0; fi
if [ "\$1" = "run" ]; then shift; shift; exec /root/.cargo/bin/rustup run nightly "\$@"; fi
exec /root/.cargo/bin/rustup "\$@"
EOF
chmod +x $K/bin/rustup
sed -i "s#/verif/build/docs-toolchain#$K/docs-toolchain#" $K/docs-toolchain/bin/cargo 2>/dev/null || true
mkdir -p $K/template/app/src/bin $K/template/sdk/src $K/template/driver/src $K/home
cp -r /verif/build/slots/0/home/.pavex $K/home/.pavex
cp /repo/compiler/ui_tests/Cargo.lock $K/template/Cargo.lock
cat > $K/template/Cargo.toml <<'EOF'
[workspace]
members = ["app", "sdk", "driver"]
resolver = "3"

[workspace.dependencies]
pavex = { path = "@REPO@/runtime/pavex" }
tokio = { version = "1", features = ["full"] }

[profile.dev]
debug = 0
incremental = false
EOF
cat > $K/template/app/Cargo.toml <<'EOF'
[package]
name = "app"
version = "0.1.0"
edition = "2024"

[dependencies]
pavex = { workspace = true }
EOF
cp /verif/notes/probe/app_lib.rs $K/template/app/src/lib.rs
cat > $K/template/app/src/bin/bp.rs <<'EOF'
fn main() {
    let path = std::env::args().nth(1).expect("output path");
    app::blueprint().persist(std::path::Path::new(&path)).expect("persist");
}
EOF
printf '[package]\nname = "sdk"\nversion = "0.1.0"\nedition = "2024"\n\n[dependencies]\n' > $K/template/sdk/Cargo.toml; touch $K/template/sdk/src/lib.rs
cat > $K/template/driver/Cargo.toml <<'EOF'
[package]
name = "driver"
version = "0.1.0"
edition = "2024"

[dependencies]
app = { path = "../app" }
sdk = { path = "../sdk" }
pavex = { workspace = true }
tokio = { workspace = true }
EOF
cp /verif/notes/probe/driver_main.rs $K/template/driver/src/main.rs
cat > $K/README.md <<'EOF'
# Running `pavexc` offline in this sandbox (environment notes only)

`pavexc` (the Pavex compiler, `compiler/pavexc_cli`) reads a blueprint (`.ron`) persisted by the user's crate and
generates a "server SDK" crate. To run it here:

    REPO=/path/to/your/worktree                       # your checkout of pavex
    WS=/tmp/<your-ws>                                 # a scratch cargo workspace: cp -r /tmp/pavexc-kit/template $WS
    sed -i "s#@REPO@#$REPO#" $WS/Cargo.toml
    # 1. build the compiler from your worktree (65 s cold)
    (cd $REPO && CARGO_TARGET_DIR=$REPO/target cargo build --offline -p pavexc_cli)
    # 2. build the user crate and persist its blueprint
    (cd $WS && cargo build --offline -q -p app --bin bp && ./target/debug/bp bp.ron)
    # 3. run the compiler: rustup shim first on PATH, private HOME for the docs cache (a warm cache is in
    #    /tmp/pavexc-kit/home: copy it, `cp -r /tmp/pavexc-kit/home $WS/home`), the `nightly` docs toolchain
    (cd $WS && PATH=/tmp/pavexc-kit/bin:$PATH HOME=$WS/home RUSTUP_HOME=/root/.rustup CARGO_HOME=/root/.cargo \
        PAVEXC_DOCS_TOOLCHAIN=nightly CARGO_NET_OFFLINE=true \
        $REPO/target/debug/pavexc generate --blueprint bp.ron --output sdk --diagnostics diag.dot [--check])
    # 4. the generated crate: `cargo check --offline -p sdk`; to run the server: `cargo run --offline -p driver`
    #    (template/driver boots `sdk::ApplicationState` + `sdk::run` and sends raw HTTP requests over loopback)

`template/app/src/lib.rs` is a small example application (constructors of all lifecycles, middlewares, error
handler/observers, nested blueprint, fallback) whose components log what they do into `app::LOG`.
Everything is offline: always pass `--offline` to cargo. Exit status of pavexc: 0 = accepted, 1 = rejected with
diagnostics on stderr.
EOF
du -sh $K
