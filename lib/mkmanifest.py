#!/usr/bin/env python3
"""Regenerates /verif/MANIFEST.json from the table below (kept in one place so it stays valid)."""
import json
import os
import subprocess

VERIF = os.path.dirname(os.path.dirname(os.path.abspath(__file__)))

E2E_NOTE = ("Trusted: the reference semantics in e2e/model.py (written from docs/guide/** and the rustdoc of Blueprint), the instrumentation of the "
            "generated application (plain statics, nothing injected through Pavex), rustc stable as judge of valid Rust, the installed `nightly` "
            "toolchain + JSON docs built from rust-src standing in for the pinned docs toolchain. Says nothing about programs the generator cannot express.")

CHECKS = {
    "C01": ("end-to-end runtime monitoring: pavexc executed on generated applications, rustc as oracle on the emitted SDK",
            "Held on K accepted generated applications (in-class, wild and regression specs): every SDK pavexc emitted was compiled by rustc together with the user crate and the pavex runtime. "
            "Exploration over program shapes (fan-in/out, diamonds, clones, match arms, Next states, nesting), not a proof over all programs.", "3.4 C01", E2E_NOTE),
    "C02": ("end-to-end runtime monitoring: pavexc exit status and diagnostics on applications generated inside the class (class certificate re-derived per case)",
            "Held on K generated in-class applications: each carries a certificate (clause a/b/c/d per value) re-derived from the emitted spec; pavexc must exit 0 without ERROR blocks. Known rejections are keyed on their diagnostic/panic.",
            "3.4 C02", E2E_NOTE),
    "C03": ("trace monitor over construct/clone/use events of the running generated server (unique instance ids)",
            "Held on every request of every accepted case: per-registration cardinality (singleton once at boot, request-scoped once per request, transient once per site) and identity (same root instance) checked on the recorded event log, including error branches and early returns.",
            "3.4 C03", E2E_NOTE),
    "C04": ("trace monitor: provenance (`origin`) of every injected instance vs documentation-derived scope resolution; clone events vs cloning policy",
            "Held on every injected input observed: the registration that built it is the one the blueprint designates for the injecting component; clones only for clone-if-necessary registrations and from the instance they stand in for.",
            "3.4 C04", E2E_NOTE),
    "C05": ("trace monitor: enter/exit sequence of middlewares and handler vs the recursive stage semantics of execution_order.md",
            "Held on every routed request: exact sequence equality when no constructor fails (early returns and middleware/handler failures included), order-preserving subsequence otherwise; out-of-scope components never run.",
            "3.4 C05", E2E_NOTE),
    "C06": ("trace + HTTP monitor under injected failures (fault plan delivered out of band)",
            "Held on every injected failure observed: designated error handler exactly once, observers once each in registration order after it, no dependent of the failed value runs, client sees the handler's response after the remaining post-processing.",
            "3.4 C06", E2E_NOTE),
    "C07": ("HTTP monitor against a documentation-derived reference router (raw request lines and Host headers over loopback)",
            "Held on every judged request: the handler/fallback that logged the request is the one the reference router designates, AllowedMethods/Allow equal the registered set; the server boots without panicking.",
            "3.4 C07", E2E_NOTE),
    "C08": ("end-to-end runtime monitoring: pavexc on in-class applications with exactly one planted rule violation (mutation operators per documented rule), sanity twin must be accepted",
            "Held on K planted cases: pavexc must exit non-zero with an ERROR block and leave the SDK untouched; the unplanted twin must be accepted (else inconclusive).",
            "3.4 C08", E2E_NOTE),
    "C09": ("process monitor on every pavexc execution: exit status, panic text, watchdog, checksums+mtimes of the SDK before/after",
            "Held on every pavexc execution of every mode except the listed known findings: exit status in {0,1}, diagnostic on failure, SDK byte-for-byte untouched on failure, termination within the watchdog. 'Never hangs' is restated as bounded progress.",
            "3.4 C09", E2E_NOTE),
    "C10": ("process monitor: K independent pavexc processes x cache / output-directory / workspace-manifest histories per accepted application; sha256/mtime/inode comparison; --check vs normal run; strace of writes (thorough); in-process history monitor on the write-if-changed primitive",
            "Held on K applications x runs: identical bytes across processes and cache states, no file touched on re-run, --check exit code consistent with what a normal run would change and never writes.",
            "3.4 C10", E2E_NOTE),
    "C11": ("model-based history monitor: real cookie -> session -> ops -> finalize -> cookie loop vs a two-map reference model, compared after every operation and request",
            "Held on K histories over all 64 configurations (memory store; SQLite in part) except the listed known findings: every operation's return value and every cross-request observation equals the reference model.",
            "4 C11", "Trusted: the two-map reference model (~80 lines, from the rustdoc of Session and config/state.rs), the store wrapper used as a call monitor. Histories are bounded (<= 6 requests x 8 ops)."),
    "C12": ("invariant monitor on finalize_session results, wire cookies and Debug output across crypto/cookie configurations",
            "Held on K histories x 52 (crypto rule, cookie name) pairs: a session cookie on the wire is signed or encrypted (encrypted when client state is non-empty), attributes equal the configuration, the id never appears in Debug output.",
            "4 C12", "Trusted: classification of the wire value (plaintext recoverable or not) by the harness; biscotti's Processor as the real cookie processor."),
    "C13": ("history monitor + linearizability checker (WGL search, memoised) against a sequential map-with-expiry model; client-boundary call/return records",
            "Held on K sequential and concurrent histories for both stores except the listed known findings: sequential conformance after every op, and every concurrent history (<= 20 ops, 2-4 tasks) has a linearization.",
            "4 C13", "Trusted: the sequential model (outcomes the statement leaves open are allowed both ways), one monotonic clock for call/return stamps. Expiry is driven logically (TTL 0 vs hours)."),
    "C14": ("hooked in-process frame-script driver + raw TCP client against a real pavex server; byte-identity/limit oracle; thorough tier: the hooked workload is also interpreted by Miri (undefined-behaviour sanitizer)",
            "Held on K (limit, length, framing, Content-Length) cases incl. all splits of small bodies into <= 4 frames: Ok => <= N bytes and byte-identical, over-limit => size-limit error, never a panic.",
            "4 C14", "Trusted: the harness's frame-script Body implementation; hyper rejects malformed Content-Length before pavex over TCP (those variants only via the hook)."),
    "C15": ("round-trip monitor: independent percent/form/JSON encoder -> public extractors -> value equality; malformed inputs must yield the documented error; thorough tier: shards of the workload are also interpreted by Miri (undefined-behaviour sanitizer)",
            "Held on K (shape, value, encoding) cases except the listed known findings: decoded == original for path/query/form/JSON; malformed inputs give Err of the documented variant, never a panic.",
            "4 C15", "Trusted: the independent encoders in the harness; matchit as the provider of raw path params (as in generated code)."),
    "C16": ("event-order monitor on a real server under seeded shutdown points, injected delays at hook points and stalled workers; per-connection-class oracle",
            "Held on K runs x connection classes except the listed known finding: started requests are answered, late connections refused, shutdown resolves (graceful after drain or timeout, forced promptly).",
            "4 C16", "Trusted: logical event order from hooks + client logs; wall clock only for the coarse, padded timeout branch (otherwise inconclusive)."),
    "C17": ("algebraic-law monitor over the public rustdoc_ir API on generated type pairs + exhaustive small types; independent syn construction for rendering",
            "Held on K random pairs (depth <= 4, 25 mutation operators) and on all pairs of the exhaustive depth-2 set: template/bind round trip, equivalence is an equivalence up to renaming, canonicalisation idempotent, rendering lossless.",
            "4 C17", "Trusted: the harness's own AST, first-order matcher and printer. Consumers of the algebra inside pavexc are exercised by C01-C04, not here."),
    "C18": ("one subprocess per configuration case (process-global environment); precedence oracle env > profile > base",
            "Held on K cases incl. the exhaustive 3 keys x 8 source subsets: every key comes from the highest-precedence source defining it, PX_PROFILE never surfaces as a key, missing profile/required key is an error.",
            "4 C18", "Trusted: figment's value syntax is out of scope (plain tokens only)."),
    "C19": ("round-trip monitor: generated Blueprint API call sequences -> RON -> pavex_bp_schema; generated attributes -> rustdoc JSON -> pavexc_attr_parser/pavexc_annotations",
            "Held on K call sequences and attribute items except the listed known finding: registrations, order, nesting, prefixes, domains, lifecycles, cloning, lints, handlers and source locations read back equal to what was called/written.",
            "4 C19", "Trusted: the expectation computed by the generator from its own call sequence; the installed nightly's rustdoc JSON (format 57)."),
    "C20": ("in-process monitor through the cfg(pavex_verif) validator hook: exhaustive guard strings vs an independent grammar; reference matcher vs matchit on the hook's pattern; end-to-end hosts against generated servers",
            "Held on all 2.4M strings up to length 7 over 8 symbols plus random long guards, and on K (guard, host) pairs, except the listed known findings.",
            "4 C20", "Trusted: the independent grammar/matcher written from domain_guards.md; the in-process host normalisation is a replica of the generated code (validated end-to-end by the e2e part)."),
}

NOT_YET = {}


def main():
    props = [json.loads(l)["id"] for l in open(os.path.join(VERIF, "properties.jsonl"))]
    claimed = [p for p in props if os.path.exists(os.path.join(VERIF, "checks", p.lower() + ".py"))]
    hooks = subprocess.run(["git", "-C", "/repo", "log", "--format=%h %s"], stdout=subprocess.PIPE).stdout.decode().splitlines()
    hook_commits = [l.split()[0] for l in hooks if "pavex_verif" in l]
    m = {
        "version": 1,
        "setup_cmd": "./setup.sh",
        "hooks": {
            "guard": "rustc cfg `pavex_verif` (RUSTFLAGS=\"--cfg pavex_verif\"); off by default, no cargo feature",
            "enable": "lib/vlib.py::build_harness sets RUSTFLAGS=\"--cfg pavex_verif\" for every harness build against /repo; the e2e slots build /repo without the guard (hooks are not needed there)",
            "baseline_off_cmd": "cd /repo && cargo test --workspace --no-fail-fast --offline",
            "source_commits": hook_commits,
            "add_only": True,
        },
        "engines": [
            {"name": "engine-A (e2e)", "path": "e2e/", "serves_properties": ["C01", "C02", "C03", "C04", "C05", "C06", "C07", "C08", "C09", "C10", "C20"],
             "kind_free_text": "generated Pavex applications run through the real pavexc, rustc and the generated server; process, trace and HTTP monitors"},
            {"name": "engine-B (harnesses)", "path": "harness/", "serves_properties": ["C11", "C12", "C13", "C14", "C15", "C16", "C17", "C18", "C19", "C20"],
             "kind_free_text": "in-process Rust harnesses over public APIs / cfg(pavex_verif) hooks with reference-model, law and round-trip oracles"},
        ],
        "checks": [],
        "not_applicable": [],
        "notes": "Technique family: runtime monitoring. Every check executes the real code of /repo's working tree under generated workloads; verdicts are three-valued; known findings are listed in known_findings.jsonl.",
    }
    for p in props:
        if p in claimed and p in CHECKS:
            tech, text, ref, note = CHECKS[p]
            m["checks"].append({
                "property_id": p,
                "quick_cmd": "./check %s --tier quick" % p,
                "thorough_cmd": "./check %s --tier thorough" % p,
                "evidence_file": "/verif/evidence/%s.json" % p,
                "replay_cmd_template": "./check %s --replay {path}" % p,
                "engine": "engine-A (e2e)" if p <= "C10" else "engine-B (harnesses)",
                "level_claimed": {"category": "exploration", "text": text, "design_ref": "DESIGN.md section " + ref},
                "level_note": note,
                "technique": tech,
            })
        else:
            m["not_applicable"].append({"property_id": p, "reason": NOT_YET.get(p, "monitor designed (DESIGN.md) but its check is not built/validated yet in this round; not claimed until it is")})
    with open(os.path.join(VERIF, "MANIFEST.json"), "w") as f:
        json.dump(m, f, indent=1)
    print("claimed:", [c["property_id"] for c in m["checks"]])
    print("not claimed:", [c["property_id"] for c in m["not_applicable"]])


if __name__ == "__main__":
    main()
