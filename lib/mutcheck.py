#!/usr/bin/env python3
"""Confirm an independently produced mutant and run our check against it.
usage: mutcheck.py <tag> <mN> <prop> --tests "<cargo test args>" [--demo-cmd "<cmd>"] [--skip-demo]
Steps: (1) demo passes on the clean worktree, (2) patch applies, demo fails, the named tests still pass, (3) patch applied to /repo,
./check <prop> --tier quick is run, /repo restored. Result saved to /verif/seeded/<prop>-<tag>-<mN>/meta.json"""
import argparse, json, os, shutil, subprocess, sys, time

ap = argparse.ArgumentParser()
ap.add_argument("tag"); ap.add_argument("m"); ap.add_argument("prop")
ap.add_argument("--tests", default="")
ap.add_argument("--demo-cmd", default=None)
ap.add_argument("--skip-demo", action="store_true")
ap.add_argument("--tier", default="quick")
ap.add_argument("--from-seeded", action="store_true", help="re-run our checks against the patch kept under /verif/seeded (no worktree needed)")
ap.add_argument("--prebuild", default=None, help="command run in the worktree after applying the patch (and again after reverting it), e.g. to rebuild pavexc")
ap.add_argument("--no-checks", action="store_true", help="only (re)confirm the demonstration and the tests; keep the recorded results of our checks")
ap.add_argument("--also", default="", help="other properties whose checks should be run against the mutant too (comma separated)")
a = ap.parse_args()
wt = "/tmp/mut-%s" % a.tag
src = "/tmp/mut-%s-out/%s" % (a.tag, a.m)
dst = "/verif/seeded/%s-%s-%s" % (a.prop, a.tag, a.m)
patch = os.path.join(src, "patch.diff")
env = dict(os.environ, CARGO_NET_OFFLINE="true", CARGO_TARGET_DIR=os.path.join(wt, "target"), CARGO_BUILD_JOBS="8")

def sh(cmd, cwd=None, timeout=3600, env=env):
    p = subprocess.run(cmd, shell=True, cwd=cwd, env=env, stdout=subprocess.PIPE, stderr=subprocess.STDOUT, timeout=timeout)
    return p.returncode, p.stdout.decode("utf-8", "replace")

res = {"confirmed_by_lead": {}}
if a.from_seeded:
    a.skip_demo = True
    patch = os.path.join(dst, "patch.diff")
    src = dst
assert a.from_seeded or sh("git -C %s status --porcelain --untracked-files=no" % wt)[1].strip() == "", "worktree not clean"
demo_dir = os.path.join(src, "demo")
demo_cmd = a.demo_cmd or "cargo run --offline -q"
if not a.skip_demo:
    rc0, out0 = sh(demo_cmd, cwd=demo_dir)
    res["confirmed_by_lead"]["demo_on_clean_tree"] = {"rc": rc0, "tail": out0[-600:]}
if not a.from_seeded:
    rc, out = sh("git -C %s apply %s" % (wt, patch))
    assert rc == 0, "patch does not apply to worktree: " + out
try:
    if a.prebuild:
        rcb, outb = sh(a.prebuild, cwd=wt)
        assert rcb == 0, "prebuild failed with the patch: " + outb[-2000:]
    if not a.skip_demo:
        rc1, out1 = sh(demo_cmd, cwd=demo_dir)
        res["confirmed_by_lead"]["demo_with_patch"] = {"rc": rc1, "tail": out1[-900:]}
    if a.tests:
        rct, outt = sh("cargo test --offline --no-fail-fast %s 2>&1 | grep -E '^test result|FAILED|failed' | head -30" % a.tests, cwd=wt)
        res["confirmed_by_lead"]["tests_with_patch"] = {"cmd": "cargo test --offline --no-fail-fast " + a.tests, "summary": outt[-1500:]}
finally:
    if not a.from_seeded:
        sh("git -C %s checkout -- ." % wt)
    if a.prebuild:
        sh(a.prebuild, cwd=wt)
# build output of the demonstration is not kept (disk)
if not a.from_seeded and os.path.isdir(demo_dir):
    sh("find %s -type d -name target -prune -exec rm -rf {} +" % demo_dir)
# --- our checks against the mutant, in /repo
if a.no_checks and not os.path.exists(os.path.join(dst, "meta.json")):
    # first contact, confirmation only (runs in the agent's worktree, does not need /repo): keep patch, demo and meta; our
    # checks are run later with --from-seeded
    os.makedirs(dst, exist_ok=True)
    shutil.copy(patch, os.path.join(dst, "patch.diff"))
    if os.path.isdir(demo_dir):
        shutil.rmtree(os.path.join(dst, "demo"), ignore_errors=True)
        shutil.copytree(demo_dir, os.path.join(dst, "demo"), ignore=shutil.ignore_patterns("target", "Cargo.lock", "home"))
    meta = {}
    try:
        meta = json.load(open(os.path.join(src, "meta.json")))
    except Exception:
        pass
    meta.update(res)
    meta["property"] = a.prop
    json.dump(meta, open(os.path.join(dst, "meta.json"), "w"), indent=1)
    print(json.dumps(res, indent=1)[:3000])
    sys.exit(0)
if a.no_checks:
    prev = json.load(open(os.path.join(dst, "meta.json")))
    prev["confirmed_by_lead"] = res["confirmed_by_lead"]
    json.dump(prev, open(os.path.join(dst, "meta.json"), "w"), indent=1)
    print(json.dumps(res, indent=1)[:3000])
    sys.exit(0)
rc, out = sh("git -C /repo apply --check %s" % patch)
assert rc == 0, "patch does not apply to /repo: " + out
assert sh("git -C /repo status --porcelain --untracked-files=no")[1].strip() == "", "/repo not clean"
sh("git -C /repo apply %s" % patch)
checks = {}
try:
    for prop in [a.prop] + [x for x in a.also.split(",") if x]:
        t0 = time.time()
        rc, out = sh("./check %s --tier %s" % (prop, a.tier), cwd="/verif", env=dict(os.environ))
        viol = [l for l in out.splitlines() if l.startswith("VIOLATION")]
        sigs = []
        for l in viol[:6]:
            try:
                sigs.append(json.load(open(l.split("replay=")[1]))["sig"])
            except Exception:
                pass
        checks[prop] = {"exit": rc, "violations": len(viol), "sigs": sigs[:6], "wall_s": round(time.time() - t0, 1), "summary": out.strip().splitlines()[-1][:300] if out.strip() else ""}
finally:
    sh("git -C /repo checkout -- .")
res["our_checks_against_mutant"] = checks
res["caught_by"] = [p for p, c in checks.items() if c["exit"] == 1 and c["violations"] > 0]
os.makedirs(dst, exist_ok=True)
if not a.from_seeded:
    shutil.copy(patch, os.path.join(dst, "patch.diff"))
if os.path.isdir(demo_dir) and not a.from_seeded:
    shutil.rmtree(os.path.join(dst, "demo"), ignore_errors=True)
    shutil.copytree(demo_dir, os.path.join(dst, "demo"), ignore=shutil.ignore_patterns("target", "Cargo.lock"))
meta = {}
try:
    meta = json.load(open(os.path.join(src, "meta.json")))
except Exception:
    pass
if a.from_seeded and meta.get("our_checks_against_mutant"):
    merged = dict(meta["our_checks_against_mutant"]); merged.update(checks); res["our_checks_against_mutant"] = merged
    res["caught_by"] = [p for p, c in merged.items() if c["exit"] == 1 and c["violations"] > 0]
prev = {}
try:
    prev = json.load(open(os.path.join(dst, "meta.json")))
except Exception:
    pass
if a.skip_demo and prev.get("confirmed_by_lead"):
    res["confirmed_by_lead"] = prev["confirmed_by_lead"]
meta.update(res)
meta["property"] = a.prop
json.dump(meta, open(os.path.join(dst, "meta.json"), "w"), indent=1)
print(json.dumps(res, indent=1)[:3000])
