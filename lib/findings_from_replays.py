#!/usr/bin/env python3
"""Record violations found by an exploration run on the *unchanged* tree as known findings keyed on the exact input.

usage: findings_from_replays.py <note> <replay.json> [<replay.json> ...]

For every replay file (written by a check that reported a violation of an e2e property) this
  * freezes the failing application as a witness under e2e/regress/finding_<input id>.json, so that it is executed - and the
    finding observed - on every run of every tier, and
  * appends an entry to known_findings.jsonl whose signature is the violation's own signature, `input` included: only that
    application is covered; any other application that ends in the same panic / rustc error / oracle rule is still reported.
It is a developer tool: nothing calls it at check time (the known-findings file is never written by a check)."""
import json
import os
import sys

VERIF = os.path.dirname(os.path.dirname(os.path.abspath(__file__)))
sys.path.insert(0, VERIF)
from e2e import evaluate  # noqa: E402

note = sys.argv[1]
kf_path = os.path.join(VERIF, "known_findings.jsonl")
existing = [json.loads(l) for l in open(kf_path) if l.strip() and not l.startswith("#")]
added = 0
for path in sys.argv[2:]:
    v = json.load(open(path))
    prop, sig, detail = v["property"], v["sig"], v["detail"]
    spec = detail.get("spec")
    if not isinstance(spec, dict):
        print("skip (no spec in the replay):", path)
        continue
    iid = evaluate.input_id(spec)
    sig = dict(sig, input=iid)
    name = "finding_%s" % iid
    wpath = os.path.join(VERIF, "e2e", "regress", name + ".json")
    case = str(detail.get("case", ""))
    if not os.path.exists(wpath):
        w = {"name": name, "inclass": spec.get("mode") == "inclass" and case.startswith(("ic-", "rg-")), "spec": spec}
        if "planted" in spec:
            w["expect_rejected"] = True
        if prop in ("C02", "C08", "C09") and sig.get("rule") != "sdk_does_not_compile":
            w["stop_after_pavexc"] = True
        json.dump(w, open(wpath, "w"), indent=1)
    else:
        w = json.load(open(wpath))
        # a witness that must also be driven at run time (or compiled) loses the early stop
        if prop in ("C01", "C03", "C04", "C05", "C06", "C07") and w.get("stop_after_pavexc"):
            w.pop("stop_after_pavexc")
            json.dump(w, open(wpath, "w"), indent=1)
    if any(e["property"] == prop and e["signature"] == sig for e in existing):
        continue
    brief = ", ".join("%s=%s" % (k, str(val)[:90]) for k, val in sorted(sig.items()) if k not in ("input",))
    entry = {"property": prop, "status": "known", "signature": sig,
             "what": "%s (%s); recorded for this one generated application only (first seen as %s); witness e2e/regress/%s.json" % (note, brief, case, name)}
    existing.append(entry)
    with open(kf_path, "a") as f:
        f.write(json.dumps(entry) + "\n")
    added += 1
    print("recorded", prop, iid, brief[:120])
print("entries added:", added)
