#!/usr/bin/env python3
"""Report on the seeded (independently produced) mutants. `--table` rewrites the table in DESIGN.md."""
import glob
import json
import os
import re
import sys

VERIF = os.path.dirname(os.path.dirname(os.path.abspath(__file__)))


def rows():
    for d in sorted(glob.glob(os.path.join(VERIF, "seeded", "*"))):
        try:
            m = json.load(open(os.path.join(d, "meta.json")))
        except Exception:
            continue
        yield os.path.basename(d), m


def show(pattern):
    for name, m in rows():
        if pattern and not re.fullmatch(pattern.replace("*", ".*"), name):
            continue
        c = m.get("confirmed_by_lead", {})
        print("==", name, "| demo clean rc", c.get("demo_on_clean_tree", {}).get("rc"), "patched rc", c.get("demo_with_patch", {}).get("rc"), "| caught_by", m.get("caught_by"))
        print("   tests:", " / ".join(l for l in c.get("tests_with_patch", {}).get("summary", "").splitlines() if "passed" in l and "0 passed" not in l)[:200])
        for p, v in m.get("our_checks_against_mutant", {}).items():
            print("   ", p, "exit", v["exit"], "viol", v["violations"], json.dumps(v["sigs"])[:260])


def table():
    lines = ["| seeded id | breaks | what it changes / what it needs to manifest | caught by (quick tier) | first signatures |", "|---|---|---|---|---|"]
    n = caught = 0
    for name, m in rows():
        n += 1
        cb = m.get("caught_by") or []
        caught += bool(cb)
        summ = (m.get("summary") or "").replace("|", "/").replace("\n", " ")
        needs = (m.get("needs_to_manifest") or "").replace("|", "/").replace("\n", " ")
        txt = (summ[:170] + (" — needs: " + needs[:150] if needs else ""))
        sigs = []
        for p in cb:
            for s in m["our_checks_against_mutant"][p]["sigs"][:2]:
                sigs.append(",".join("%s=%s" % (k, v) for k, v in sorted(s.items()) if k in ("rule", "law", "cause", "kind", "operator", "field", "attribute")))
        verdict = ", ".join(cb) if cb else ("outside the property as stated (see meta.json)" if m.get("out_of_scope") else "**missed**")
        if m.get("out_of_scope") and not cb:
            n -= 1
        lines.append("| `%s` | %s | %s | %s | %s |" % (name, m.get("property"), txt, verdict, "; ".join(dict.fromkeys(sigs))[:160]))
    lines.append("")
    lines.append("%d changes kept, %d reported by the quick tier of at least one check (after the strengthening described below)." % (n, caught))
    p = os.path.join(VERIF, "DESIGN.md")
    s = open(p).read()
    s = re.sub(r"(<!-- MUTANTS-TABLE-BEGIN -->\n).*?(<!-- MUTANTS-TABLE-END -->)", lambda mm: mm.group(1) + "\n".join(lines) + "\n" + mm.group(2), s, flags=re.S)
    open(p, "w").write(s)
    print("table written: %d rows, %d caught" % (n, caught))


if __name__ == "__main__":
    if "--table" in sys.argv:
        table()
    else:
        show(sys.argv[1] if len(sys.argv) > 1 else None)
