#!/usr/bin/env python3
import json,sys,glob
for d in sorted(glob.glob('/verif/seeded/%s' % (sys.argv[1] if len(sys.argv)>1 else '*'))):
    try: m=json.load(open(d+'/meta.json'))
    except Exception as e: print(d,'no meta'); continue
    c=m.get('confirmed_by_lead',{})
    print('==',d.split('/')[-1],'| demo clean rc',c.get('demo_on_clean_tree',{}).get('rc'),'patched rc',c.get('demo_with_patch',{}).get('rc'),'| caught_by',m.get('caught_by'))
    print('   tests:', ' / '.join(l for l in c.get('tests_with_patch',{}).get('summary','').splitlines() if 'passed' in l and not '0 passed' in l)[:200])
    for p,v in m.get('our_checks_against_mutant',{}).items(): print('   ',p,'exit',v['exit'],'viol',v['violations'],json.dumps(v['sigs'])[:260])
