#!/usr/bin/env python3
"""setup_cmd: build, offline, everything the checks need.

  1. JSON docs for core/alloc/std from rust-src (the `nightly` toolchain has no rust-docs-json component)
     + a `rustup` shim that points pavexc at them.
  2. pavexc (from /repo's working tree).
  3. the e2e slot workspaces (third-party dependencies pre-compiled, docs cache warmed).
  4. the engine-B harness crates.
Steps are idempotent; `--only a,b` restricts to the named steps.
"""
import argparse
import os
import sys
import time

sys.path.insert(0, os.path.dirname(os.path.dirname(os.path.abspath(__file__))))
from lib import vlib  # noqa: E402
from lib import e2e_env  # noqa: E402

HARNESS_CRATES = ["typealg", "sessions", "stores", "bodyx", "cfgload", "domain", "shutdown", "persist"]  # bpschema is built (with its generated sources) by the C19 warm-up step


def step(name, f):
    t0 = time.time()
    vlib.log("[setup] %s ..." % name)
    f()
    vlib.log("[setup] %s done in %.1fs" % (name, time.time() - t0))


def main():
    ap = argparse.ArgumentParser()
    ap.add_argument("--only", default="")
    ap.add_argument("--slots", type=int, default=e2e_env.N_SLOTS)
    args = ap.parse_args()
    only = set(x for x in args.only.split(",") if x)

    def want(n):
        return not only or n in only

    if want("docs"):
        step("docs toolchain", e2e_env.ensure_docs_toolchain)
    if want("pavexc"):
        step("pavexc", e2e_env.build_pavexc)
    if want("slots"):
        step("slots", lambda: e2e_env.ensure_slots(args.slots))
    if want("harness"):
        for c in HARNESS_CRATES:
            if os.path.isdir(os.path.join(vlib.HARNESS, c)):
                step("harness " + c, lambda c=c: vlib.build_harness(c))
    if want("warm"):
        # warm lazily-built artefacts (C19's generated crates and its nightly rustdoc JSON build); verdicts are ignored here
        def warm():
            vlib.run([os.path.join(vlib.VERIF, "check"), "C19", "--tier", "quick"], cwd=vlib.VERIF, env=vlib.base_env(), timeout=3600)
        step("warm C19 caches", warm)
    vlib.log("[setup] all done")


if __name__ == "__main__":
    main()
