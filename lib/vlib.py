"""Shared machinery for the /verif checks: context, subprocess helpers, evidence writer,
known-findings matching and the verdict/exit-code discipline.

Verdicts are three valued:
  * violation      -> `VIOLATION property=<id> replay=<path>` and exit 1 (unless it matches a known finding)
  * held           -> exit 0
  * inconclusive   -> counted in evidence; exit 0 if something non-trivial was still observed,
                      exit 2 (harness error, never a VIOLATION line) if nothing was observed.
"""
import hashlib
import json
import os
import subprocess
import sys
import time

VERIF = os.path.dirname(os.path.dirname(os.path.abspath(__file__)))
REPO = os.environ.get("VERIF_REPO", "/repo")
BUILD = os.path.join(VERIF, "build")
EVIDENCE = os.path.join(VERIF, "evidence")
REPLAYS = os.path.join(VERIF, "replays")
HARNESS = os.path.join(VERIF, "harness")
GUARD_RUSTFLAGS = "--cfg pavex_verif"


def base_env(extra=None):
    env = dict(os.environ)
    env["CARGO_NET_OFFLINE"] = "true"
    env["CARGO_TERM_COLOR"] = "never"
    env.pop("RUSTFLAGS", None)
    if extra:
        env.update(extra)
    return env


def log(msg):
    sys.stderr.write(msg.rstrip("\n") + "\n")
    sys.stderr.flush()


class HarnessError(Exception):
    """The machinery itself failed (build error, generator self-check...). Never a verdict."""


def run(cmd, cwd=None, env=None, timeout=None, check=False, stdin=None):
    """Run a command, return (rc, stdout, stderr, timed_out)."""
    try:
        p = subprocess.run(cmd, cwd=cwd, env=env, timeout=timeout, input=stdin,
                           stdout=subprocess.PIPE, stderr=subprocess.PIPE)
        rc, out, err, to = p.returncode, p.stdout, p.stderr, False
    except subprocess.TimeoutExpired as e:
        rc, out, err, to = -999, e.stdout or b"", e.stderr or b"", True
    out = out.decode("utf-8", "replace")
    err = err.decode("utf-8", "replace")
    if check and rc != 0:
        raise HarnessError("command failed rc=%s: %s\n%s" % (rc, " ".join(map(str, cmd)), err[-4000:]))
    return rc, out, err, to


def harness_target_dir():
    return os.environ.get("VERIF_HARNESS_TARGET", os.path.join(BUILD, "t-harness"))


def build_harness(crate, bins=None, hooks=True, features=None):
    """(Re)build one standalone harness crate against /repo's current working tree.
    cargo's fingerprinting makes it a no-op when no source changed. Returns the dir with the binaries."""
    cdir = os.path.join(HARNESS, crate)
    lock = os.path.join(cdir, "Cargo.lock")
    if not os.path.exists(lock):
        import shutil
        shutil.copy(os.path.join(REPO, "Cargo.lock"), lock)
    tdir = harness_target_dir()
    env = base_env({"CARGO_TARGET_DIR": tdir})
    if hooks:
        env["RUSTFLAGS"] = GUARD_RUSTFLAGS
    cmd = ["cargo", "build", "--offline", "--profile", "verif"]
    if features:
        cmd += ["--features", ",".join(features)]
    t0 = time.time()
    rc, out, err, to = run(cmd, cwd=cdir, env=env, timeout=3600)
    if rc != 0:
        raise HarnessError("harness build failed for %s:\n%s" % (crate, err[-6000:]))
    log("[build] %s built in %.1fs" % (crate, time.time() - t0))
    return os.path.join(tdir, "verif")


def parse_jsonl(text):
    out = []
    for line in text.splitlines():
        line = line.strip()
        if not line.startswith("{"):
            continue
        try:
            out.append(json.loads(line))
        except Exception:
            pass
    return out


# ----------------------------------------------------------------------------- known findings

def load_known_findings(prop):
    path = os.path.join(VERIF, "known_findings.jsonl")
    res = []
    if os.path.exists(path):
        for line in open(path):
            line = line.strip()
            if not line or line.startswith("#"):
                continue
            e = json.loads(line)
            if e.get("property") == prop:
                res.append(e)
    return res


def sig_matches(entry_sig, sig):
    """An entry matches when every key it lists has the same value in the violation's signature."""
    if not isinstance(sig, dict):
        return False
    for k, v in entry_sig.items():
        if sig.get(k) != v:
            return False
    return True


class Ctx:
    def __init__(self, prop, tier, seed, replay=None):
        self.prop = prop
        self.tier = tier
        self.seed = seed
        self.replay = replay
        self.t0 = time.time()
        self.violations = []   # dicts: {sig, detail}
        self.known_hits = []   # (entry, violation)
        self.inconclusive = []
        self.known = load_known_findings(prop)

    @property
    def quick(self):
        return self.tier == "quick"

    def violation(self, sig, detail):
        """Record a violation. `sig` is a small dict identifying the specific failing input class."""
        for e in self.known:
            if e.get("status") == "known" and sig_matches(e["signature"], sig):
                self.known_hits.append((e, {"sig": sig, "detail": detail}))
                return False
        self.violations.append({"sig": sig, "detail": detail})
        return True

    def inconc(self, what, detail=None):
        self.inconclusive.append({"what": what, "detail": detail})

    def finish(self, coverage, assumptions=None, level="exploration", require_nontrivial=True):
        """Write evidence, print verdict lines, exit with the contract's status."""
        os.makedirs(EVIDENCE, exist_ok=True)
        os.makedirs(REPLAYS, exist_ok=True)
        wall = time.time() - self.t0
        coverage = dict(coverage)
        if "exhaustive" in coverage and not isinstance(coverage["exhaustive"], bool):
            # the schema's flag is for runs that enumerate their whole space; completely enumerated sub-spaces go here
            coverage["exhaustive_subspaces"] = coverage.pop("exhaustive")
        coverage["evaluations"] = int(coverage.get("evaluations", 0))
        coverage["distinct_nontrivial"] = int(coverage.get("distinct_nontrivial", 0))
        if not isinstance(coverage.get("samples"), list):
            coverage["samples"] = [coverage.get("samples")] if coverage.get("samples") else []
        coverage.setdefault("rule", "")
        coverage.setdefault("inconclusive", len(self.inconclusive))
        if self.inconclusive:
            coverage.setdefault("inconclusive_samples", self.inconclusive[:5])
        coverage["known_findings_observed"] = [
            {"what": e["what"], "signature": e["signature"]} for e, _ in self.known_hits[:20]]
        ev = {
            "property_id": self.prop, "tier": self.tier, "seed": self.seed, "level": level,
            "coverage": coverage, "assumptions": assumptions or [], "wall_s": round(wall, 2),
            "violations": len(self.violations),
            "verdict": "violated" if self.violations else "held_on_observed",
        }
        replay_paths = []
        for i, v in enumerate(self.violations[:10]):
            h = hashlib.sha256(json.dumps(v["sig"], sort_keys=True).encode()).hexdigest()[:10]
            p = os.path.join(REPLAYS, "%s_%s_s%d_%s.json" % (self.prop, self.tier, self.seed, h))
            with open(p, "w") as f:
                json.dump({"property": self.prop, "tier": self.tier, "seed": self.seed, **v}, f, indent=1, default=str)
            replay_paths.append(p)
        nontrivial_ok = (coverage.get("distinct_nontrivial", 0) >= 2 and coverage.get("evaluations", 0) >= 1)
        if require_nontrivial and not nontrivial_ok and not self.violations:
            ev["verdict"] = "inconclusive"
        tmp = os.path.join(EVIDENCE, self.prop + ".json.tmp")
        with open(tmp, "w") as f:
            json.dump(ev, f, indent=1, default=str)
        os.replace(tmp, os.path.join(EVIDENCE, self.prop + ".json"))
        seen = set()
        for e, v in self.known_hits:
            key = json.dumps(e["signature"], sort_keys=True)
            if key in seen:
                continue
            seen.add(key)
            print("KNOWN-FINDING: property=%s %s" % (self.prop, e["what"]))
        for p in replay_paths:
            print("VIOLATION property=%s replay=%s" % (self.prop, p))
        print("[%s %s seed=%d] evaluations=%s distinct_nontrivial=%s violations=%d known=%d inconclusive=%d wall=%.1fs" % (
            self.prop, self.tier, self.seed, coverage.get("evaluations"), coverage.get("distinct_nontrivial"),
            len(self.violations), len(self.known_hits), len(self.inconclusive), wall))
        sys.stdout.flush()
        if self.violations:
            sys.exit(1)
        if require_nontrivial and not nontrivial_ok:
            log("harness error: nothing non-trivial was observed (inconclusive)")
            sys.exit(2)
        sys.exit(0)


def run_harness_bin(ctx, bindir, name, args, timeout, env=None):
    """Run a harness binary that speaks the JSONL protocol:
         {"kind":"violation","sig":{..},"detail":..}
         {"kind":"inconclusive","what":..}
         {"kind":"summary", ...coverage keys...}
       Returns the list of summary records. A crash of the harness itself (non-zero exit without a
       summary) is a harness error, not a verdict -- except that harnesses catch panics of the code
       under test themselves and report them as violations."""
    cmd = [os.path.join(bindir, name)] + [str(a) for a in args]
    rc, out, err, to = run(cmd, env=base_env(env), timeout=timeout)
    recs = parse_jsonl(out)
    summaries = [r for r in recs if r.get("kind") == "summary"]
    for r in recs:
        if r.get("kind") == "violation":
            ctx.violation(r.get("sig", {}), r.get("detail"))
        elif r.get("kind") == "inconclusive":
            ctx.inconc(r.get("what"), r.get("detail"))
    if to:
        ctx.inconc("harness watchdog fired", {"cmd": cmd})
    elif rc != 0 and not summaries:
        raise HarnessError("harness %s exited rc=%s without summary:\n%s" % (name, rc, err[-4000:]))
    return summaries


def miri_target_dir():
    return os.environ.get("VERIF_MIRI_TARGET", os.path.join(BUILD, "t-miri"))


def _miri_error_blocks(err):
    """Split Miri's stderr into its `error: ...` report blocks (title, text)."""
    blocks, cur = [], None
    for line in err.splitlines():
        if line.startswith("error: ") or line.startswith("error["):
            if cur:
                blocks.append(cur)
            cur = [line]
        elif cur is not None:
            cur.append(line)
    if cur:
        blocks.append(cur)
    return [(b[0], "\n".join(b)) for b in blocks]


def run_under_miri(ctx, crate, binary, arg_sets, timeout, label, warm_args):
    """Sanitizer supplement: run a harness binary inside the Miri interpreter (`cargo +nightly miri run`), i.e. the
    real code of /repo with every memory access, borrow and uninitialised read checked, on (small) shards of the same
    workload and with the same oracles as the native run.
      * JSONL records of the harness are handled as usual (the oracles run inside Miri too);
      * an `Undefined Behavior` report whose backtrace has a frame in /repo is a violation; one that lies entirely in
        third-party crates / std is recorded as inconclusive (never a verdict on the property);
      * `unsupported operation`, a build failure or the watchdog are inconclusive.
    Returns (summaries, stats)."""
    import concurrent.futures as cf
    cdir = os.path.join(HARNESS, crate)
    env = base_env({"CARGO_TARGET_DIR": miri_target_dir(), "RUSTFLAGS": GUARD_RUSTFLAGS,
                    "MIRIFLAGS": "-Zmiri-disable-isolation -Zmiri-ignore-leaks"})
    base = ["cargo", "+nightly", "miri", "run", "--offline", "--bin", binary, "--"]
    stats = {"tool": "miri (cargo +nightly miri run, -Zmiri-disable-isolation -Zmiri-ignore-leaks)", "label": label,
             "processes": 0, "processes_completed": 0, "ub_reports_in_repo_frames": 0, "ub_reports_elsewhere": 0,
             "unsupported_operations": 0, "cases_interpreted": 0}
    t0 = time.time()
    # build once (interpreted sysroot + dependency metadata), with a run that does nothing, so that the shards do not
    # queue on cargo's build lock with their budgets running
    rc, out, err, to = run(base + [str(a) for a in warm_args], cwd=cdir, env=env, timeout=timeout)
    stats["build_s"] = round(time.time() - t0, 1)
    if to or ("could not compile" in err) or ("error: failed" in err):
        ctx.inconc("miri build failed or timed out (%s)" % label, {"stderr_tail": err[-1500:]})
        return [], stats

    def one(args):
        return run(base + [str(a) for a in args], cwd=cdir, env=env, timeout=timeout)

    summaries = []
    with cf.ThreadPoolExecutor(max_workers=max(1, len(arg_sets))) as ex:
        results = list(ex.map(one, arg_sets))
    for args, (rc, out, err, to) in zip(arg_sets, results):
        stats["processes"] += 1
        recs = parse_jsonl(out)
        for r in recs:
            if r.get("kind") == "violation":
                ctx.violation(r.get("sig", {}), r.get("detail"))
            elif r.get("kind") == "inconclusive":
                ctx.inconc(r.get("what"), r.get("detail"))
            elif r.get("kind") == "summary":
                summaries.append(r)
                stats["cases_interpreted"] += int(r.get("evaluations", 0) or 0)
                stats["processes_completed"] += 1
        if to:
            ctx.inconc("miri watchdog fired (%s)" % label, {"args": args})
            continue
        for title, text in _miri_error_blocks(err):
            if "Undefined Behavior" in title:
                frames = [l.strip() for l in text.splitlines() if REPO + "/" in l]
                if frames:
                    stats["ub_reports_in_repo_frames"] += 1
                    ctx.violation({"rule": "miri_undefined_behavior", "title": title[:160], "frame": frames[0][:200]},
                                  {"report": text[:6000], "args": args, "label": label})
                else:
                    stats["ub_reports_elsewhere"] += 1
                    ctx.inconc("miri reported undefined behaviour outside /repo (third-party crate or std): " + title[:160],
                               {"report": text[:3000], "args": args})
            elif "unsupported operation" in title:
                stats["unsupported_operations"] += 1
                ctx.inconc("miri: " + title[:200], {"report": text[:2000], "args": args})
    stats["wall_s"] = round(time.time() - t0, 1)
    return summaries, stats


def merge_summaries(summaries, sum_keys=("evaluations",), sample_cap=6):
    cov = {}
    samples = []
    distinct = set()
    for s in summaries:
        for k, v in s.items():
            if k in ("kind", "samples", "distinct_keys"):
                continue
            if isinstance(v, (int, float)) and not isinstance(v, bool):
                cov[k] = cov.get(k, 0) + v
            elif isinstance(v, dict):
                d = cov.setdefault(k, {})
                for kk, vv in v.items():
                    if isinstance(vv, (int, float)) and not isinstance(vv, bool):
                        d[kk] = d.get(kk, 0) + vv
                    else:
                        d[kk] = vv
            else:
                cov.setdefault(k, v)
        samples += s.get("samples", [])
        distinct.update(s.get("distinct_keys", []))
    cov["samples"] = samples[:sample_cap]
    if distinct:
        cov["distinct_nontrivial"] = len(distinct)
    return cov
