#!/usr/bin/env python3
"""Prepare a scratch worktree for an independent mutation agent and print the prompt text for it.
usage: mutprep.py <property id> <tag> [--compiler]"""
import json, os, subprocess, sys, shutil
prop_id, tag = sys.argv[1], sys.argv[2]
compiler = "--compiler" in sys.argv
round2 = "--round2" in sys.argv
wt = "/tmp/mut-%s" % tag
out = "/tmp/mut-%s-out" % tag
if not os.path.exists(wt):
    subprocess.run(["git", "-C", "/repo", "worktree", "add", "--detach", wt], check=True, stdout=subprocess.DEVNULL, stderr=subprocess.DEVNULL)
os.makedirs(out, exist_ok=True)
if compiler and not os.path.exists(os.path.join(wt, "target")):
    subprocess.run(["cp", "-r", "/verif/build/t-pavexc", os.path.join(wt, "target")], check=True)
p = next(json.loads(l) for l in open("/verif/properties.jsonl") if json.loads(l)["id"] == prop_id)
avoid = ""
if round2:
    import glob
    lines = []
    for mf in sorted(glob.glob("/verif/seeded/%s-*/meta.json" % prop_id)):
        try:
            mm = json.load(open(mf))
        except Exception:
            continue
        lines.append("* %s: %s" % (", ".join(mm.get("files_changed", []))[:160], (mm.get("summary") or "")[:260].replace("\n", " ")))
    if lines:
        avoid = ("\n## Already produced by other evaluators (do NOT repeat these: pick different code sites AND different mechanisms; "
                 "prefer areas of the anchored code, features and kinds of input that this list does not touch)\n\n" + "\n".join(lines) + "\n")
text = """You are helping to evaluate how well a verification effort can detect regressions in the Rust project `LukeMathWalker/pavex` (a backend framework whose compiler `pavexc` analyses rustdoc JSON of user blueprints and generates server code; plus a runtime: server, extractors, sessions, config).

You have your OWN scratch git worktree of the repository at `%(wt)s` (HEAD = the current reference tree). Work ONLY inside `%(wt)s` and `%(out)s`. Do NOT read, list or touch `/verif` or `/repo` (other people's work lives there; your result must be independent of it). No network: always `cargo ... --offline`; use `CARGO_TARGET_DIR=%(wt)s/target` and at most `-j 6` (`CARGO_BUILD_JOBS=6`); other jobs share the machine.

## The property (the project is supposed to satisfy it)

id: %(id)s — %(title)s

Statement: %(statement)s

Quantifier: %(qtext)s

Why the existing tests cannot settle it: %(why)s

Code it is anchored in: %(files)s
Mechanisms meant to make it hold: %(mech)s

## Your task

Produce a **realistic change to the source of pavex** (the kind of bug a developer could plausibly introduce: a refactoring slip, a wrong condition, an off-by-one, a missing case, two statements reordered, a cache key missing a component, two cooperating sites that each look fine alone...) that **breaks this property** while the repository **still compiles and its existing test suite still passes** (`cargo test --offline -p <crates you touched and crates that depend on them>`; the baseline suite is `cargo test --workspace --offline`, of which the mysql/postgres/redis store tests and two pavex_cli::prebuilt tests already fail in this sandbox for lack of services — ignore those). The change must need **something specific to manifest** — a particular interleaving, a fault or crash at a particular point, a multi-step sequence of operations, an unusual input, a particular shape of blueprint — not something ordinary use would expose at once. Do not just delete a whole check or return a constant; make it subtle but real: with the change applied the property must be violated for some concrete input/history that you exhibit.

Provide a **demonstration**: a test or small program that FAILS (or visibly misbehaves) with your change applied and PASSES on the unchanged tree, with a README saying exactly how to run it and what output to expect in both cases. You must actually run it both ways.

Aim for **2 to 3 different mutants** (different mechanisms / different code sites), each delivered separately:

    %(out)s/m1/patch.diff      # `git -C %(wt)s diff` of the source change ONLY (no tests, no demo files, must apply to HEAD with `git apply`)
    %(out)s/m1/demo/           # the demonstration (sources + README.md)
    %(out)s/m1/meta.json       # {"property": "%(id)s", "summary": "...", "needs_to_manifest": "...", "files_changed": [...], "how_demonstrated": "...", "tests_run": "which cargo test commands you ran with the change and their result"}
    %(out)s/m2/...

Between mutants reset your worktree (`git -C %(wt)s checkout -- . && git -C %(wt)s clean -fd -e target`). Leave the worktree clean (no applied patch) at the end. Keep demos small and self-contained (they may depend on the repository crates by absolute path `%(wt)s/...`; I will rewrite that path when I replay them).
%(extra)s%(avoid)s
Final message: list the mutants with one paragraph each (what changed, why it breaks the property, what it needs to manifest, how the demo shows it, which tests you ran).""" % {
    "wt": wt, "out": out, "id": p["id"], "title": p["title"], "statement": p["statement"], "qtext": p["quantifier"]["text"],
    "why": p["why_tests_cant"], "files": ", ".join(p["anchors"]["files"]),
    "mech": "; ".join("%s (%s)" % (m.get("name"), m.get("where")) for m in p["anchors"]["mechanism"]),
    "avoid": avoid,
    "extra": ("\n## Running the compiler here\n\nRead `/tmp/pavexc-kit/README.md` first: it explains how to run `pavexc` offline in this sandbox (rustup shim, docs toolchain, warm docs cache, a template workspace with an example application and a driver that boots the generated server). `%s/target` already holds a warm build cache of the compiler's dependencies: build with `cd %s && CARGO_TARGET_DIR=%s/target cargo build --offline -p pavexc_cli` (about 1-2 minutes the first time). For this property the demonstration will typically be: an application crate + blueprint, the command line that runs pavexc on it, and what is observed (exit status / diagnostics / `cargo check` of the generated crate / the running server's behaviour) with and without your change.\n" % (wt, wt, wt)) if compiler else "",
}
open(os.path.join(out, "PROMPT.txt"), "w").write(text)
print(text)
