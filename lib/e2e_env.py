"""Environment for engine A: docs toolchain + rustup shim, pavexc build, slot workspaces."""
import glob
import os
import shutil
import stat
import time

from lib import vlib

N_SLOTS = 6
DOCS_TC = os.path.join(vlib.BUILD, "docs-toolchain")
SHIM_DIR = os.path.join(vlib.BUILD, "shim")
PAVEXC_TARGET = os.path.join(vlib.BUILD, "t-pavexc")
SLOTS = os.path.join(vlib.BUILD, "slots")
REAL_RUSTUP = "/root/.cargo/bin/rustup"
# Lock file the slot workspaces start from (so that cargo resolves offline to what the registry cache holds). The one next
# to the repository's UI tests is git-ignored there: a committed copy is the fallback.
UI_LOCK = os.path.join(vlib.REPO, "compiler", "ui_tests", "Cargo.lock")
if not os.path.exists(UI_LOCK):
    UI_LOCK = os.path.join(vlib.VERIF, "e2e", "templates", "slot.Cargo.lock")


def nightly_root():
    c = glob.glob("/root/.rustup/toolchains/nightly-x86_64-*")
    if not c:
        raise vlib.HarnessError("no `nightly` toolchain installed")
    return c[0]


def ensure_docs_toolchain():
    """JSON docs for core/alloc/std built from rust-src with the installed `nightly` (rustdoc JSON format 57,
    the one /repo's rustdoc_types fork understands)."""
    jd = os.path.join(DOCS_TC, "share", "doc", "rust", "json")
    if not all(os.path.exists(os.path.join(jd, n + ".json")) for n in ("core", "alloc", "std")):
        scratch = os.path.join(vlib.BUILD, "docs-scratch")
        shutil.rmtree(scratch, ignore_errors=True)
        src = os.path.join(nightly_root(), "lib", "rustlib", "src", "rust")
        os.makedirs(scratch)
        shutil.copytree(os.path.join(src, "library"), os.path.join(scratch, "library"), symlinks=True)
        for extra in ("Cargo.lock",):
            if os.path.exists(os.path.join(src, extra)):
                shutil.copy(os.path.join(src, extra), scratch)
        env = vlib.base_env({
            "RUSTC_BOOTSTRAP": "1",
            "RUSTDOCFLAGS": "-Zunstable-options --output-format json",
            "CARGO_TARGET_DIR": os.path.join(scratch, "target"),
        })
        vlib.run(["cargo", "+nightly", "doc", "--offline", "-p", "core", "-p", "alloc", "-p", "std", "--no-deps"],
                 cwd=os.path.join(scratch, "library"), env=env, timeout=1800, check=True)
        os.makedirs(jd, exist_ok=True)
        for n in ("core", "alloc", "std"):
            shutil.copy(os.path.join(scratch, "target", "doc", n + ".json"), os.path.join(jd, n + ".json"))
        shutil.rmtree(scratch, ignore_errors=True)
    os.makedirs(os.path.join(DOCS_TC, "bin"), exist_ok=True)
    cargo_stub = os.path.join(DOCS_TC, "bin", "cargo")
    if not os.path.exists(cargo_stub):
        with open(cargo_stub, "w") as f:
            f.write("#!/bin/bash\nexec %s run nightly cargo \"$@\"\n" % REAL_RUSTUP)
        os.chmod(cargo_stub, 0o755)
    os.makedirs(SHIM_DIR, exist_ok=True)
    shim = os.path.join(SHIM_DIR, "rustup")
    with open(shim + ".tmp", "w") as f:
        f.write("""#!/bin/bash
# rustup shim used only for pavexc invocations made by /verif:
#  `rustup which --toolchain T cargo` -> the docs-toolchain root (which holds share/doc/rust/json)
#  `rustup run T ...`                 -> `rustup run nightly ...`
if [ "$1" = "which" ]; then echo "%s/bin/cargo"; exit 0; fi
if [ "$1" = "run" ]; then shift; shift; exec %s run nightly "$@"; fi
exec %s "$@"
""" % (DOCS_TC, REAL_RUSTUP, REAL_RUSTUP))
    os.chmod(shim + ".tmp", 0o755)
    os.replace(shim + ".tmp", shim)


def build_pavexc():
    """(Re)build pavexc from /repo's current working tree. Returns the binary path."""
    env = vlib.base_env({"CARGO_TARGET_DIR": PAVEXC_TARGET})
    t0 = time.time()
    rc, out, err, to = vlib.run(["cargo", "build", "--offline", "-p", "pavexc_cli"], cwd=vlib.REPO, env=env, timeout=3600)
    if rc != 0:
        raise vlib.HarnessError("pavexc build failed:\n" + err[-6000:])
    vlib.log("[build] pavexc in %.1fs" % (time.time() - t0))
    return pavexc_bin()


def pavexc_bin():
    return os.path.join(PAVEXC_TARGET, "debug", "pavexc")


def pavexc_env(home):
    """Environment for one pavexc invocation: shim first on PATH, isolated HOME (docs cache), real rustup/cargo homes."""
    return vlib.base_env({
        "PATH": SHIM_DIR + ":" + os.environ.get("PATH", ""),
        "HOME": home,
        "RUSTUP_HOME": "/root/.rustup",
        "CARGO_HOME": "/root/.cargo",
        "PAVEXC_DOCS_TOOLCHAIN": "nightly",
        "PAVEXC_COLOR": "never",
        "NO_COLOR": "1",
        "RUST_BACKTRACE": "1",
    })


WORKSPACE_TOML = """[workspace]
members = ["app", "sdk", "driver", "depk"]
exclude = ["extdep"]
resolver = "3"

[workspace.dependencies]
pavex = { path = "%(repo)s/runtime/pavex" }
tokio = { version = "1", features = ["full"] }
serde = { version = "1", features = ["derive"] }
serde_json = "1"

[profile.dev]
debug = 0
incremental = false
"""

APP_TOML = """[package]
name = "app"
version = "0.1.0"
edition = "2024"

[lints.rust]
unexpected_cfgs = { level = "allow" }
dead_code = "allow"
unused = "allow"

[dependencies]
pavex = { workspace = true }
serde = { workspace = true }
serde_json = { workspace = true }
%(depk)s
"""

# A second library crate of the slot workspace: part of a case's types and constructors may live there (see
# gen.crateize), possibly behind a renamed dependency (`dk = { package = "depk", .. }`).
DEPK_TOML = """[package]
name = "depk"
version = "0.1.0"
edition = "2024"

[lints.rust]
unexpected_cfgs = { level = "allow" }
dead_code = "allow"
unused = "allow"

[dependencies]
pavex = { workspace = true }
serde = { workspace = true }
serde_json = { workspace = true }
"""


def app_toml(alias=None):
    if alias is None:
        dep = ""
    elif alias == "depk":
        dep = 'depk = { path = "../depk" }'
    else:
        dep = '%s = { package = "depk", path = "../depk" }' % alias
    return APP_TOML % {"depk": dep}


DRIVER_TOML = """[package]
name = "driver"
version = "0.1.0"
edition = "2024"

[dependencies]
app = { path = "../app" }
sdk = { path = "../sdk" }
pavex = { workspace = true }
tokio = { workspace = true }
serde_json = { workspace = true }
"""


def slot_dir(i):
    return os.path.join(SLOTS, str(i))


def ensure_slots(n=N_SLOTS):
    from e2e import slots as slotmod
    slotmod.ensure_slots(n)
