#!/bin/bash
# usage: run_all_e2e.sh <seed> <tier>
cd /verif
for p in C02 C01 C03 C04 C05 C06 C07 C09 C08; do VERIF_SEED=$1 ./check $p --tier ${2:-quick} 2>&1 | grep -v "^\[main\]\|^\[planted\]\|^\[engine\]\|^\[build\]\|^KNOWN" | cut -c1-300; done
