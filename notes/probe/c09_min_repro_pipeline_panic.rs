use pavex::Response;
use pavex::middleware::{Next, Processing};
use pavex::Blueprint;
pub struct R0;
#[pavex::request_scoped(id = "R0_NEW")]
pub fn r0_new() -> R0 { R0 }
#[pavex::request_scoped(id = "R0_NEW_NESTED")]
pub fn r0_new_nested() -> R0 { R0 }
#[pavex::pre_process(id = "PRE0")]
pub fn pre0(_r0: &R0) -> Processing { Processing::Continue }
#[pavex::post_process(id = "POST0")]
pub fn post0(r: Response, _r0: &R0) -> Response { r }
#[pavex::wrap(id = "W0")]
pub async fn w0<C>(_r0: &R0, next: Next<C>) -> Response where C: std::future::IntoFuture<Output = Response> { next.await }
#[pavex::get(path = "/c")]
pub fn h_c(_r0: &R0) -> Response { Response::ok() }
pub fn blueprint() -> Blueprint {
    let mut bp = Blueprint::new();
    bp.constructor(R0_NEW);
    bp.pre_process(PRE0);
    bp.post_process(POST0);
    bp.nest({
        let mut bp = Blueprint::new();
        bp.constructor(R0_NEW_NESTED);
        bp.route(H_C);
        bp
    });
    bp
}
