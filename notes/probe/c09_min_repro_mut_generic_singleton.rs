use pavex::Response;
use pavex::Blueprint;
pub struct Inner;
pub struct Holder<T>(pub T);
#[pavex::singleton(id = "INNER_NEW")]
pub fn inner_new() -> Inner { Inner }
#[pavex::singleton(id = "HOLDER_NEW")]
pub fn holder_new<T>(t: T) -> Holder<T> { Holder(t) }
#[pavex::get(path = "/c")]
pub fn h_c(_h: &mut Holder<Inner>) -> Response { Response::ok() }
pub fn blueprint() -> Blueprint {
    let mut bp = Blueprint::new();
    bp.constructor(INNER_NEW);
    bp.constructor(HOLDER_NEW);
    bp.route(H_C);
    bp
}
