use std::io::{Read, Write};
use std::sync::Mutex;
use std::time::{Duration, Instant};
use pavex::server::{Server, ServerConfiguration, ShutdownMode, IncomingStream};
static LOG: Mutex<Vec<String>> = Mutex::new(Vec::new());
fn ev(s: String) { LOG.lock().unwrap().push(s); }
async fn handler(req: http::Request<hyper::body::Incoming>, _c: Option<pavex::connection::ConnectionInfo>, _s: ()) -> pavex::Response {
    let p = req.uri().path().to_string();
    ev(format!("enter {p}"));
    if p.starts_with("/block") { std::thread::sleep(Duration::from_millis(600)); } // blocks the single-threaded worker
    if p.starts_with("/slow") { tokio::time::sleep(Duration::from_millis(300)).await; }
    ev(format!("done {p}"));
    pavex::Response::ok()
}
fn client(port: u16, path: &str) -> std::thread::JoinHandle<String> {
    let path = path.to_string();
    std::thread::spawn(move || {
        let mut s = match std::net::TcpStream::connect(("127.0.0.1", port)) { Ok(s) => s, Err(e) => return format!("{path}: connect error {e}") };
        s.set_read_timeout(Some(Duration::from_secs(5))).unwrap();
        if let Err(e) = s.write_all(format!("GET {path} HTTP/1.1\r\nHost: x\r\nConnection: close\r\n\r\n").as_bytes()) { return format!("{path}: write error {e}"); }
        let mut out = String::new();
        match s.read_to_string(&mut out) { Ok(_) => format!("{path}: {:?}", out.lines().next()), Err(e) => format!("{path}: read error {e} after {:?}", out.lines().next()) }
    })
}
#[tokio::main]
async fn main() {
    let workers: usize = std::env::args().nth(1).map(|s| s.parse().unwrap()).unwrap_or(1);
    let listener = std::net::TcpListener::bind("127.0.0.1:0").unwrap();
    let port = listener.local_addr().unwrap().port();
    let incoming: IncomingStream = listener.try_into().unwrap();
    let cfg = ServerConfiguration::default().set_n_workers(workers);
    let handle = Server::new().set_config(cfg).listen(incoming).serve(handler, ());
    let t0 = Instant::now();
    let mut cs = vec![client(port, "/block0")];
    tokio::time::sleep(Duration::from_millis(100)).await; // worker is now blocked inside /block0
    for i in 0..4 { cs.push(client(port, &format!("/queued{i}"))); }
    cs.push(client(port, "/slowq"));
    tokio::time::sleep(Duration::from_millis(150)).await; // requests are written and queued at the worker
    ev("shutdown called".into());
    handle.clone().shutdown(ShutdownMode::Graceful { timeout: Duration::from_secs(3) }).await;
    ev(format!("shutdown resolved after {:?}", t0.elapsed()));
    let late = client(port, "/late");
    for c in cs { println!("{}", c.join().unwrap()); }
    println!("{}", late.join().unwrap());
    handle.await;
    println!("--- log"); for l in LOG.lock().unwrap().iter() { println!("{l}"); }
}
