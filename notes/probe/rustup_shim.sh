#!/bin/bash
# shim: answers 'rustup which --toolchain T cargo' with the docs toolchain root; forwards the rest to nightly
if [ "$1" = "which" ]; then echo "/tmp/pvx_tc/bin/cargo"; exit 0; fi
if [ "$1" = "run" ]; then shift; shift; exec /root/.cargo/bin/rustup run nightly "$@"; fi
exec /root/.cargo/bin/rustup "$@"
