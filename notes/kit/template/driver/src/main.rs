use std::io::{Read, Write};
use std::future::IntoFuture;
fn req(port: u16, raw: &str) -> String {
    let mut s = std::net::TcpStream::connect(("127.0.0.1", port)).unwrap();
    s.write_all(raw.as_bytes()).unwrap();
    let mut out = String::new();
    s.read_to_string(&mut out).unwrap();
    out.lines().next().unwrap_or("").to_string()
}
#[tokio::main]
async fn main() {
    let listener = std::net::TcpListener::bind("127.0.0.1:0").unwrap();
    let port = listener.local_addr().unwrap().port();
    let incoming: pavex::server::IncomingStream = listener.try_into().unwrap();
    let server = pavex::server::Server::new().listen(incoming);
    let state = sdk::ApplicationState::new(sdk::ApplicationConfig {}).await.unwrap();
    println!("BOOT {:?}", std::mem::take(&mut *app::LOG.lock().unwrap()));
    tokio::task::spawn(sdk::run(server, state).into_future());
    for raw in [
        "GET /a/1 HTTP/1.1\r\nHost: x\r\nConnection: close\r\n\r\n",
        "GET /a/1 HTTP/1.1\r\nHost: x\r\nx-fail: F0\r\nConnection: close\r\n\r\n",
        "GET /a/1 HTTP/1.1\r\nHost: x\r\nx-early: PRE0\r\nConnection: close\r\n\r\n",
        "POST /a/1 HTTP/1.1\r\nHost: x\r\nContent-Length: 0\r\nConnection: close\r\n\r\n",
        "DELETE /a/1 HTTP/1.1\r\nHost: x\r\nConnection: close\r\n\r\n",
        "GET /b HTTP/1.1\r\nHost: x\r\nConnection: close\r\n\r\n",
        "GET /n/c HTTP/1.1\r\nHost: x\r\nConnection: close\r\n\r\n",
        "GET /n/zzz HTTP/1.1\r\nHost: x\r\nConnection: close\r\n\r\n",
        "GET /zzz HTTP/1.1\r\nHost: x\r\nConnection: close\r\n\r\n",
    ] {
        let raw2 = raw.to_string();
        let status = tokio::task::spawn_blocking(move || req(port, &raw2)).await.unwrap();
        let log = std::mem::take(&mut *app::LOG.lock().unwrap());
        println!("REQ {:?} -> {status}\n   {}", raw.lines().next().unwrap(), log.join("\n   "));
    }
}
