fn main() {
    let path = std::env::args().nth(1).expect("output path");
    app::blueprint().persist(std::path::Path::new(&path)).expect("persist");
}
