use pavex::Response;
use pavex::middleware::{Next, Processing};
use pavex::{blueprint::from, Blueprint};
use std::sync::Mutex;
use std::sync::atomic::{AtomicU64, Ordering};

pub static LOG: Mutex<Vec<String>> = Mutex::new(Vec::new());
static IDS: AtomicU64 = AtomicU64::new(1);
pub fn ev(s: String) { LOG.lock().unwrap().push(s); }
fn fresh() -> u64 { IDS.fetch_add(1, Ordering::SeqCst) }

// singleton
pub struct S0 { pub id: u64 }
#[pavex::singleton(id = "S0_NEW")]
pub fn s0_new() -> S0 { let id = fresh(); ev(format!("construct S0 {id}")); S0 { id } }

// request scoped, shared by reference across middlewares and handler
pub struct R0 { pub id: u64 }
#[pavex::request_scoped(id = "R0_NEW")]
pub fn r0_new(s: &S0) -> R0 { let id = fresh(); ev(format!("construct R0 {id} s0={}", s.id)); R0 { id } }

// request scoped clone-if-necessary, consumed by value in several places
pub struct R1 { pub id: u64, pub root: u64 }
impl Clone for R1 { fn clone(&self) -> Self { let id = fresh(); ev(format!("clone R1 {} -> {id}", self.id)); R1 { id, root: self.root } } }
#[pavex::request_scoped(id = "R1_NEW", clone_if_necessary)]
pub fn r1_new(r0: &R0) -> R1 { let id = fresh(); ev(format!("construct R1 {id} r0={}", r0.id)); R1 { id, root: id } }

// fallible request scoped
pub struct F0 { pub id: u64 }
#[derive(Debug)]
pub struct F0Err { pub id: u64 }
impl std::fmt::Display for F0Err { fn fmt(&self, f: &mut std::fmt::Formatter<'_>) -> std::fmt::Result { write!(f, "F0Err {}", self.id) } }
impl std::error::Error for F0Err {}
#[pavex::request_scoped(id = "F0_NEW")]
pub fn f0_new(head: &pavex::request::RequestHead) -> Result<F0, F0Err> {
    let id = fresh();
    if head.headers.get("x-fail").map(|v| v == "F0").unwrap_or(false) { ev(format!("fail F0 {id}")); Err(F0Err { id }) } else { ev(format!("construct F0 {id}")); Ok(F0 { id }) }
}
#[pavex::error_handler(id = "F0_EH")]
pub fn f0_eh(e: &F0Err) -> Response { ev(format!("error_handler F0_EH err={}", e.id)); Response::new(pavex::http::StatusCode::from_u16(541).unwrap()) }

// transient
pub struct T0 { pub id: u64 }
#[pavex::transient(id = "T0_NEW")]
pub fn t0_new() -> T0 { let id = fresh(); ev(format!("construct T0 {id}")); T0 { id } }

#[pavex::error_observer(id = "OBS0")]
pub fn obs0(e: &pavex::Error, r0: &R0) { ev(format!("observer OBS0 r0={} err={e}", r0.id)); }
#[pavex::error_observer(id = "OBS1")]
pub fn obs1(e: &pavex::Error) { ev(format!("observer OBS1 err={e}")); }

#[pavex::wrap(id = "W0")]
pub async fn w0<C>(r0: &R0, r1: R1, next: Next<C>) -> Response where C: std::future::IntoFuture<Output = Response> {
    ev(format!("enter W0 r0={} r1={}/{}", r0.id, r1.id, r1.root)); let r = next.await; ev("exit W0".into()); r }
#[pavex::wrap(id = "W1")]
pub async fn w1<C>(t: T0, next: Next<C>) -> Response where C: std::future::IntoFuture<Output = Response> {
    ev(format!("enter W1 t0={}", t.id)); let r = next.await; ev("exit W1".into()); r }
#[pavex::pre_process(id = "PRE0")]
pub fn pre0(head: &pavex::request::RequestHead, r0: &R0, r1: R1) -> Processing {
    ev(format!("run PRE0 r0={} r1={}/{}", r0.id, r1.id, r1.root));
    if head.headers.get("x-early").map(|v| v == "PRE0").unwrap_or(false) { Processing::EarlyReturn(Response::new(pavex::http::StatusCode::from_u16(240).unwrap())) } else { Processing::Continue } }
#[pavex::pre_process(id = "PRE1")]
pub fn pre1(t: T0, f: &F0) -> Processing { ev(format!("run PRE1 t0={} f0={}", t.id, f.id)); Processing::Continue }
#[pavex::post_process(id = "POST0")]
pub fn post0(r: Response, r0: &R0) -> Response { ev(format!("run POST0 r0={}", r0.id)); r }
#[pavex::post_process(id = "POST1")]
pub fn post1(r: Response, r1: R1, s: &S0) -> Response { ev(format!("run POST1 r1={}/{} s0={}", r1.id, r1.root, s.id)); r }

#[pavex::get(path = "/a/{x}")]
pub fn h_a(r0: &R0, r1: R1, f: &F0, t: T0, s: &S0) -> Response { ev(format!("handler H_A r0={} r1={}/{} f0={} t0={} s0={}", r0.id, r1.id, r1.root, f.id, t.id, s.id)); Response::ok() }
#[pavex::post(path = "/a/{x}")]
pub fn h_a_post(s: &S0) -> Response { ev(format!("handler H_A_POST s0={}", s.id)); Response::ok() }
#[pavex::get(path = "/b")]
pub fn h_b(r0: &R0) -> Response { ev(format!("handler H_B r0={}", r0.id)); Response::ok() }

// nested override
#[allow(dead_code)]
#[pavex::request_scoped(id = "R0_NEW_NESTED")]
pub fn r0_new_nested() -> R0 { let id = fresh(); ev(format!("construct R0(nested) {id}")); R0 { id } }
#[pavex::get(path = "/c")]
pub fn h_c(r0: &R0) -> Response { ev(format!("handler H_C r0={}", r0.id)); Response::ok() }
#[pavex::fallback(id = "FB_N")]
pub fn fb_n() -> Response { ev("fallback FB_N".into()); Response::new(pavex::http::StatusCode::from_u16(444).unwrap()) }

pub fn blueprint() -> Blueprint {
    let mut bp = Blueprint::new();
    bp.constructor(S0_NEW);
    bp.constructor(R0_NEW);
    bp.constructor(R1_NEW);
    bp.constructor(F0_NEW).error_handler(F0_EH);
    bp.constructor(T0_NEW);
    bp.error_observer(OBS0);
    bp.route(H_B);
    bp.error_observer(OBS1);
    bp.pre_process(PRE0);
    bp.post_process(POST0);
    bp.wrap(W0);
    bp.post_process(POST1);
    bp.wrap(W1);
    bp.pre_process(PRE1);
    bp.route(H_A);
    bp.route(H_A_POST);
    bp.prefix("/n").nest({
        let mut bp = Blueprint::new();
        // (registering R0_NEW_NESTED here, i.e. overriding a request-scoped constructor that inherited middlewares
        // also inject, makes the unchanged compiler panic: a recorded finding, not something for this template)
        bp.route(H_C);
        bp.fallback(FB_N);
        bp
    });
    bp
}
