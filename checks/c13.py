"""C13 - session stores behave like a map with expiry, under concurrency too.

Runtime monitoring of the real `InMemorySessionStore` and `SqliteSessionStore` through the
`SessionStorageBackend` trait by the harness `harness/stores` (bin `stores`):
  * sequential conformance against a map-with-expiry reference model, the effect of every operation
    being observed through a load of every id;
  * concurrent histories recorded at the client boundary and decided by a WGL-style linearizability
    search against the same (nondeterministic) model.
"""
import glob
import os

from lib import vlib

RULE = (
    "Sequential: seeded random sequences of 6-28 operations (create/update/update_ttl/load/delete/"
    "change_id/delete_expired, batch None/1..3) over 2-4 ids, TTL in {0, 1h, 2h}, states = hostile JSON maps "
    "carrying a unique token per write; after every operation every id is loaded and compared with the model; "
    "part of the SQLite histories ('aged') are split around a >1.1 s pause so that TTL-0 rows are older than "
    "their second. A sequential history is non-trivial when it loaded a live record and at least one "
    "update/update_ttl/delete/change_id took effect; distinct = distinct sequence of (op, model class of the "
    "target, result class) per store. Concurrent: 2-4 tokio tasks x 3-6 ops on 2-3 shared ids (<= 20 ops with a "
    "sequential prefix and final loads), seeded yields/sleeps between calls, intervals from one Instant clock; "
    "non-trivial when two calls of different tasks on a common id overlapped in time; distinct = distinct "
    "multiset of operation shapes per store."
)

ASSUMPTIONS = [
    "after every concurrent history on the SQLite file database, when every call has returned, a connection that does not "
    "belong to the store's pool takes and releases the write lock (BEGIN IMMEDIATE / ROLLBACK, 1.5 s of patience): `database is "
    "locked` means that a store call left a transaction open (whatever it reported is then not committed); every other "
    "in-memory sequential history reaches the backend through the public `pavex_session::SessionStore` wrapper",
    "TTL scenarios (every round, both stores, own store instance each): six records written within a few ms (1 s TTLs, some "
    "extended by update_ttl / update, a 1 h TTL shortened to 1 s), then - at least 1.1 s later - delete_expired (all at once or in "
    "batches of one) and loads: extended records must still be there with the state last written, the others gone, and "
    "delete_expired must not report more deletions than there are expired records (it need not reap all of them: SQLite leaves "
    "a record that expired within the current second to the next sweep). SQLite scenarios start in the first 600 ms of a "
    "wall-clock second (a deadline is the floor of now + ttl); a failing write more than 300 ms after a scenario began is "
    "inconclusive. Boundary probe (SQLite, one per round): create(x, 1 s), poll load every 2 ms until it reports None, then "
    "update_ttl(x, 1 h) must report an unknown id and load must still report None. Sequential histories also contain "
    "idempotent updates (the very state and TTL of the last write to the id)",
    "the reference model (Map<id, absent | expired-row-maybe-present | live(token, ttl class)>) encodes the "
    "statement of C13: create on a live id may return Ok or DuplicateId but never changes the record; "
    "change_id of a record onto itself may return Ok or DuplicateId; change_id with old not live and new live "
    "may return UnknownId or DuplicateId; delete_expired returns <= number of expired rows (and <= batch size)",
    "a backend error (`Other`, SQLITE_BUSY, pool timeout) means the operation may or may not have taken effect",
    "TTL 0 is expired at once for every liveness test of both stores (deadline <= now / deadline > unixepoch()), "
    "1 h and 2 h never expire during a run; the TTL reported by load is only asserted within [TTL-10 min, TTL+1 s] "
    "and only while the wall clock agrees with the monotonic clock",
    "call/return instants are taken from one monotonic clock inside the process; equal instants count as overlapping",
    "a linearizability search that exceeds 3M nodes is inconclusive",
    "floating point numbers that differ by a rounding error only (<= 8 eps relative) are reported under their own "
    "signature (float_value_not_roundtripped_exactly) and otherwise treated as the written state",
    "SQLite: in-memory database with one connection for sequential histories; for concurrent histories a file "
    "database under build/c13-db with a pool of 4 connections, busy timeout 10 s, WAL (even shards) or rollback "
    "journal (odd shards), synchronous=OFF; the harness empties the table between histories with its own SQL",
]


def run(ctx):
    bindir = vlib.build_harness("stores")
    dbdir = os.path.join(vlib.BUILD, "c13-db")
    os.makedirs(dbdir, exist_ok=True)
    for f in glob.glob(os.path.join(dbdir, "c13-*")):
        try:
            os.remove(f)
        except OSError:
            pass
    if ctx.quick:
        budget, shards, timeout = 40, 4, 120
    else:
        budget, shards, timeout = 420, 12, 900
    args = ["--seed", ctx.seed, "--tier", ctx.tier, "--budget-s", budget, "--shards", shards, "--db-dir", dbdir]
    if ctx.replay:
        args += ["--replay", ctx.replay]
    summaries = vlib.run_harness_bin(ctx, bindir, "stores", args, timeout=timeout)
    cov = vlib.merge_summaries(summaries)
    cov["rule"] = RULE
    cov["stores"] = ["memory (InMemorySessionStore)", "sqlite (SqliteSessionStore via sqlx)"]
    for k in ("conc_max_concurrency_memory", "conc_max_concurrency_sqlite"):
        cov.setdefault(k, 0)
    cov["max_concurrency_seen"] = max(cov["conc_max_concurrency_memory"], cov["conc_max_concurrency_sqlite"])
    cov["histories_checked_for_linearizability"] = cov.get("conc_histories_memory", 0) + cov.get("conc_histories_sqlite", 0)
    ctx.finish(cov, ASSUMPTIONS, require_nontrivial=not ctx.replay)
