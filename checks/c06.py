from checks import e2e_common


def run(ctx):
    e2e_common.run_property(ctx, "C06")
