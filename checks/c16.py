"""C16 - graceful shutdown drains in-flight requests and stops accepting new ones.

Runtime monitoring of the real `pavex::server::Server` by the harness `harness/shutdown` (bin `shutdown`):
servers with 1/2/4 workers on 127.0.0.1:0, a handler steered per request by a header (instant, async sleep,
blocking sleep that stalls the single-threaded worker, 3 s async sleep), 1-40 blocking loopback clients per run
opened in phases around a seeded `ServerHandle::shutdown(Graceful{timeout} | Forced)`, seeded stalls at the
`pavex_verif` delay points, and one totally ordered log of acceptor / worker / handler / client events
(`pavex::server::verif`, harness/shutdown/hooks.patch). The verdicts are taken on the order of logged events.
"""
from lib import vlib

RULE = (
    "One run = one server (workers in {1,2,4}; 1 or 2 listeners), mode Graceful{300-700 ms} (72%) or Forced, shutdown called 160-340 ms "
    "after start; 1-40 connections with seeded roles: blocker (std::thread::sleep 60-200 ms, graceful; 300-500 ms, forced, "
    "running when the call is made; in 10% of the graceful runs instead one 'stuck worker' blocker of 3 x timeout + 600-800 ms "
    "with timeout 300/400 ms, so that the coordinator has to give up on a worker; in 14% of the graceful runs a 'drain probe': "
    "one request in its handler for 300-600 ms, timeout 1200/1500 ms, and a connect() every 20-50 ms from the call until "
    "after the handler is done), queued / queued_preconnected (request fully written while the worker is stalled "
    "or a few ms before the call), inflight_short (async sleep <= timeout/3 running at the call), inflight_long (3 s), "
    "idle keep-alive, silent (no request), finished (Connection: close), second request of a keep-alive connection "
    "in flight, keep-alive race (second request written around the call), half-written request, connect during "
    "shutdown, 1-3 connects after the shutdown future resolved; in 65% of the runs 1-3 seeded stalls (<= 60 ms "
    "altogether) at: acceptor between 'listeners dropped' and 'workers told' (thread stall), worker before it polls "
    "its inboxes (thread stall, task sleep or yield), worker before it signals hyper_util's GracefulShutdown (thread "
    "stall). Every connection is labelled with its server-side state at the instant the acceptor took the shutdown "
    "command: not_accepted / dropped_all_workers_busy / no_request_yet / partial_request / dispatched_not_started / "
    "started / idle / finished. A run is non-trivial when at least one connection was dispatched_not_started or "
    "started at that instant; distinct = distinct (workers, mode, multiset of classes with counts capped at 3)."
)

ASSUMPTIONS = [
    "in 30% of the runs a second `shutdown(same mode)` is issued on a clone of the handle 5-60 ms after the first call; neither "
    "that future (unless its own timeout has elapsed) nor the awaited clone of the handle may resolve before the coordinator's "
    "`coordinator_end` event, i.e. while the drain is still going on (both are ordered after it in every run of the unchanged tree)",
    "the hook events (harness/shutdown/hooks.patch, `#[cfg(pavex_verif)]`, add-only) are logged where their names say; "
    "clients and the handler write to the same log, so 'before' means 'earlier in that one total order'",
    "'received before the call' = the client's write_all returned before the harness logged `shutdown_called`, on a "
    "connection the acceptor had dispatched before it took the command; connections still in the kernel backlog or "
    "in the acceptor's JoinSet at that instant are never asserted on; nor is a connection dropped because all "
    "worker inboxes were full",
    "'handler finishes within the timeout' is asserted only when (blocking sleeps routed to the same worker + "
    "injected stalls + the request's own sleep) <= 0.6 x timeout, and a cut request is inconclusive (not a "
    "violation) when the log shows that the worker's or the coordinator's timeout had elapsed before the client "
    "saw the connection end and before the handler was done",
    "requests written on an idle keep-alive connection around the call (HTTP/1.1 keep-alive race) and half-written "
    "requests are observed, not asserted",
    "a successful connect() after resolution is not a violation by itself (the listener is closed when the acceptor's "
    "runtime drops its aborted accept tasks); what is asserted is that such a connection never reaches a handler and "
    "that nothing is dispatched after the acceptor took the command",
    "while the drain is in progress (between the coordinator's `workers_told` and `coordinator_end` events, graceful mode) "
    "a connect() that starts >= 25 ms after `workers_told` must be refused (the sockets are closed when the acceptor first "
    "yields to its executor, 13-172 us after that event on the unchanged tree); a successful one is a violation only "
    "on a calm machine (heartbeat lag < 15 ms), else inconclusive; and every listener's `listener_closed` event must "
    "precede `coordinator_end` in graceful mode (deterministic on the unchanged tree: 2599/2599 runs). Each shard "
    "process binds its own loopback address 127.0.0.(2+shard), so a port re-used by another shard cannot be reached",
    "liveness is bounded: shutdown future / awaited handle clone not resolved 20 s after the timeout is a violation "
    "only if the log shows the coordinator or every worker had already finished and the load probe (5 ms heartbeat) "
    "saw < 100 ms lag; otherwise inconclusive",
    "the timeout branch of graceful resolution is checked with 3x padding (+250 ms) from the coordinator's "
    "`workers_told` event, and only on a calm machine (heartbeat lag < 100 ms)",
    "HTTP/1.1 only; one listener per server in 70% of the runs, two in 30% (connection i talks to listener i mod 2; the "
    "drain rule is judged on the last `listener_closed` event and only when every listener logged one; two connections of a "
    "run that got the same client port make the run inconclusive, since the log identifies connections by client port)",
]


def run(ctx):
    bindir = vlib.build_harness("shutdown")
    if ctx.quick:
        shards, runs, budget, timeout = 8, 10, 45, 150
    else:
        shards, runs, budget, timeout = 12, 300, 560, 1500
    args = ["--seed", ctx.seed, "--tier", ctx.tier, "--shards", shards, "--runs", runs, "--budget-s", budget]
    if ctx.replay:
        args += ["--replay", ctx.replay]
    summaries = vlib.run_harness_bin(ctx, bindir, "shutdown", args, timeout=timeout)
    maxima = {}
    for s in summaries:
        for k, v in (s.pop("maxima", None) or {}).items():
            maxima[k] = max(maxima.get(k, 0), v)
    cov = vlib.merge_summaries(summaries)
    cov.update(maxima)
    cov["rule"] = RULE
    cov["runs"] = cov.get("evaluations", 0)
    cov["interleaving_classes_by_workers"] = cov.pop("classes_by_workers", {})
    # a run without a dispatched-not-started or started connection does not count as non-trivial
    if cov.get("runs_nontrivial", 0) == 0:
        cov["distinct_nontrivial"] = 0
    ctx.finish(cov, ASSUMPTIONS, require_nontrivial=not ctx.replay)
