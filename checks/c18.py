"""C18 - Configuration sources merge with the documented precedence.

Runtime monitoring of the real `pavex::config::ConfigLoader::load` (harness/cfgload): one subprocess per
case, because the environment and the current directory are process-global. This wrapper is the
workload generator *and* the oracle:

  * it writes `base.yml` / `<profile>.yml` into a fresh directory tree under build/c18-tmp/,
  * builds the child's environment from scratch (only `PX_*` variables of the case + decoys),
  * runs `cfgload --variant V [--dir D] [--profile P]` with a chosen cwd,
  * compares the printed value with   value(key) = env > profile file > base file.

Only what the rustdoc of `ConfigLoader` / `ConfigProfile` promises is asserted:
  - precedence env > profile > base for every key (docs of `load`);
  - `PX_PROFILE` selects the profile unless `.profile()` was called, and is not a key
    (`deny_unknown_fields` variant must still load);
  - no selectable profile (unset / not a variant)  => Err;
  - required key defined nowhere => Err;   optional keys get their serde default;
  - relative directories: first hit walking up from cwd, "stopping at the first hit"
    (docs of `configuration_dir`), default `configuration/`.
  - a profile *file* that does not exist: the docs are silent => only "no panic, and if it loads the
    values follow env > base" is asserted.
"""
import hashlib
import json
import os
import shutil
import subprocess
from concurrent.futures import ThreadPoolExecutor

from lib import vlib

PROFILES = ["dev", "prod", "staging_eu"]
# names of the harness's hand-written `ConfigProfile` implementation (kept in sync with cfgload's FREE_PROFILES)
FREE_PROFILES = ["prod.eu", "prod.us", "v1.2", "my-profile", "Stage_2", "a.b.c"]

# key path, type, optional-in-lenient default (as it appears in the JSON output)
KEYS = [
    ("top", "str"),
    ("workers", "u32"),
    ("server.port", "u16"),
    ("server.host", "str"),
    ("server.tls.cert", "str"),
    ("db.name", "str"),
    ("db.pool_size", "i64"),
    ("db.timeout_ms", "u64"),
    # keys whose names start like `PX_PROFILE`, the variable that selects the profile and is not a key: ordinary keys
    ("profile_dir", "str"),
    ("profiler.rate", "u32"),
    # list-valued keys: defined in the *files* only (never in the environment). A list is a value like any
    # other: the highest-precedence source that defines the key provides the whole list, element for element.
    ("tags", "list_str"),
    ("server.allowed_origins", "list_str"),
]
KEY_TYPE = dict(KEYS)
LIST_KEYS = [k for k, t in KEYS if t.startswith("list")]
LENIENT_OPTIONAL = {"top": None, "workers": 424242, "server.host": None, "server.tls.cert": None,
                    "db.pool_size": None, "tags": [], "server.allowed_origins": None}
SRC = ["env", "profile", "base"]  # precedence order, strongest first
VARIANTS = ["strict", "plain", "lenient"]

DIR_MODES_NORMAL = ["abs", "rel_cwd", "rel_parent", "rel_grandparent", "rel_nested", "default_cwd",
                    "default_parent", "rel_shadowing_complete"]
DIR_MODES_SPLIT = ["split_profile_above", "split_base_above"]
PROFILE_MODES_OK = ["env", "explicit", "explicit_over_env", "explicit_over_garbage"]
PROFILE_MODES_ERR = ["none", "unknown_env"]


class Rng:
    """SplitMix64: all randomness derives from the seed."""

    def __init__(self, seed):
        self.s = seed & 0xFFFFFFFFFFFFFFFF

    def next(self):
        self.s = (self.s + 0x9E3779B97F4A7C15) & 0xFFFFFFFFFFFFFFFF
        z = self.s
        z = ((z ^ (z >> 30)) * 0xBF58476D1CE4E5B9) & 0xFFFFFFFFFFFFFFFF
        z = ((z ^ (z >> 27)) * 0x94D049BB133111EB) & 0xFFFFFFFFFFFFFFFF
        return z ^ (z >> 31)

    def below(self, n):
        return self.next() % n

    def pick(self, xs):
        return xs[self.below(len(xs))]

    def chance(self, num, den):
        return self.below(den) < num


ALNUM = "abcdefghijklmnopqrstuvwxyz0123456789"


def gen_value(rng, typ, src_tag, used, length=None):
    """A plain token / integer, distinct from every other value in the case. Strings start with the
    source letter followed by 'x' so they can never be read as a number / bool / float by figment or YAML.
    Lists have 0..3 such tokens (all elements distinct from every other token of the case)."""
    if typ == "list_str":
        n = rng.below(4) if length is None else length
        return [gen_value(rng, "str", src_tag, used) for _ in range(n)]
    while True:
        if typ == "str":
            n = 3 + rng.below(6)
            v = src_tag + "x" + "".join(ALNUM[rng.below(len(ALNUM))] for _ in range(n))
        elif typ == "u16":
            v = 1 + rng.below(65535)
        elif typ == "u32":
            v = rng.below(1 << 32) if rng.chance(1, 4) else rng.below(100000)
        elif typ == "i64":
            v = rng.below(1 << 40) - (1 << 39) if rng.chance(1, 2) else rng.below(2000) - 1000
        elif typ == "u64":
            v = rng.below(1 << 40) if rng.chance(1, 2) else rng.below(100000)
        else:
            raise AssertionError(typ)
        if v not in used and v != 424242:
            used.add(v)
            return v


def set_path(d, path, v):
    parts = path.split(".")
    for p in parts[:-1]:
        d = d.setdefault(p, {})
    d[parts[-1]] = v


def get_path(d, path):
    for p in path.split("."):
        if not isinstance(d, dict) or p not in d:
            return ("absent",)
        d = d[p]
    return ("v", d)


def to_yaml(d, indent=0, block_lists=False):
    out = []
    for k, v in d.items():
        if isinstance(v, dict):
            out.append("%s%s:" % ("  " * indent, k))
            out.append(to_yaml(v, indent + 1, block_lists))
        elif isinstance(v, list):
            if block_lists and v:
                out.append("%s%s:" % ("  " * indent, k))
                out += ["%s- %s" % ("  " * (indent + 1), e) for e in v]
            else:
                out.append("%s%s: [%s]" % ("  " * indent, k, ", ".join(str(e) for e in v)))
        else:
            out.append("%s%s: %s" % ("  " * indent, k, v))
    return "\n".join(out)


def env_name(key):
    return "PX_" + key.upper().replace(".", "__")


# ------------------------------------------------------------------------------------------ cases

def make_case(rng, idx, variant, assign, profile_mode, dir_mode, exhaustive=False, list_lens=None):
    """assign: {key: frozenset of sources}. list_lens: optional {key: {source: length}} for list keys."""
    used = set()
    vals = {}
    for k, typ in KEYS:
        srcs = [s for s in SRC if s in assign.get(k, ())]
        if typ.startswith("list"):
            srcs = [s for s in srcs if s != "env"]  # lists live in the files only
        vals[k] = {s: gen_value(rng, typ, s[0], used, (list_lens or {}).get(k, {}).get(s)) for s in srcs}
    # one case in three uses the hand-written profile type, whose names the derive macro cannot produce
    family = FREE_PROFILES if rng.chance(1, 3) else PROFILES
    profile = rng.pick(family)
    other = rng.pick([p for p in family if p != profile])
    if dir_mode == "rel_shadowing_complete" and not all(any(s in assign.get(k, ()) for k, _ in KEYS) for s in ("profile", "base")):
        # the first-hit directory would lack a file: that is the `split_*` class, keep the classes apart
        dir_mode = "rel_parent"
    case = {"idx": idx, "variant": variant, "assign": {k: sorted(vals[k]) for k, _ in KEYS},
            "vals": vals, "block_lists": bool(rng.chance(1, 2)), "profile": profile, "profile_type": "free" if family is FREE_PROFILES else "derived", "profile_mode": profile_mode, "dir_mode": dir_mode,
            "exhaustive": exhaustive}
    # decoy values: what the *other* profile's file / a shadowed directory would provide
    decoy = {}
    for k, typ in KEYS:
        if rng.chance(2, 3):
            # (decoy lists are never empty: an empty list would be indistinguishable from a legitimate one)
            decoy[k] = gen_value(rng, typ, "z", used, 1 + rng.below(3) if typ.startswith("list") else None)
    case["decoy"] = decoy
    case["other_profile"] = other
    case["unknown_profile"] = rng.pick(["nope", "development", "staging", "stagingeu", "pro", "devx", ""])
    # variables that are *not* `PX_`-prefixed (own value pool, so a leak is attributable)
    noise = {}
    if rng.chance(1, 2):
        for k, typ in KEYS:
            if rng.chance(1, 2) and not typ.startswith("list"):
                noise[k] = gen_value(rng, typ, "n", used)
    case["noise"] = noise
    return case


def materialise(case, root):
    """Create the directory tree for the case. Returns (argv_tail, env, cwd)."""
    os.makedirs(root)
    base, prof = {}, {}
    env = {}
    for k, _ in KEYS:
        v = case["vals"][k]
        if "base" in v:
            set_path(base, k, v["base"])
        if "profile" in v:
            set_path(prof, k, v["profile"])
        if "env" in v:
            env[env_name(k)] = str(v["env"])
    decoy_tree = {}
    for k, v in case["decoy"].items():
        set_path(decoy_tree, k, v)
    profile = case["profile"]
    pm, dm = case["profile_mode"], case["dir_mode"]

    def write_dir(d, base_tree, prof_tree, extra=None):
        os.makedirs(d, exist_ok=True)
        if base_tree:
            with open(os.path.join(d, "base.yml"), "w") as f:
                f.write(to_yaml(base_tree, 0, case.get("block_lists", False)) + "\n")
        if prof_tree:
            with open(os.path.join(d, profile + ".yml"), "w") as f:
                f.write(to_yaml(prof_tree, 0, case.get("block_lists", False)) + "\n")
        for name, tree in (extra or {}).items():
            if tree:
                with open(os.path.join(d, name + ".yml"), "w") as f:
                    f.write(to_yaml(tree, 0, case.get("block_lists", False)) + "\n")

    extra = {}
    if pm == "explicit_over_env":
        # the file of the profile named by PX_PROFILE holds decoys: it must not be read
        extra[case["other_profile"]] = decoy_tree
    args = ["--variant", case["variant"]]
    dname = "cfg_" + hashlib.sha1(str(case["idx"]).encode()).hexdigest()[:6]
    if dm == "abs":
        d = os.path.join(root, "store", dname)
        write_dir(d, base, prof, extra)
        cwd = os.path.join(root, "elsewhere")
        args += ["--dir", d]
    elif dm == "rel_cwd":
        write_dir(os.path.join(root, dname), base, prof, extra)
        cwd = root
        args += ["--dir", dname]
    elif dm == "rel_parent":
        write_dir(os.path.join(root, dname), base, prof, extra)
        cwd = os.path.join(root, "x")
        args += ["--dir", dname]
    elif dm == "rel_grandparent":
        write_dir(os.path.join(root, dname), base, prof, extra)
        cwd = os.path.join(root, "x", "y", "z")
        args += ["--dir", dname]
    elif dm == "rel_nested":
        write_dir(os.path.join(root, "etc", dname), base, prof, extra)
        cwd = os.path.join(root, "x")
        args += ["--dir", os.path.join("etc", dname)]
    elif dm == "default_cwd":
        write_dir(os.path.join(root, "configuration"), base, prof, extra)
        cwd = root
    elif dm == "default_parent":
        write_dir(os.path.join(root, "configuration"), base, prof, extra)
        cwd = os.path.join(root, "x", "y")
    elif dm == "rel_shadowing_complete":
        # complete directory in cwd; an ancestor holds a same-named directory full of decoys
        cwd = os.path.join(root, "x")
        write_dir(os.path.join(cwd, dname), base, prof, extra)
        write_dir(os.path.join(root, dname), decoy_tree, decoy_tree)
        args += ["--dir", dname]
    elif dm == "split_profile_above":
        # first hit (cwd) has base.yml only; the ancestor's same-named directory has <profile>.yml (decoys)
        cwd = os.path.join(root, "x")
        write_dir(os.path.join(cwd, dname), base, None, extra)
        write_dir(os.path.join(root, dname), decoy_tree, decoy_tree)
        args += ["--dir", dname]
    elif dm == "split_base_above":
        cwd = os.path.join(root, "x")
        write_dir(os.path.join(cwd, dname), None, prof, extra)
        write_dir(os.path.join(root, dname), decoy_tree, decoy_tree)
        args += ["--dir", dname]
    else:
        raise AssertionError(dm)
    os.makedirs(cwd, exist_ok=True)

    if case.get("profile_type") == "free":
        args += ["--profile-type", "free"]
    if pm == "env":
        env["PX_PROFILE"] = profile
    elif pm == "explicit":
        args += ["--profile", profile]
    elif pm == "explicit_over_env":
        args += ["--profile", profile]
        env["PX_PROFILE"] = case["other_profile"]
    elif pm == "explicit_over_garbage":
        args += ["--profile", profile]
        env["PX_PROFILE"] = "zzz-not-a-profile"
    elif pm == "none":
        pass
    elif pm == "unknown_env":
        env["PX_PROFILE"] = case["unknown_profile"]
    else:
        raise AssertionError(pm)
    if case["idx"] % 2 == 1:
        # `.profile(..)` before `.configuration_dir(..)`: the builder calls commute
        env["CFGLOAD_PROFILE_FIRST"] = "1"
    if case["noise"]:
        # variables that are *not* `PX_`-prefixed must not count as configuration
        for k, v in case["noise"].items():
            bare = k.upper().replace(".", "__")
            env[bare] = str(v)
            env["XPX_" + bare] = str(v)
            env["APP_" + bare] = str(v)
    return args, env, cwd


def effective_sources(case):
    """Which sources exist *as documented* for this case: the profile/base file of the first-hit dir."""
    dm = case["dir_mode"]
    srcs = list(SRC)
    if dm == "split_profile_above":
        srcs.remove("profile")
    if dm == "split_base_above":
        srcs.remove("base")
    return srcs


def expected_value(case):
    """Returns ("err", reason) or ("ok", tree, decisions)."""
    srcs = effective_sources(case)
    tree = {}
    decisions = []
    missing_required = []
    for k, _ in KEYS:
        have = [s for s in srcs if s in case["vals"][k]]
        if have:
            set_path(tree, k, case["vals"][k][have[0]])
            if len(have) > 1:
                decisions.append((k, have[0], tuple(have[1:])))
        else:
            if case["variant"] == "lenient" and k in LENIENT_OPTIONAL:
                set_path(tree, k, LENIENT_OPTIONAL[k])
            else:
                missing_required.append(k)
    if missing_required:
        return ("err", missing_required)
    return ("ok", tree, decisions)


def file_missing_class(case):
    """Cases where a file of the documented directory does not exist: docs are silent on the outcome."""
    srcs = effective_sources(case)
    miss = []
    for s in ("profile", "base"):
        if s not in srcs or not any(s in case["vals"][k] for k, _ in KEYS):
            miss.append(s)
    return miss


def origin_of(case, key, got):
    if key in LIST_KEYS and isinstance(got, list):
        v = case["vals"][key]
        b, p = v.get("base"), v.get("profile")
        if b and p:  # both non-empty: a merge of the two is distinguishable from either
            if got == b + p:
                return "concatenation_of_base_and_profile"
            if got == p + b:
                return "concatenation_of_profile_and_base"
            if got and set(got) <= set(b) | set(p) and not (set(got) <= set(b) or set(got) <= set(p)):
                return "mix_of_base_and_profile"
    for s in SRC:
        if s in case["vals"][key] and case["vals"][key][s] == got:
            return s
    if key in case["decoy"] and case["decoy"][key] == got:
        return "decoy_file"
    if key in case["noise"] and case["noise"][key] == got:
        return "unprefixed_env"
    if case["variant"] == "lenient" and key in LENIENT_OPTIONAL and got == LENIENT_OPTIONAL[key]:
        return "default"
    return "other"


def judge(case, out):
    """Returns (violations[list of (sig, detail)], observation dict)."""
    obs = {"outcome": None}
    viol = []
    pm = case["profile_mode"]
    subset_of = lambda k: "+".join(s for s in SRC if s in case["vals"][k]) or "nowhere"
    if out.get("harness_error"):
        return None, obs
    res = out["result"]
    detail = {"case": case, "argv": out["argv"], "env": out["env"], "cwd": out["cwd"], "observed": res}
    if "panic" in res:
        obs["outcome"] = "panic"
        viol.append(({"kind": "panic", "message": str(res["panic"])[:80]}, detail))
        return viol, obs
    is_ok = "ok" in res
    obs["outcome"] = "ok" if is_ok else "err"
    if pm in PROFILE_MODES_ERR:
        if is_ok:
            viol.append(({"kind": "loaded_without_selectable_profile", "profile_mode": pm,
                          "px_profile": out["env"].get("PX_PROFILE")}, detail))
        return viol, obs
    exp = expected_value(case)
    missing_files = file_missing_class(case)
    split = case["dir_mode"] in DIR_MODES_SPLIT
    if is_ok and case["dir_mode"] in DIR_MODES_SPLIT + ["rel_shadowing_complete"]:
        # `configuration_dir` rustdoc: the relative directory is looked up walking towards the root,
        # "stopping at the first hit". Values that only exist in the same-named directory of an
        # ancestor (decoys) must therefore never surface. One violation per case, keyed on the layout.
        leaked = [k for k, _ in KEYS
                  if k in case["decoy"] and get_path(res["ok"], k) == ("v", case["decoy"][k])]
        if leaked:
            if split:
                # Adjudicated by the lead: C18 states the precedence law (env > profile > base); which directory a
                # *relative* configuration_dir resolves to when base.yml and <profile>.yml live in different
                # ancestors is a documentation mismatch of `configuration_dir` (figment resolves each file on its
                # own), not a precedence violation. Recorded as an observation, never as a verdict.
                obs["split_directory_value_from_other_directory"] = case["dir_mode"]
                return viol, obs
            viol.append(({"kind": "value_from_other_directory", "dir_mode": case["dir_mode"]},
                         dict(detail, leaked_keys=leaked)))
            return viol, obs
    if exp[0] == "err":
        if is_ok:
            # which of the missing required keys got a value, and where from?
            for k in exp[1]:
                g = get_path(res["ok"], k)
                viol.append(({"kind": "missing_required_key_not_error", "key": k,
                              "value_origin": origin_of(case, k, g[1]) if g[0] == "v" else "absent",
                              "dir_class": "split" if split else "normal"}, detail))
        return viol, obs
    _, tree, decisions = exp
    if not is_ok:
        if missing_files:
            obs["missing_file_err"] = missing_files
            return viol, obs  # docs do not promise anything for a missing file
        msg = res.get("error", "")
        cause = "unknown_field" if "unknown field" in msg else ("missing_field" if "missing field" in msg else "other")
        viol.append(({"kind": "unexpected_error", "cause": cause, "variant": case["variant"]}, detail))
        return viol, obs
    if missing_files:
        obs["missing_file_ok"] = missing_files
    got = res["ok"]
    if got == tree:
        obs["decisions"] = decisions
        return viol, obs
    # find the offending keys
    for k, _ in KEYS:
        e = get_path(tree, k)
        g = get_path(got, k)
        if e != g:
            org = origin_of(case, k, g[1]) if g[0] == "v" else "absent"
            sig = {"kind": "wrong_value", "key": k, "defined_in": subset_of(k), "got_from": org,
                   "dir_class": "split" if split else "normal"}
            if org == "decoy_file":
                sig["profile_mode"] = pm
            viol.append((sig, dict(detail, key=k, expected=e[1] if e[0] == "v" else None,
                                   got=g[1] if g[0] == "v" else None)))
    if not viol:
        viol.append(({"kind": "wrong_shape", "variant": case["variant"]}, dict(detail, expected=tree)))
    return viol, obs


def run_case(binpath, tmproot, case):
    root = os.path.join(tmproot, "case%06d" % case["idx"])
    try:
        args, env, cwd = materialise(case, root)
        argv = [binpath] + args
        try:
            p = subprocess.run(argv, cwd=cwd, env=env, stdout=subprocess.PIPE, stderr=subprocess.PIPE, timeout=60)
        except subprocess.TimeoutExpired:
            return {"harness_error": "timeout", "argv": argv}
        line = p.stdout.decode("utf-8", "replace").strip()
        try:
            res = json.loads(line)
        except Exception:
            return {"harness_error": "rc=%s stdout=%r stderr=%r" % (p.returncode, line[:300], p.stderr[-300:])}
        return {"result": res, "argv": args, "env": env, "cwd": os.path.relpath(cwd, root)}
    finally:
        shutil.rmtree(root, ignore_errors=True)


def all_subsets():
    res = []
    for m in range(8):
        res.append(frozenset(s for i, s in enumerate(SRC) if m & (1 << i)))
    return res


def generate_cases(seed, tier):
    rng = Rng(seed * 0x1000193 + 18)
    cases = []
    subsets = all_subsets()
    normal_dm = DIR_MODES_NORMAL
    # (1) exhaustive: 3 keys (one per nesting shape) x 8 subsets each, jointly = 512 assignments.
    ex_keys = ["top", "server.port", "db.pool_size"]
    i = 0
    for a in subsets:
        for b in subsets:
            for c in subsets:
                assign = {"tags": frozenset(["base"]), "server.allowed_origins": frozenset(["profile", "base"]),
                          "top": a, "server.port": b, "db.pool_size": c,
                          # fillers keep both files non-empty and the required keys defined
                          "db.name": frozenset(["base"]), "db.timeout_ms": frozenset(["profile", "base"]),
                          "workers": frozenset(["base"]), "server.host": frozenset(["profile"]),
                          "server.tls.cert": frozenset(["base", "env"])}
                variant = VARIANTS[i % 3]
                pm = PROFILE_MODES_OK[(i // 3) % 4]
                dm = normal_dm[(i // 12) % len(normal_dm)]
                cases.append(make_case(rng, len(cases), variant, assign, pm, dm, exhaustive=True))
                i += 1
    n_ex = len(cases)
    # (2) every single key x 8 subsets with the other keys in base only (24+ small cases, all variants)
    for k, typ in KEYS:
        for s in subsets:
            if typ.startswith("list") and "env" in s:
                continue
            assign = {kk: frozenset(["base"]) for kk, _ in KEYS}
            assign["db.timeout_ms"] = frozenset(["base", "profile"])
            assign[k] = s
            cases.append(make_case(rng, len(cases), rng.pick(VARIANTS), assign, rng.pick(PROFILE_MODES_OK),
                                   rng.pick(normal_dm), exhaustive=True))
    # (2b) list-valued keys, exhaustively: each list key x every subset of {profile, base} x every pair of
    # lengths 0..3 (so: empty profile list over a non-empty base list, and vice versa), with and without
    # environment overrides of *other* keys present.
    n_list_ex = 0
    file_subsets = [frozenset(), frozenset(["base"]), frozenset(["profile"]), frozenset(["profile", "base"])]
    for k in LIST_KEYS:
        for fs in file_subsets:
            for lp in (range(4) if "profile" in fs else [None]):
                for lb in (range(4) if "base" in fs else [None]):
                    for with_env in (False, True):
                        assign = {kk: frozenset(["base"]) for kk, _ in KEYS}
                        assign["db.timeout_ms"] = frozenset(["base", "profile"])
                        if with_env:
                            assign["top"] = frozenset(["env", "base"])
                            assign["server.port"] = frozenset(["env", "profile", "base"])
                            assign["server.host"] = frozenset(["env"])
                        assign[k] = fs
                        variant = VARIANTS[n_list_ex % 3]
                        cases.append(make_case(rng, len(cases), variant, assign, PROFILE_MODES_OK[(n_list_ex // 3) % 4],
                                               normal_dm[(n_list_ex // 12) % len(normal_dm)], exhaustive=True,
                                               list_lens={k: {"profile": lp, "base": lb}}))
                        n_list_ex += 1
    # (3) random: all keys, random subsets, all modes incl. error modes and split directories
    n_random = 150 if tier == "quick" else 40000
    for _ in range(n_random):
        assign = {}
        style = rng.below(4)
        for k, _ in KEYS:
            if style == 0:
                assign[k] = rng.pick(subsets)
            elif style == 1:  # dense: most keys in 2-3 sources
                assign[k] = rng.pick([s for s in subsets if len(s) >= 2])
            elif style == 2:  # every key somewhere
                assign[k] = rng.pick([s for s in subsets if len(s) >= 1])
            else:  # sparse
                assign[k] = rng.pick([s for s in subsets if len(s) <= 1])
        r = rng.below(20)
        if r < 2:
            pm = rng.pick(PROFILE_MODES_ERR)
        else:
            pm = rng.pick(PROFILE_MODES_OK)
        r = rng.below(20)
        dm = rng.pick(DIR_MODES_SPLIT) if r < 2 else rng.pick(normal_dm)
        cases.append(make_case(rng, len(cases), rng.pick(VARIANTS), assign, pm, dm))
    return cases, n_ex


def case_key(case):
    a = ";".join("%s=%s" % (k, "+".join(case["assign"].get(k, []))) for k, _ in KEYS)
    return hashlib.sha256(("%s|%s|%s|%s" % (case["variant"], a, case["profile_mode"], case["dir_mode"])).encode()).hexdigest()[:16]


def run(ctx):
    if os.environ.get("C18_BIN"):  # mutation sanity only: a loader built against a scratch checkout
        binpath = os.environ["C18_BIN"]
    else:
        bindir = vlib.build_harness("cfgload")
        binpath = os.path.join(bindir, "cfgload")
    tmproot = os.path.join(vlib.BUILD, "c18-tmp", "run-%d-%d" % (os.getpid(), ctx.seed))
    # the walk towards `/` must not meet a stray directory with one of our names
    p = tmproot
    while p != "/":
        p = os.path.dirname(p)
        if os.path.exists(os.path.join(p, "configuration")):
            raise vlib.HarnessError("stray `configuration` directory at %s would pollute the default-dir cases" % p)
    shutil.rmtree(tmproot, ignore_errors=True)
    os.makedirs(tmproot)
    try:
        if ctx.replay:
            rep = json.load(open(ctx.replay))
            cases, n_ex = [rep["detail"]["case"]], 0
        else:
            cases, n_ex = generate_cases(ctx.seed, ctx.tier)
        with ThreadPoolExecutor(max_workers=12) as ex:
            outs = list(ex.map(lambda c: run_case(binpath, tmproot, c), cases))
    finally:
        shutil.rmtree(tmproot, ignore_errors=True)
        try:
            os.rmdir(os.path.dirname(tmproot))
        except OSError:
            pass

    counters = {"ok": 0, "err": 0, "panic": 0}
    by_variant, by_pm, by_dm = {}, {}, {}
    subset_seen = {}
    decisions = {"env>profile": 0, "env>base": 0, "profile>base": 0}
    list_decisions = {}
    missing_file = {"profile_ok": 0, "profile_err": 0, "base_ok": 0, "base_err": 0}
    expected_err = {"no_profile": 0, "unknown_profile": 0, "missing_required_key": 0}
    deny_unknown_with_px_profile_ok = 0
    distinct = set()
    samples = []
    evaluations = 0
    viol_by_sig = {}
    for case, out in zip(cases, outs):
        if out.get("harness_error"):
            ctx.inconc("loader subprocess did not produce a JSON line", {"case": case["idx"], "why": out["harness_error"]})
            continue
        viol, obs = judge(case, out)
        evaluations += 1
        counters[obs["outcome"]] = counters.get(obs["outcome"], 0) + 1
        by_variant[case["variant"]] = by_variant.get(case["variant"], 0) + 1
        by_pm[case["profile_mode"]] = by_pm.get(case["profile_mode"], 0) + 1
        by_dm[case["dir_mode"]] = by_dm.get(case["dir_mode"], 0) + 1
        for k, _ in KEYS:
            name = "+".join(s for s in SRC if s in case["vals"][k]) or "nowhere"
            subset_seen[name] = subset_seen.get(name, 0) + 1
        for (k, winner, losers) in obs.get("decisions", []):
            for l in losers:
                decisions["%s>%s" % (winner, l)] += 1
            if k in LIST_KEYS:  # a list defined in both files came back as exactly the profile's list
                lp, lb = len(case["vals"][k]["profile"]), len(case["vals"][k]["base"])
                cls = "profile_len%d_over_base_len%d" % (lp, lb)
                list_decisions[cls] = list_decisions.get(cls, 0) + 1
        for s in obs.get("missing_file_ok", []):
            missing_file[s + "_ok"] += 1
        for s in obs.get("missing_file_err", []):
            missing_file[s + "_err"] += 1
        pm = case["profile_mode"]
        if pm == "none":
            expected_err["no_profile"] += 1
        elif pm == "unknown_env":
            expected_err["unknown_profile"] += 1
        elif expected_value(case)[0] == "err":
            expected_err["missing_required_key"] += 1
        if case["variant"] == "strict" and "PX_PROFILE" in out["env"] and obs["outcome"] == "ok":
            deny_unknown_with_px_profile_ok += 1
        nontrivial = bool(obs.get("decisions")) or pm in PROFILE_MODES_ERR or expected_value(case)[0] == "err"
        if nontrivial:
            distinct.add(case_key(case))
        if len(samples) < 6 and nontrivial and case["idx"] % 97 in (0, 5, 31):
            samples.append({"variant": case["variant"], "profile_mode": pm, "dir_mode": case["dir_mode"],
                            "assign": case["assign"], "env": out["env"], "argv": out["argv"], "cwd": out["cwd"],
                            "observed": out["result"]})
        for sig, detail in viol or []:
            sk = json.dumps(sig, sort_keys=True)
            viol_by_sig[sk] = viol_by_sig.get(sk, 0) + 1
            if viol_by_sig[sk] == 1:  # one witness per signature is recorded, the rest is counted
                ctx.violation(sig, detail)

    coverage = {
        "evaluations": evaluations,
        "distinct_nontrivial": len(distinct),
        "rule": "one `cfgload` subprocess per case; a case assigns each of the 8 scalar keys (3 nesting depths, 5 types) to a "
                "subset of {env, profile file, base file} and each of the 2 list-valued keys (top-level `tags`, nested "
                "`server.allowed_origins`, 0..3 elements, flow or block YAML) to a subset of {profile file, base file}, "
                "with pairwise distinct tokens, picks a struct variant "
                "(deny_unknown_fields / plain / optional+defaults), a profile selection mode and a directory mode; "
                "non-trivial = at least one key is defined by >= 2 sources (a precedence decision is observed) or the "
                "documented outcome is an error; distinct = (variant, per-key subsets, profile mode, dir mode)",
        "exhaustive": {"keys": ["top", "server.port", "db.pool_size"], "subsets_per_key": 8,
                       "joint_assignments": n_ex, "complete": n_ex == 512,
                       "single_key_x_subset_cases": 8 * (len(KEYS) - len(LIST_KEYS)) + 4 * len(LIST_KEYS),
                       "list_keys": LIST_KEYS,
                       "list_key_x_file_subset_x_lengths_0_3_x_env_overrides_cases": 2 * 25 * len(LIST_KEYS)},
        "outcomes": counters,
        "precedence_decisions_observed": decisions,
        "list_precedence_decisions_observed": list_decisions,
        "subset_occurrences": subset_seen,
        "by_variant": by_variant, "by_profile_mode": by_pm, "by_dir_mode": by_dm,
        "expected_error_cases": expected_err,
        "deny_unknown_fields_loaded_with_PX_PROFILE_set": deny_unknown_with_px_profile_ok,
        "missing_file_outcomes_not_asserted": missing_file,
        "violating_cases_by_sig": viol_by_sig,
        "samples": samples,
    }
    ctx.finish(coverage, assumptions=[
        "the oracle is the documented rule only: value(key) = first of env, profile file, base file that defines it; "
        "a list is one value (the winning source's list, element for element), never a concatenation or union",
        "values are plain alphanumeric tokens / integers, so figment's env value syntax and YAML scalar typing are not under test",
        "the child's environment is built from scratch (no inherited PX_* variables)",
        "a non-existent profile/base *file* is not an error per the rustdoc (silent): only 'no panic; if it loads, "
        "values follow the remaining sources' is asserted for those cases",
        "relative directory resolution follows the rustdoc of `configuration_dir`: first hit walking up from cwd",
    ])
