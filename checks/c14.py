"""C14 - A buffered request body never exceeds the configured size limit.

Runtime monitoring of the real `BufferedBody` extractor (and `JsonBody` / `UrlEncodedBody` on top):
  (i)  hooked, in-process: scripted frame sequences into `verif_extract_with_limit`
       (= the private generic `_extract_with_limit`), harness `bodyx/bodylimit --mode hook`;
  (ii) un-hooked: public `BufferedBody::extract` called by a handler served by the real
       `pavex::server::Server` over loopback, raw TCP client controlling framing, `--mode net`.
"""
import concurrent.futures as cf

from lib import vlib

ASSUMPTIONS = [
    "thorough tier only: 8 shards of the hooked random workload are also executed inside the Miri interpreter (same "
    "oracle); an undefined-behaviour report with a frame in /repo is a violation, one entirely inside third-party crates "
    "or std is recorded as inconclusive; Miri cases are not added to `evaluations`",
    "the test Body hands out exactly the scripted frames (its byte/poll counters are part of the evidence)",
    "the oracle's reading of the Content-Length text: plain decimal digits are a number; a leading '+', list "
    "syntax, surrounding blanks, values that do not fit a machine word and disagreeing duplicates are "
    "'ambiguous' (either outcome accepted); any other text claims nothing",
    "a size-limit error when neither the bytes sent nor the header exceed the limit is counted as a violation "
    "(sig kind 'spurious_size_limit_error'): the guide defines the error as 'the limit is exceeded' and the "
    "property lists Ok(body <= N) as the outcome for such bodies",
    "networked part: what the client 'sent' is the body as delimited by HTTP/1.1 framing (hyper decides "
    "that before pavex code runs); requests that hyper itself answers with 400 never reach the extractor "
    "and are only counted; the Content-Length values used by the oracle are the ones the handler echoes back",
    "FNV-1a 64 of the body stands for byte identity over TCP (in-process the bytes are compared directly)",
]

RULE = ("hook: every split of every body of 0..2N+2 bytes into 1..4 frames (empty frames included) for "
        "N in {0,1,2,7}, crossed with every Content-Length variant (absent, truthful, too small, too large, ==N, N+1, "
        "usize::MAX, overflow, negative, text, duplicated...), plus seeded random scripts (1..48 frames, cuts biased to "
        "N-1/N/N+1, trailers, transport error, Poll::Pending, lying size_hint / is_end_stream) for N in "
        "{0,1,2,7,64,255,256,257,1000,4096, random <=5000, default 2 MB}; net: seeded requests with Content-Length or "
        "chunked framing against pavex::server::Server, plus HTTP/2 requests (prior knowledge; hyper client) whose DATA frames are "
        "cut by the client, with and without a content-length header (a body needs none over HTTP/2). A case is non-trivial when it has at least one byte, a "
        "header, or a non-data step; distinct = distinct (limit, frame-size sequence, header class, payload kind, outcome).")


def _merge(summaries):
    maxima = {}
    for s in summaries:
        for k, v in (s.pop("maxima", None) or {}).items():
            maxima[k] = max(maxima.get(k, 0), v)
        s.pop("elapsed_s", None)
        s.pop("shard", None)
        s.pop("workload", None)
    cov = vlib.merge_summaries(summaries)
    cov["maxima"] = maxima
    return cov


def _dedup_violations(ctx):
    """Shards report the same signature independently: keep one witness per signature and add up
    the occurrence counts (vlib records every `violation` line of every process)."""
    import json
    for attr in ("violations",):
        seen = {}
        for v in getattr(ctx, attr):
            k = json.dumps(v["sig"], sort_keys=True)
            if k in seen:
                d, e = seen[k]["detail"], v.get("detail")
                if isinstance(d, dict) and isinstance(e, dict):
                    d["occurrences"] = d.get("occurrences", 0) + e.get("occurrences", 0)
                    d["processes_reporting"] = d.get("processes_reporting", 1) + 1
            else:
                seen[k] = v
        setattr(ctx, attr, list(seen.values()))
    seen = {}
    for e, v in ctx.known_hits:
        k = json.dumps(v["sig"], sort_keys=True)
        seen.setdefault(k, (e, v))
    ctx.known_hits = list(seen.values())


def _replay(ctx, bindir, binary):
    summaries = vlib.run_harness_bin(ctx, bindir, binary, ["--seed", ctx.seed, "--tier", ctx.tier,
                                                            "--replay", ctx.replay], 120)
    cov = vlib.merge_summaries(summaries)
    cov["rule"] = "replay of one recorded case: " + str(ctx.replay)
    ctx.finish(cov, ASSUMPTIONS, require_nontrivial=False)


def run(ctx):
    bindir = vlib.build_harness("bodyx")
    tier = "quick" if ctx.quick else "thorough"
    jobs = []
    if ctx.quick:
        jobs.append(["--seed", ctx.seed, "--tier", tier, "--mode", "hook", "--budget-s", 35])
        jobs.append(["--seed", ctx.seed, "--tier", tier, "--mode", "net", "--budget-s", 35])
        timeout, workers = 120, 2
    else:
        n_hook, n_net = 11, 3
        for i in range(n_hook):
            jobs.append(["--seed", ctx.seed, "--tier", tier, "--mode", "hook", "--budget-s", 450,
                         "--shard", "%d/%d" % (i, n_hook)])
        for i in range(n_net):
            jobs.append(["--seed", ctx.seed, "--tier", tier, "--mode", "net", "--budget-s", 450,
                         "--shard", "%d/%d" % (i, n_net)])
        timeout, workers = 900, n_hook + n_net
    if ctx.replay:
        # re-execute exactly the recorded (hooked) case
        _replay(ctx, bindir, "bodylimit")
        return
    summaries = []
    with cf.ThreadPoolExecutor(max_workers=workers) as ex:
        futs = [ex.submit(vlib.run_harness_bin, ctx, bindir, "bodylimit", a, timeout) for a in jobs]
        for f in futs:
            summaries += f.result()
    hook = [s for s in summaries if str(s.get("workload", "")).endswith("hook")]
    net = [s for s in summaries if str(s.get("workload", "")).endswith("net")]
    if not hook:
        raise vlib.HarnessError("bodylimit produced no summary for the hooked part")
    if not net:
        ctx.inconc("the networked part produced no summary", None)
    default_limit = hook[0].get("random", {}).get("default_limit_bytes")
    net_threads = net[0].get("net", {}).get("client_threads") if net else None
    miri = None
    if not ctx.quick:
        # sanitizer supplement: the hooked part (scripted frame sequences into the real `_extract_with_limit`) inside Miri
        n = 8
        sets = [["--seed", ctx.seed, "--tier", tier, "--mode", "hook", "--shard", "%d/%d" % (i + 1, n + 1), "--budget-s", 150]
                for i in range(n)]
        _, miri = vlib.run_under_miri(ctx, "bodyx", "bodylimit", sets, 1500, "C14 buffered body, hooked part",
                                      ["--seed", ctx.seed, "--tier", tier, "--mode", "hook", "--shard", "1/2", "--budget-s", 0.01])
    cov = _merge(summaries)
    if miri:
        cov["miri_supplement"] = miri
    cov.setdefault("random", {})["default_limit_bytes"] = default_limit
    if net_threads is not None:
        cov["net"].pop("client_threads", None)
        cov["net"]["client_threads_per_process"] = net_threads
    cov["rule"] = RULE
    cov["processes"] = len(jobs)
    cov["hooked_cases"] = sum(s.get("evaluations", 0) for s in hook)
    cov["networked_requests"] = sum(s.get("evaluations", 0) for s in net)
    by = cov.get("by_len_vs_limit", {})
    cov["boundary"] = {
        "len_eq_limit_accepted": by.get("at/ok", 0),
        "len_eq_limit_plus_1_rejected": by.get("limit_plus_1/size_limit_error", 0),
        "net_len_eq_limit_accepted": cov.get("net_by_len_vs_limit", {}).get("at/ok", 0),
        "net_len_eq_limit_plus_1_rejected": cov.get("net_by_len_vs_limit", {}).get("limit_plus_1/size_limit_error", 0),
    }
    _dedup_violations(ctx)
    ctx.finish(cov, ASSUMPTIONS)
