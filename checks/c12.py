"""C12 - session cookies are never emitted unprotected and never leak the id.

Same harness as C11 (`harness/sessions`, bin `sessions --mode c12`), varying the cookie `Processor` crypto
rules for the session cookie name and the session cookie configuration. The oracle looks at the return value of
`finalize_session`, at the `ResponseCookies` it leaves behind, at the `Set-Cookie` header produced by the real
`inject_response_cookies` + `Processor`, and at `format!("{:?}", session)` after every step.
"""
from lib import vlib

RULE = (
    "Crypto rules for the session cookie name {no rules, signing, encryption, rule for another name only, "
    "signing with an encryption fallback, encryption with a signing fallback, one rule listing several names "
    "(encrypt / sign), two rules naming the cookie (sign then encrypt / encrypt then sign), rule keyed on the "
    "percent-encoded spelling of the name} x cookie name {id, session, __Host-sid, 'my session', 's(1)'} are "
    "walked systematically (10 x 5 pairs, plus the encoded-name rule with the two names that need encoding: 52 pairs); the rest of the configuration is drawn at random per history: domain "
    "{none, example.com, app.example.org}, path {none, /, /app}, SameSite {unset, Strict, Lax, None}, Secure, "
    "HttpOnly, persistent/session cookie, TTL {90 s, 1 h, 400 d}, percent-encoding on (3/4) or off, and the four "
    "session-state policies. Histories: 1-3 requests x 0-8 operations (as in C11, without explicit sync) plus "
    "read-back requests, the last working request made to end with an empty client state / a non-empty client "
    "state / invalidate(). A history is non-trivial when a session cookie was emitted and checked, or a "
    "finalisation was refused and the refusal checked; distinct = distinct (full configuration, abstract path)."
)

ASSUMPTIONS = [
    "one history in nine starts with a session cookie it did not issue: the harness writes the wire value the way the session "
    "layer does ({\"0\": id, \"1\": client state}, fresh id, no server record) and lets the real processor of the configuration "
    "protect it - a plain cookie that any client can make when no rule covers the name, a signed one as a deployment that only "
    "signed would have issued. What the middleware must do with such a session is what C12 says for any session",
    "protection is decided on the wire, independently of `will_sign`/`will_encrypt`: the `Set-Cookie` value is "
    "'plain' if it equals the value built by the middleware (possibly percent-encoded), 'signed' if its base64url "
    "decoding is 32 bytes followed by that value, 'opaque' (encrypted) if neither holds, no textual form of the id "
    "(hyphenated/simple, lower/upper case) occurs in the value, its percent-decoding or its base64 decoding, and "
    "the real Processor turns it back into the value; anything else is inconclusive",
    "oracle: session cookie set => wire form is signed or opaque, and opaque whenever the cookie carries (or the "
    "model says there is) client-side state; a refusal (EncryptionRequired/CryptoRequired) => no cookie with the "
    "session name in ResponseCookies, and the refusal must be warranted by the configuration where the biscotti "
    "documentation is definite (primary algorithm protects outgoing cookies, fallbacks never do)",
    "a removal cookie for an invalidated session (explicit invalidate(), or a missing record under the reject "
    "policy) is not a session cookie carrying state: nothing is asserted about its protection, nor about "
    "Secure/HttpOnly/SameSite/Max-Age; but its name, Domain and Path must equal the configured ones, on the "
    "ResponseCookie and on the wire (a browser only removes the cookie with the same name/domain/path); a "
    "removal cookie = empty value in ResponseCookies + Expires in the past or Max-Age<=0 on the wire",
    "attributes: name, domain, path, SameSite, Secure, HttpOnly equal the configuration both on the ResponseCookie "
    "and on the wire; Max-Age = state TTL iff the kind is persistent, neither Max-Age nor Expires otherwise; a "
    "`Secure` attribute that biscotti adds on its own for SameSite=None is not counted as a mismatch",
    "Debug output: every `format!(\"{:?}\", session)` (after each operation and before finalisation) is searched "
    "for every id the history ever saw - ids from cookies and every id the store monitor logged, including the "
    "ids generated during the request, which are searched retroactively once they are known",
    "divergences that belong to C11 (state continuity) are ignored here (counted as c11_rule_hits_ignored_in_c12)",
]

DROP = ("abstract_states_at_finalize", "record_after_finalize", "sync_arms", "abstract_states_reached",
        "abstract_states_unreached", "configs_exhaustive", "model_loads", "missing_record_allowed",
        "invalidated_by_missing_record", "cycle_clauses_checked", "invalidate_clauses_checked")


def run(ctx):
    bindir = vlib.build_harness("sessions")
    if ctx.quick:
        args = ["--mode", "c12", "--seed", ctx.seed, "--tier", "quick", "--threads", 4, "--sqlite-threads", 0,
                "--histories", 55 * 3 * 300, "--budget-s", 40]
        timeout = 120
    else:
        args = ["--mode", "c12", "--seed", ctx.seed, "--tier", "thorough", "--threads", 14, "--sqlite-threads", 0,
                "--histories", 55 * 3 * 8000, "--budget-s", 450]
        timeout = 900
    if ctx.replay:
        args += ["--replay", ctx.replay]
    summaries = vlib.run_harness_bin(ctx, bindir, "sessions", args, timeout=timeout)
    cov = vlib.merge_summaries(summaries)
    for k in DROP:
        cov.pop(k, None)
    cov["rule"] = RULE
    cov["exhaustive"] = {"crypto_rules_x_cookie_name_pairs": cov.get("configs_covered", 0) >= 52,
                         "count": cov.get("configs_covered")}
    cov["session_cookies_checked"] = cov.get("c12_session_cookies_checked", 0)
    cov["refusals_checked"] = cov.get("refusals_checked", 0)
    cov["removal_cookies_checked"] = cov.get("c12_removal_cookies_scope_checked", 0)
    ctx.finish(cov, ASSUMPTIONS, require_nontrivial=not ctx.replay)
