"""C15 - Typed request data equals what the client encoded, or a clean error.

Runtime monitoring of the public typed extractors (`PathParams`, `QueryParams`, `UrlEncodedBody`,
`JsonBody`) on wire forms produced by an independent encoder; harness `bodyx/extract`.
"""
import concurrent.futures as cf

from lib import vlib

ASSUMPTIONS = [
    "thorough tier only: 12 shards of the random workload are also executed inside the Miri interpreter (same oracles); an "
    "undefined-behaviour report with a frame in /repo is a violation, one entirely inside third-party crates or std is "
    "recorded as inconclusive; Miri cases are not added to `evaluations`",
    "the independent encoder: own percent-encoder over the RFC 3986 unreserved set (allowed literals left alone "
    "half of the time, unreserved characters occasionally over-escaped, random hex case, space as '+' or %20 and a "
    "literal '+' always as %2B in query/form components), own k=v& joiner, own JSON object/array/string printer "
    "(serde_json only prints some leaf literals)",
    "paths go through http::Uri and a real matchit 0.9 Router exactly like generated code "
    "(`router.at(target.path())`, `RawPathParams::from(params)`); inputs the http crate or matchit reject are "
    "skipped and counted, never judged",
    "floats are compared bit for bit; Rust's shortest round-trip printing is taken as 'the value the client encoded'",
    "modelled, not flagged: a `&str` field whose wire form needs decoding must fail (path, JSON: documented "
    "runtime error) or may fail (query, form: docs only imply it); `Some(\"\")` is not generated for the flat "
    "encodings; extra parameters/pairs/members and interleaved sequence members may be rejected (only counted)",
    "128-bit integers: asserted for path and JSON (0, u64::MAX+1, u128::MAX, i128::MIN/MAX, i64::MIN-1, random); "
    "query/form reject them on the pinned tree ('i128 is not supported' from serde_html_form) - counted, not flagged",
    "content types: JsonBody must accept application/json and application/*+json (with parameters) and must answer "
    "ContentTypeMismatch for text/json, text/x.custom+json, image/svg+json, model/gltf+json, application/jsonx, "
    "application/x-json-stream...; upper/mixed-case spellings and `application/x-www-form-urlencoded+json` are "
    "executed on every run but only counted (rustdoc silent); every spelling of the tables is a fixed input",
    "error variants required: path InvalidUtf8InPathParameter / PathDeserializationError, query "
    "QueryDeserializationError, json+form MissingContentType / ContentTypeMismatch / DeserializationError",
]

RULE = ("35 struct shapes (1-4 named fields of u8..u128/i8..i128/f64/bool/char/String/&str/Cow<str>, Option and Vec for "
        "query/form/JSON, nested structs for JSON, renamed hostile keys) x 4 sources; values drawn from a hostile pool "
        "(reserved characters, '%', '+', '%2541', multi-byte and astral unicode, controls, empty, extreme numbers); "
        "wire order / template order permuted against declaration order; ~40% of the cases are malformed "
        "(invalid UTF-8, wrong type, missing field, wrong/missing content type, truncated JSON). Exhaustive sub-space: "
        "every pool string and every ordered pair of hostile characters x 4 escaping styles x 4 sources for the "
        "one-string shapes. distinct = distinct (source, shape, class, value features, outcome, wire escape signature).")


def _dedup_violations(ctx):
    """Shards report the same signature independently: keep one witness per signature and add up
    the occurrence counts (vlib records every `violation` line of every process)."""
    import json
    for attr in ("violations",):
        seen = {}
        for v in getattr(ctx, attr):
            k = json.dumps(v["sig"], sort_keys=True)
            if k in seen:
                d, e = seen[k]["detail"], v.get("detail")
                if isinstance(d, dict) and isinstance(e, dict):
                    d["occurrences"] = d.get("occurrences", 0) + e.get("occurrences", 0)
                    d["processes_reporting"] = d.get("processes_reporting", 1) + 1
            else:
                seen[k] = v
        setattr(ctx, attr, list(seen.values()))
    seen = {}
    for e, v in ctx.known_hits:
        k = json.dumps(v["sig"], sort_keys=True)
        seen.setdefault(k, (e, v))
    ctx.known_hits = list(seen.values())


def _replay(ctx, bindir, binary):
    summaries = vlib.run_harness_bin(ctx, bindir, binary, ["--seed", ctx.seed, "--tier", ctx.tier,
                                                            "--replay", ctx.replay], 120)
    cov = vlib.merge_summaries(summaries)
    cov["rule"] = "replay of one recorded case: " + str(ctx.replay)
    ctx.finish(cov, ASSUMPTIONS, require_nontrivial=False)


def run(ctx):
    bindir = vlib.build_harness("bodyx")
    tier = "quick" if ctx.quick else "thorough"
    if ctx.quick:
        jobs = [["--seed", ctx.seed, "--tier", tier, "--budget-s", 45]]
        timeout = 120
    else:
        n = 14
        jobs = [["--seed", ctx.seed, "--tier", tier, "--budget-s", 450, "--shard", "%d/%d" % (i, n)] for i in range(n)]
        timeout = 900
    if ctx.replay:
        _replay(ctx, bindir, "extract")
        return
    summaries = []
    with cf.ThreadPoolExecutor(max_workers=len(jobs)) as ex:
        futs = [ex.submit(vlib.run_harness_bin, ctx, bindir, "extract", a, timeout) for a in jobs]
        for f in futs:
            summaries += f.result()
    if not summaries:
        raise vlib.HarnessError("extract produced no summary")
    maxima = {}
    for s in summaries:
        for k, v in (s.pop("maxima", None) or {}).items():
            maxima[k] = max(maxima.get(k, 0), v)
        for k in ("elapsed_s", "shard", "workload"):
            s.pop(k, None)
    shapes = summaries[0].get("shapes")
    miri = None
    if not ctx.quick:
        # sanitizer supplement: the same harness, the same oracles, interpreted by Miri (shards != 0 skip the exhaustive pool)
        n = 12
        sets = [["--seed", ctx.seed, "--tier", tier, "--shard", "%d/%d" % (i + 1, n + 1), "--budget-s", 150] for i in range(n)]
        _, miri = vlib.run_under_miri(ctx, "bodyx", "extract", sets, 1500, "C15 typed extractors",
                                      ["--seed", ctx.seed, "--tier", tier, "--shard", "1/2", "--budget-s", 0.01])
    cov = vlib.merge_summaries(summaries)
    if miri:
        cov["miri_supplement"] = miri
    cov["shapes"] = shapes
    cov["maxima"] = maxima
    cov["rule"] = RULE
    cov["processes"] = len(jobs)
    _dedup_violations(ctx)
    ctx.finish(cov, ASSUMPTIONS)
