"""C20 - Domain guards accept exactly the hosts the documentation says.

In-process part (harness/domain, this file's `run_inprocess`): runtime monitoring of the real
`DomainGuard::new` + `DomainGuard::matchit_pattern` (hook `pavexc::verif_domain_guard`) together with the
real `matchit` 0.9.0 router and `http::uri::Authority` that the generated `route` function uses.

  (i)   validator: every string over {a 1 - . { } * _} up to a length bound (exhaustive) plus random
        long / exotic guards (63/253 limits, trailing dots, parameters, upper case, punctuation,
        non-ASCII) is classified by an independent implementation of the documented grammar
        (harness/domain/src/reference.rs); the hook must agree wherever the documentation decides,
        must never panic, and every accepted guard's pattern must be insertable in `matchit`.
  (ii)  matching: for every accepted guard a `matchit::Router` is built from the hook's pattern and
        looked up with hosts normalised exactly like the generated code does
        (compiler/pavexc/src/compiler/codegen/router.rs:327-342). Hosts come from the guard by
        instantiation and single edits; the oracle is the documented matcher.
  (iii) pairs (advisory + panics): both patterns are inserted in one router, in both orders, like
        `detect_domain_conflicts` / the generated `domain_router()` do. Overlap-not-reported and
        spurious-conflict outcomes are *observations* (the end-to-end part with the real CLI judges
        them); panics and mis-routing with two guards in the router are violations.

The end-to-end part (generated servers, real `pavexc` CLI) is added by `run()` after `run_inprocess`.
"""
import json

from lib import vlib

# "judge": `{ a}` / `{a/**/}` style names (identifier only after stripping whitespace/comments) are
# invalid guards (the implementation's own rule: "not a valid Rust identifier").
# "observe": record what the implementation does with them without judging.
LENIENT_PARAMETER_NAMES = "judge"

RULE = (
    "validator cases = all strings over the 8 symbols a 1 - . { } * _ up to the length bound (exhaustive) + "
    "seeded random guards built around the 63-character label and 253-character name limits (with/without "
    "trailing dot, with parameters), with upper case, ASCII punctuation, non-ASCII and odd parameter names; "
    "matching cases = (accepted guard, host) where hosts are instantiations of the guard and single edits of "
    "them (extra/missing/swapped/empty label, 1-3 trailing dots, port, changed literal, parameter filled "
    "with nothing / two labels / 40 chars, catch-all filled with 0-4 labels); pair cases = all pairs of "
    "accepted guards up to 4-5 characters + random pairs over a small vocabulary, inserted in both orders. "
    "A case is non-trivial when the guard is accepted by the real validator and looked up in a real matchit "
    "router; distinct = distinct guard shapes (literal characters collapsed, parameter names collapsed)."
)

ASSUMPTIONS = [
    "reference grammar (harness/domain/src/reference.rs) is written from docs/guide/routing/domain_guards.md plus "
    "the DNS rules the validator's diagnostics and unit tests state: labels of ASCII letters/digits/hyphens, "
    "1..=63 chars, no leading/trailing hyphen, name <= 253 chars not counting one trailing dot",
    "documentation silent -> reading pinned by the unit tests in domain.rs: `_` is not allowed in a label; a "
    "label may be purely numeric; upper-case ASCII letters are allowed; `{*p}` alone and `{*p}sfx` are valid; a "
    "parameter must open its label, at most one per label; parameter name = Rust identifier (plain ASCII "
    "identifiers that are not keywords are valid; `_`, keywords, names starting with a digit or containing "
    "other punctuation are invalid)",
    "not judged (recorded as observations): templated labels/names whose minimum length exceeds 63/253, "
    "non-ASCII parameter names, raw identifiers (`r#x`), edition-dependent keywords (`gen`, `dyn`, `async`, "
    "`try`, ...); hosts where `{p}sfx`/`{*p}sfx` would capture the empty string; hosts where a catch-all "
    "would cover an empty label; host letter case",
    "parameter names with whitespace/comment syntax inside the braces (`{ a}`, `{a/**/}`): "
    + ("judged invalid (not Rust identifiers)" if LENIENT_PARAMETER_NAMES == "judge" else "not judged"),
    "reference matcher: literal labels compare equal, `{p}` = (leading part of) one non-empty label, leading "
    "`{*p}` = one or more labels, exactly one trailing dot ignored on either side, port is not part of the domain",
    "host normalisation is a replica of the generated code (router.rs:327-342) using the same crates "
    "(http 1.4.0 Authority, matchit 0.9.0); the end-to-end part covers the really generated code",
    "pair part replicates the insert loop of detect_domain_conflicts (registration order: both orders tried) "
    "and of the generated domain_router() (BTreeMap order = sorted by guard string); conflict/no-conflict "
    "outcomes are advisory observations here",
]


def _replay_args(path):
    """Turn a replay file written by vlib into the harness' single-case arguments."""
    with open(path) as f:
        rep = json.load(f)
    d = rep.get("detail") or {}
    pair = d.get("guards_in_insertion_order") or d.get("guards")
    if pair:
        return ["--guard", pair[0], "--guard2", pair[1]]
    args = ["--guard", d.get("guard", "")]
    host = d.get("host_header") or d.get("host")
    if host:
        args += ["--host", host]
    return args


def run_inprocess(ctx):
    """Build and run harness/domain; violations/inconclusives go to ctx, returns the coverage dict."""
    bindir = vlib.build_harness("domain")
    args = ["--seed", ctx.seed, "--tier", ctx.tier,
            "--lenient-names", "judge" if LENIENT_PARAMETER_NAMES == "judge" else "observe"]
    if ctx.replay:
        args += _replay_args(ctx.replay)
    else:
        args += ["--threads", 12 if ctx.quick else 16, "--budget-s", 50 if ctx.quick else 560]
    summaries = vlib.run_harness_bin(ctx, bindir, "domain", args, timeout=120 if ctx.quick else 900)
    if not summaries:
        raise vlib.HarnessError("harness domain produced no summary")
    cov = vlib.merge_summaries(summaries)
    cov["rule"] = RULE
    cov["level_note"] = "exploration; the sub-space `exhaustive` is enumerated completely when exhaustive.exhaustive is true"
    return cov


def run_e2e(ctx):
    """End-to-end part: the generated servers of the shared e2e corpus whose routes sit under domain guards are sent
    hosts derived from each guard (see e2e/plan.py::host_probes); the verdicts of the reference router on those probes,
    and pavexc's verdict on guard sets (accept / conflict), are C20 verdicts."""
    from checks import e2e_common
    import json as _json
    cases, results, evaluated, reused = e2e_common.corpus(ctx)
    by_id = {c["id"]: c for c in cases}
    n_apps = 0
    n_probes = 0
    guards = set()
    samples = []
    seen = {}
    for cid, (vs, stats, status) in evaluated.items():
        spec = by_id[cid]["spec"]
        if spec.get("domains"):
            guards |= set(spec["domains"])
            if status == "ran":
                n_apps += 1
                n_probes += (stats or {}).get("host_probes", 0)
                if len(samples) < 2:
                    run = results[cid]["stages"]["runs"][-1]
                    recs = {r["i"]: r for r in run["records"] if r.get("kind") == "req"}
                    hp = [(i, r) for i, r in enumerate(by_id[cid]["plan"]) if r.get("sub") == "host" and i in recs and "resp" in recs[i]][:6]
                    samples.append({"case": cid, "guards": spec["domains"], "host_probes": [
                        {"guard": r["guard"], "host": r["host"], "status": recs[i]["resp"]["status"],
                         "answered_by": [e["c"] for e in recs[i]["events"] if e["k"] == "enter" and (e["c"] in spec["handlers"] or e["c"] in spec["fallbacks"])]} for i, r in hp]})
        for v in vs:
            if v["prop"] != "C20":
                continue
            key = _json.dumps(v["sig"], sort_keys=True)
            seen[key] = seen.get(key, 0) + 1
            if seen[key] <= 2:
                d = dict(v["detail"])
                d["case"] = cid
                d["spec"] = spec
                ctx.violation(v["sig"], d)
    return {"e2e_domain_apps_run": n_apps, "e2e_host_probes_judged": n_probes, "e2e_guards": sorted(guards), "e2e_samples": samples,
            "e2e_violation_signatures": seen, "e2e_observations_reused_for_same_tree": reused}


def run(ctx):
    cov = run_inprocess(ctx)
    if not ctx.replay:
        cov.update(run_e2e(ctx))
        cov["evaluations"] = int(cov.get("evaluations", 0)) + cov["e2e_host_probes_judged"]
    ctx.finish(cov, ASSUMPTIONS, require_nontrivial=not ctx.replay)
