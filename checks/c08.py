"""C08: in-class applications with exactly one planted rule violation must be rejected with a diagnostic and no SDK."""
import json
import random

from lib import vlib, e2e_env
from e2e import engine, gen, plant, evaluate
from checks import e2e_common

N_BASES = {"quick": 10, "thorough": 110}
PER_BASE = {"quick": 3, "thorough": 4}


def make_cases(tier, seed):
    def f():
        cases = []
        ops = sorted(plant.OPERATORS)
        k = 0
        for b in range(N_BASES[tier]):
            rng = random.Random("planted-base-%d-%d" % (seed, b))
            base = gen.gen_inclass(rng, gen.Knobs(avoid_known=True))
            ok, problems, _ = gen.certificate(base)
            if not ok:
                # (the generator's own self-check: such a base is not used)
                vlib.log("[planted] base %d dropped by the class certificate: %s" % (b, problems[:2]))
                continue
            bid = "pb-%d-%d" % (seed, b)
            cases.append({"id": bid, "mode": "inclass", "spec": base, "plan": [], "stop_after_pavexc": True, "shape": gen.shape_signature(base), "role": "twin"})
            prng = random.Random("planted-op-%d-%d" % (seed, b))
            # rotate through the operators so that every operator is exercised even in the quick tier
            tried = 0
            n_ok = 0
            while n_ok < PER_BASE[tier] and tried < len(ops) * 2:
                op = ops[(k + tried) % len(ops)]
                tried += 1
                spec = plant.plant(prng, base, op)
                if spec is None:
                    continue
                n_ok += 1
                cases.append({"id": "%s-%s" % (bid, op), "mode": "planted", "spec": spec, "plan": [], "stop_after_pavexc": True,
                              "shape": gen.shape_signature(spec) + "-" + op, "role": "planted", "twin": bid, "operator": op})
            k += tried
        # hand-written sentinels: rule-breaking blueprints that must be rejected (no twin needed)
        import glob, os
        for p in sorted(glob.glob(os.path.join(vlib.VERIF, "e2e", "regress", "*.json"))):
            r = json.load(open(p))
            if r.get("expect_rejected"):
                cases.append({"id": "rg-" + r["name"], "mode": "planted", "spec": r["spec"], "plan": [], "stop_after_pavexc": True,
                              "shape": "rg-" + r["name"], "role": "planted", "twin": None, "operator": r["spec"]["planted"]["operator"]})
        return cases
    return f


def run(ctx):
    cases, results, reused = engine.load_or_run(ctx.tier, ctx.seed, "planted", make_cases(ctx.tier, ctx.seed))
    by_id = {c["id"]: c for c in cases}
    per_op = {}
    samples = []
    distinct = set()
    evals = 0
    for c in cases:
        if c["role"] != "planted":
            continue
        r = results.get(c["id"])
        tw = results.get(c["twin"]) if c["twin"] else {"stages": {"app_build": {"ok": True}, "pavexc": {"rc": 0}}}
        op = c["operator"]
        st = per_op.setdefault(op, {"rejected": 0, "accepted": 0, "twin_not_accepted": 0, "generator_bug": 0, "panicked": 0})
        if r is None or tw is None or not r["stages"].get("app_build", {}).get("ok") or not tw["stages"].get("app_build", {}).get("ok"):
            st["generator_bug"] += 1
            ctx.inconc("planted application (or its twin) does not compile as a user crate", {"case": c["id"], "err": (r or {}).get("stages", {}).get("app_build", {}).get("err", "")[-600:]})
            continue
        tpv = tw["stages"]["pavexc"]
        if tpv["rc"] != 0:
            st["twin_not_accepted"] += 1
            ctx.inconc("sanity twin not accepted", {"case": c["id"], "twin_first_diag": (tpv["class"]["first_lines"] or [tpv["class"]["panic_msg"]])[0]})
            continue
        pv = r["stages"]["pavexc"]
        evals += 1
        distinct.add(c["shape"])
        planted = c["spec"]["planted"]
        variant = planted.get("variant") or planted.get("kind") or planted.get("which") or ""
        if c["twin"] is None and planted.get("variant"):
            op = planted["operator"]  # witness of a known finding written as (operator, variant)
        if pv["timeout"]:
            ctx.inconc("pavexc watchdog fired on a planted case", {"case": c["id"]})
            continue
        if pv["rc"] == 0:
            st["accepted"] += 1
            ctx.violation({"rule": "planted_violation_accepted", "operator": op, "variant": variant, "input": evaluate.input_id(c["spec"])},
                          {"case": c["id"], "planted": planted, "spec": c["spec"], "stderr": pv["stderr"][-1500:]})
        elif pv["class"]["panicked"] or pv["rc"] not in (0, 1) or pv["class"]["n_error"] == 0:
            st["panicked"] += 1
            from e2e import patterns
            pat = patterns.pattern_for_panic(c["spec"], pv["class"]["panic_loc"], pv["class"]["panic_msg"])
            ctx.violation({"rule": "refused_without_diagnostic", "operator": op, "variant": variant, "pattern": pat,
                           "loc": evaluate.norm_loc(pv["class"]["panic_loc"]), "msg": evaluate.norm_msg(pv["class"]["panic_msg"]),
                           "input": evaluate.input_id(c["spec"])},
                          {"case": c["id"], "planted": planted, "spec": c["spec"], "rc": pv["rc"], "stderr": pv["stderr"][-2500:]})
        else:
            st["rejected"] += 1
            if pv["sdk_changed"]:
                ctx.violation({"rule": "sdk_written_despite_rejection", "operator": op}, {"case": c["id"], "changed": pv["sdk_changed"], "spec": c["spec"]})
        if len(samples) < 5 and len(samples) < len(per_op):
            samples.append({"case": c["id"], "planted": planted, "pavexc_rc": pv["rc"], "first_diagnostic": (pv["class"]["first_lines"] or [None])[0], "sdk_files_changed": pv["sdk_changed"]})
    cov = {"evaluations": evals, "distinct_nontrivial": len(distinct), "samples": samples, "per_operator": per_op,
           "operators_exercised": sorted(k for k, v in per_op.items() if v["rejected"] + v["accepted"] + v["panicked"] > 0),
           "observations_reused_for_same_tree": reused,
           "rule": "cases = in-class application + one planted violation chosen by a named operator (13 operators, one per documented rule) at a random place; "
                   "judged only when the unplanted twin is accepted; distinct = shape hash + operator; every judged case is non-trivial"}
    ctx.finish(cov, assumptions=["each operator plants a violation of exactly the named rule (other accidental violations would only make rejection easier)",
                                 "the sanity twin shows the base application is acceptable"])
