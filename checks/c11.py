"""C11 - session state carries over from one request to the next, exactly.

Runtime monitoring of the real request path of `pavex_session` by the harness `harness/sessions`
(bin `sessions --mode c11`): `Cookie` header -> `extract_request_cookies` (real, encrypting `Processor`) ->
`IncomingSession::extract` -> `Session::new` -> random operations -> `finalize_session` ->
`inject_response_cookies` -> `Set-Cookie` -> a browser-like jar -> the next request's `Cookie` header,
against `InMemorySessionStore` (and `SqliteSessionStore` on extra shards), watched by a two-map reference model.
"""
from lib import vlib

RULE = (
    "All 64 session-state configurations (server_state_creation x missing_server_state x extend_ttl x "
    "ttl_extension_threshold {none,0.0,0.5,1.0} x cookie kind) are enumerated round-robin; per configuration, "
    "seeded random histories of 1-6 requests x 0-8 operations (server insert/get/remove (typed and raw), clear, "
    "is_empty, force_load, sync, delete, cycle_id, invalidate; client insert/get/remove (typed and raw, via "
    "client()/client_mut()), clear, is_empty) over 3 server and 3 client keys with a unique value token per "
    "insert; each request presents the jar's cookie, an older cookie emitted earlier in the history (replay), "
    "or none; some requests only read everything back; every history ends with a request that reads all keys "
    "on both sides (1/3 of them first replay the previous cookie twice). TTL 1 h or 4 h per request (so the "
    "update_ttl arm is reachable with threshold 0.5), cookie domain/path drawn at random. One history in five "
    "with >= 2 requests additionally carries an environment fault: in a later request the store record of the "
    "id the request came with vanishes (raw store delete behind the monitor = TTL expiry / concurrent delete) "
    "after the server state was loaded (unchanged or changed), and the same request calls cycle_id() before or "
    "after the fault; the next request must then find exactly the in-memory state under the new id. "
    "After every operation "
    "the return value is compared with the model; whatever a later request reads is compared with what the "
    "model says the earlier request ended with. A history is non-trivial when at least one request presented a "
    "cookie emitted earlier in that history; distinct = distinct (configuration, sequence over the requests of "
    "(cookie source, id kind existing/renamed/new, server state not_loaded/loaded_unchanged/changed/absent/"
    "marked_for_deletion, client changed?, invalidated?))."
)

ASSUMPTIONS = [
    "the reference model (client map + server map + current id + 'a record exists' + invalidated flag per "
    "request, a map id -> key/values across requests) encodes the statement of C11 with the configuration "
    "semantics of config/state.rs: a missing record is an empty state under `allow` and invalidates the session "
    "at the first server-side access under `reject`; operations on an invalidated session are no-ops "
    "(None / true / unit); TTL extension never changes key/values",
    "whether a record exists for an *empty* server state is taken from a read-only look at the real store (the "
    "documentation leaves several cases open); key/values never are",
    "after `delete()` and until the next `sync()` server-side operations are no-ops (the implementation says so in "
    "its log messages, the rustdoc is silent); after `delete(); sync()` the state is an absent record",
    "no assertion on whether a response carries a session cookie, except: non-empty state must not be left "
    "without any cookie in the jar, and an invalidated session that came with a cookie must get a removal cookie "
    "that actually removes it (same name/domain/path; Expires in the past or Max-Age<=0)",
    "a failed finalisation/sync counts as a violation (the state the operations produced does not carry over), "
    "except the one failure the repository's own tests pin as intended: cycle_id() on a session whose record is "
    "gone and was never loaded (`id_cycling_fails_if_the_old_state_record_is_gone_...`), counted under "
    "accepted_failures; a history is not continued after a failure",
    "ids are read back from the emitted cookie by undoing the real cookie `Processor` (biscotti is trusted), the "
    "ids a request generates before they reach a cookie are learnt from the calls the store monitor logs",
    "the store wrapper that logs create/update/update_ttl/load/delete/change_id is a monitor that forwards to the "
    "real store; it never answers on its own",
    "the TTLs used (1 h, 4 h) never expire during a run; SQLite shards use a scratch database file under "
    "build/sessions-sqlite (journal in memory, synchronous=OFF); plumbing errors of that database are inconclusive",
    "environment fault 'record vanishes': only judged where the outcome is pinned (state already loaded as a "
    "record, no manual sync in the request, not invalidated/deleted, cycle_id() called in the same request); in "
    "every other situation the fault is not performed or the history is abandoned unjudged (vanish_faults: "
    "unjudged/...); divergences traced to such a request get cause record_vanished_before_cycle_id/<state kind>",
    "signatures: `cause` names the first model-level change of the persistence epoch (request / stretch between "
    "explicit syncs) in which the diverging key was last changed, and the abstract state it was applied in; "
    "histories where `sync()` was called by hand on a new or on a renamed session are classed by `ctx` instead",
]


def run(ctx):
    bindir = vlib.build_harness("sessions")
    if ctx.quick:
        args = ["--mode", "c11", "--seed", ctx.seed, "--tier", "quick", "--threads", 4, "--sqlite-threads", 1,
                "--histories", 64 * 1000, "--budget-s", 40]
        timeout = 120
    else:
        args = ["--mode", "c11", "--seed", ctx.seed, "--tier", "thorough", "--threads", 13, "--sqlite-threads", 3,
                "--histories", 64 * 20000, "--budget-s", 450]
        timeout = 900
    if ctx.replay:
        args += ["--replay", ctx.replay]
    summaries = vlib.run_harness_bin(ctx, bindir, "sessions", args, timeout=timeout)
    cov = vlib.merge_summaries(summaries)
    cov["rule"] = RULE
    cov["stores"] = ["memory (InMemorySessionStore)", "sqlite (SqliteSessionStore via sqlx) on the extra shards"]
    cov["exhaustive"] = {"session_state_configurations": bool(cov.get("configs_exhaustive")),
                         "count": cov.get("configs_covered")}
    cov["operations_executed"] = cov.get("ops", 0)
    cov["environment_fault_histories"] = {"performed": cov.get("fault_histories", 0),
                                          "judged": cov.get("fault_histories_judged", 0),
                                          "read_back_requests": cov.get("requests_presenting_cookie_of_a_fault_request", 0)}
    ctx.finish(cov, ASSUMPTIONS, require_nontrivial=not ctx.replay)
