"""C09: every pavexc execution ends with a verdict and fails atomically (process monitor over the shared e2e corpus and the planted
corpus); the thorough tier adds a memcheck supplement: a few accepted applications are re-generated under valgrind with a warm docs
cache (the only `unsafe` on the path are the rkyv `access_unchecked` readers of the cache)."""
import os
import re
import threading

from lib import vlib, e2e_env
from e2e import slots
from checks import e2e_common

N_VALGRIND = {"quick": 0, "thorough": 4}


def valgrind_supplement(ctx, cases, results):
    n = N_VALGRIND[ctx.tier]
    out = {"valgrind_runs": 0, "valgrind_memcheck_errors": 0, "valgrind_samples": []}
    if n == 0:
        return out
    picked = [c for c in cases if c["mode"] == "inclass" and results.get(c["id"], {}).get("stages", {}).get("pavexc", {}).get("rc") == 0][:n]
    lock = threading.Lock()

    def work(slot, c):
        slots.write_case(slot, c["spec"])
        ok, err = slots.build_app(slot)
        if not ok:
            return
        d = slots.slot_dir(slot)
        env = e2e_env.pavexc_env(os.path.join(d, "home"))
        env["CARGO_TARGET_DIR"] = os.path.join(d, "target")
        log = os.path.join(d, "valgrind.log")
        cmd = ["valgrind", "--tool=memcheck", "--error-exitcode=97", "--trace-children=no", "--log-file=" + log, "-q",
               e2e_env.pavexc_bin(), "generate", "--blueprint", "bp.ron", "--output", "sdk", "--diagnostics", "diag.dot"]
        rc, so, se, to = vlib.run(cmd, cwd=d, env=env, timeout=2400)
        try:
            with open(log) as f:
                vlog = f.read()
        except FileNotFoundError:
            vlog = ""
        n_err = len(re.findall(r"(?m)^==\d+== (Invalid|Conditional jump|Use of uninitialised|Mismatched|Source and destination overlap)", vlog))
        with lock:
            if to:
                ctx.inconc("valgrind run hit the watchdog", {"case": c["id"]})
                return
            out["valgrind_runs"] += 1
            out["valgrind_memcheck_errors"] += n_err
            out["valgrind_samples"].append({"case": c["id"], "exit": rc, "memcheck_error_reports": n_err})
            if rc == 97 or n_err:
                ctx.violation({"rule": "memcheck_error", "first": (re.findall(r"(?m)^==\d+== (\w[^\n]*)", vlog) or [""])[0][:80]},
                              {"case": c["id"], "log": vlog[:3000], "spec": c["spec"]})
    ths = [threading.Thread(target=work, args=(i, c)) for i, c in enumerate(picked)]
    for t in ths:
        t.start()
    for t in ths:
        t.join()
    return out


def planted_corpus(ctx):
    """The planted (rule-violating) applications of C08 are pavexc executions too: same process monitor."""
    import json
    from checks import c08
    from e2e import engine, evaluate
    cases, results, reused = engine.load_or_run(ctx.tier, ctx.seed, "planted", c08.make_cases(ctx.tier, ctx.seed))
    n = 0
    exits = {}
    seen = {}
    for c in cases:
        r = results.get(c["id"])
        if r is None or "pavexc" not in r.get("stages", {}):
            continue
        n += 1
        rc = r["stages"]["pavexc"]["rc"]
        exits[str(rc)] = exits.get(str(rc), 0) + 1
        vs, _stats, _status = evaluate.evaluate_case(dict(c, mode="planted"), r)
        for v in vs:
            if v["prop"] != "C09":
                continue
            key = json.dumps(v["sig"], sort_keys=True)
            seen[key] = seen.get(key, 0) + 1
            if seen[key] <= 2:
                ctx.violation(v["sig"], dict(v["detail"], case=c["id"], spec=c["spec"]))
    return {"planted_pavexc_executions": n, "planted_exit_codes": exits, "planted_observations_reused_for_same_tree": reused}


def output_fault_history(ctx, cases, results):
    """Fault injection on the output side: an SDK from a previous successful run is on disk, the application changes, and the
    next run cannot write its diagnostics file (parent directory missing). If that run fails, the SDK must be untouched."""
    import copy
    from e2e import engine
    n = 3 if ctx.quick else 12
    picked = [c for c in cases if c["mode"] == "inclass" and not c.get("regress") and len(c["spec"]["handlers"]) >= 2
              and results.get(c["id"], {}).get("stages", {}).get("pavexc", {}).get("rc") == 0][:n]
    out = {"output_fault_histories": 0, "output_fault_failed_runs": 0}
    lock = threading.Lock()

    def drop_route(spec):
        alt = copy.deepcopy(spec)

        def drop(bp):
            for it in list(bp["items"]):
                if it[0] == "route":
                    bp["items"].remove(it)
                    alt["handlers"].pop(it[1], None)
                    return True
                if it[0] == "nest" and drop(it[2]):
                    return True
            return False
        return alt if drop(alt["bp"]) else None

    def work(slot, c):
        alt = drop_route(c["spec"])
        if alt is None:
            return
        with engine.SlotLock(slot):
            d = slots.slot_dir(slot)
            slots.write_case(slot, c["spec"])
            ok, _ = slots.build_app(slot)
            if not ok or slots.run_pavexc(slot)["rc"] != 0:
                return
            slots.write_case(slot, alt)
            ok, _ = slots.build_app(slot)
            if not ok:
                return
            before = slots.sdk_snapshot(d)
            r = slots.run_pavexc(slot, diag_path="no_such_directory/diag.dot")
            after = slots.sdk_snapshot(d)
        changed = sorted(k for k in set(before) | set(after) if before.get(k) != after.get(k) and k.startswith("sdk/"))
        with lock:
            out["output_fault_histories"] += 1
            if r["rc"] != 0:
                out["output_fault_failed_runs"] += 1
                if changed:
                    ctx.violation({"rule": "sdk_modified_on_failure", "fault": "diagnostics_file_unwritable"},
                                  {"case": c["id"], "rc": r["rc"], "changed": changed, "stderr": r["stderr"][-800:], "spec": c["spec"]})
    ths = [threading.Thread(target=work, args=(i % e2e_env.N_SLOTS, c)) for i, c in enumerate(picked)]
    for k in range(0, len(ths), e2e_env.N_SLOTS):
        for t in ths[k:k + e2e_env.N_SLOTS]:
            t.start()
        for t in ths[k:k + e2e_env.N_SLOTS]:
            t.join()
    return out


def input_fault_history(ctx, cases, results):
    """Input-side fault: the blueprint's registration locations point at a source file that cannot be read (the sources moved
    after the blueprint was persisted). Diagnostics that want to show a snippet then fail to load it; whatever happens, the
    run must still end with a verdict: exit 0 with the SDK written, or exit 1 with some error report and the SDK untouched."""
    from e2e import engine, evaluate
    out = {"input_fault_histories": 0, "input_fault_failed_runs": 0, "input_fault_runs_with_warnings": 0}
    picked = [c for c in cases if c["mode"] == "inclass" and not c.get("regress")
              and results.get(c["id"], {}).get("stages", {}).get("pavexc", {}).get("rc") == 0][:(3 if ctx.quick else 12)]
    lock = threading.Lock()

    def work(slot, c):
        with engine.SlotLock(slot):
            d = slots.slot_dir(slot)
            slots.write_case(slot, c["spec"])
            ok, _ = slots.build_app(slot)
            if not ok or slots.run_pavexc(slot)["rc"] != 0:
                return
            ron = os.path.join(d, "bp.ron")
            with open(ron) as f:
                txt = f.read()
            with open(ron, "w") as f:
                f.write(txt.replace('file: "app/src/lib.rs"', 'file: "app/src/moved_away.rs"'))
            before = slots.sdk_snapshot(d)
            r = slots.run_pavexc(slot)
            after = slots.sdk_snapshot(d)
            with open(ron, "w") as f:
                f.write(txt)
        cls = engine.classify_stderr(r["stderr"])
        plain = engine.strip_ansi(r["stderr"])
        changed = sorted(k for k in set(before) | set(after) if before.get(k) != after.get(k) and k.startswith("sdk/"))
        with lock:
            out["input_fault_histories"] += 1
            if cls["n_warning"]:
                out["input_fault_runs_with_warnings"] += 1
            sig = None
            if r["timeout"]:
                sig = {"rule": "timeout", "fault": "source_file_unreadable"}
            elif cls["panicked"] or r["rc"] not in (0, 1):
                sig = {"rule": "panic", "fault": "source_file_unreadable", "loc": evaluate.norm_loc(cls["panic_loc"]), "msg": evaluate.norm_msg(cls["panic_msg"])}
            elif r["rc"] != 0:
                out["input_fault_failed_runs"] += 1
                # (a report that failed to load its snippet carries no ERROR header: any `×` line counts as an error report)
                if cls["n_error"] == 0 and not re.search(r"(?m)^\s*× ", plain):
                    sig = {"rule": "failure_without_diagnostic", "fault": "source_file_unreadable"}
                elif changed:
                    sig = {"rule": "sdk_modified_on_failure", "fault": "source_file_unreadable"}
            if sig:
                ctx.violation(sig, {"case": c["id"], "rc": r["rc"], "changed": changed, "stderr": plain[-1500:], "spec": c["spec"]})
    ths = [threading.Thread(target=work, args=(i % e2e_env.N_SLOTS, c)) for i, c in enumerate(picked)]
    for k in range(0, len(ths), e2e_env.N_SLOTS):
        for t in ths[k:k + e2e_env.N_SLOTS]:
            t.start()
        for t in ths[k:k + e2e_env.N_SLOTS]:
            t.join()
    return out


def extra(ctx, cases, results):
    out = planted_corpus(ctx)
    out.update(output_fault_history(ctx, cases, results))
    out.update(input_fault_history(ctx, cases, results))
    out.update(valgrind_supplement(ctx, cases, results))
    return out


def run(ctx):
    e2e_common.run_property(ctx, "C09", extra=extra)
