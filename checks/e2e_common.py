"""Shared body of the engine-A checks (C01-C07, C09): one corpus execution per (tree, tier, seed), then each property
looks at its own monitors over the recorded observations."""
import glob
import json
import os
import random

from lib import vlib, e2e_env
from e2e import engine, evaluate, gen, plan as planmod

N_INCLASS = {"quick": 18, "thorough": 240}
N_WILD = {"quick": 8, "thorough": 120}

RULES = {
    "C01": "cases = generated applications (in-class + wild + regression specs) that pavexc accepted; oracle = rustc on the emitted SDK (cargo build of sdk+driver). "
           "distinct = name-erased shape hash of the spec; non-trivial = accepted case whose call graphs contain a Clone node, a `match` node, a &mut edge or a Next state",
    "C02": "cases = generated applications inside C02's class (class certificate re-derived from the emitted spec); oracle = pavexc exit status + ERROR blocks. "
           "distinct = shape hash; non-trivial = >= 3 constructible types and a middleware or a fallible component",
    "C03": "cases = accepted applications booted and driven with their request plan; oracle = per-registration cardinality and identity rules over construct/clone/use events. "
           "distinct = shape hash; non-trivial = the trace contains request-scoped or transient instances and >= 2 requests",
    "C04": "same executions; oracle = origin of every injected instance vs documentation-derived scope resolution, clone events vs cloning policy. "
           "distinct = shape hash; non-trivial = nested blueprint or clone events or an overriding constructor present",
    "C05": "same executions; oracle = enter/exit sequence of middlewares and handler vs docs/guide/middleware/execution_order.md semantics. "
           "distinct = (middleware chain shape string, fault/early flags); non-trivial = chain with >= 2 middlewares",
    "C06": "same executions with injected failures; oracle = designated handler once, observers once in order, dependents silent, client response. "
           "distinct = (kind of failing component, chain shape, #observers); non-trivial = a failure was actually observed",
    "C07": "same executions; oracle = documentation-derived reference router over request line + Host. distinct = (expectation kind, method, path template); non-trivial = every judged request",
    "C09": "every pavexc execution of every mode; oracle = exit status in {0,1}, no panic text, diagnostic on failure, SDK untouched on failure, bounded termination. "
           "distinct = shape hash; non-trivial = spec with >= 3 types or a nested blueprint or a planted violation",
}


def load_regress_cases():
    cases = []
    for p in sorted(glob.glob(os.path.join(vlib.VERIF, "e2e", "regress", "*.json"))):
        r = json.load(open(p))
        pl = planmod.build_plan(r["spec"], random.Random(1))
        cases.append({"id": "rg-" + r["name"], "mode": "inclass" if r.get("inclass") else "wild", "spec": r["spec"], "plan": pl,
                      "boot_fail_runs": [], "shape": gen.shape_signature(r["spec"]) if r["spec"]["types"] else "rg-" + r["name"], "regress": True,
                      # witnesses of compile-time findings (an accepted rule breaker) are not driven at run time
                      "stop_after_pavexc": bool(r.get("stop_after_pavexc"))})
    return cases


def make_cases(tier, seed):
    def f():
        cases = engine.make_inclass_cases(seed, N_INCLASS[tier])
        try:
            from e2e import wild
            cases += wild.make_wild_cases(seed, N_WILD[tier])
        except ImportError:
            pass
        cases += load_regress_cases()
        return cases
    return f


def corpus(ctx):
    n_slots = e2e_env.N_SLOTS if ctx.quick else 8
    cases, results, reused = engine.load_or_run(ctx.tier, ctx.seed, "main", make_cases(ctx.tier, ctx.seed), n_slots=n_slots)
    evaluated = {}
    for c in cases:
        r = results.get(c["id"])
        if r is None:
            continue
        evaluated[c["id"]] = evaluate.evaluate_case(c, r)
    return cases, results, evaluated, reused


def run_property(ctx, prop, extra=None):
    cases, results, evaluated, reused = corpus(ctx)
    by_id = {c["id"]: c for c in cases}
    statuses = {}
    n_viol_by_sig = {}
    for cid, (vs, stats, status) in evaluated.items():
        statuses[status] = statuses.get(status, 0) + 1
        if status == "inconclusive_generator":
            ctx.inconc("generated application does not compile (generator bug)", {"case": cid, "err": results[cid]["stages"].get("app_build", {}).get("err", "")[-800:]})
        elif status == "inconclusive_build":
            ctx.inconc("driver build failed outside the SDK", {"case": cid})
        for v in vs:
            if v["prop"] != prop:
                continue
            key = json.dumps(v["sig"], sort_keys=True)
            n_viol_by_sig[key] = n_viol_by_sig.get(key, 0) + 1
            if n_viol_by_sig[key] <= 2:
                detail = dict(v["detail"]) if isinstance(v["detail"], dict) else {"detail": v["detail"]}
                detail["case"] = cid
                detail["spec"] = by_id[cid]["spec"]
                ctx.violation(v["sig"], detail)
    cov = coverage_for(prop, cases, results, evaluated)
    if extra is not None:
        cov.update(extra(ctx, cases, results))
        cov["evaluations"] += cov.get("planted_pavexc_executions", 0)
    cov["rule"] = RULES[prop]
    cov["case_statuses"] = statuses
    cov["observations_reused_for_same_tree"] = reused
    cov["violation_signatures"] = n_viol_by_sig
    ctx.finish(cov, assumptions=[
        "the reference semantics in e2e/model.py is a faithful reading of docs/guide/** (where the docs are silent the oracle asserts less)",
        "the instrumentation of the generated application (statics + logging) does not perturb Pavex's dependency graph",
        "rustc (stable) is the judge of 'valid Rust'; the docs toolchain is the installed nightly with JSON docs built from rust-src",
    ])


def coverage_for(prop, cases, results, evaluated):
    by_id = {c["id"]: c for c in cases}
    evals = 0
    distinct = set()
    samples = []
    extra = {}
    agg = {}

    def add(k, n=1):
        agg[k] = agg.get(k, 0) + n

    for cid, (vs, stats, status) in evaluated.items():
        c = by_id[cid]
        spec = c["spec"]
        st = results[cid]["stages"]
        pv = st.get("pavexc")
        if pv is None:
            continue
        add("pavexc_executions")
        accepted = pv["rc"] == 0
        nontrivial_spec = len(spec["types"]) >= 3 and (spec["mws"] or any(x.get("fallible") for k in ("ctors", "handlers", "mws") for x in spec[k].values()))
        has_nest = any(it[0] == "nest" for it in spec["bp"]["items"])
        if prop == "C09":
            evals += 1
            add("exit_%s" % pv["rc"])
            if len(spec["types"]) >= 3 or has_nest or c["mode"] == "planted":
                distinct.add(c["shape"])
            if len(samples) < 4:
                samples.append({"case": cid, "mode": c["mode"], "rc": pv["rc"], "wall_s": pv["wall"], "first_diagnostic": (pv["class"]["first_lines"] or [None])[0],
                                "sdk_files_changed": pv["sdk_changed"][:4]})
            continue
        if prop == "C02":
            if c["mode"] != "inclass":
                continue
            evals += 1
            add("accepted" if accepted else "rejected")
            if nontrivial_spec:
                distinct.add(c["shape"])
            if len(samples) < 3:
                samples.append({"case": cid, "accepted": accepted, "certificate": c.get("certificate"), "n_types": len(spec["types"]), "n_routes": len(spec["handlers"]),
                                "n_middlewares": len(spec["mws"]), "blueprint": bp_outline(spec["bp"])})
            continue
        if not accepted:
            continue
        if prop == "C01":
            b = st.get("build")
            if b is None:
                continue
            evals += 1
            add("sdk_compiled" if b["rc"] == 0 else "sdk_failed")
            d = st.get("diag") or {}
            for k in ("clone_nodes", "match_nodes", "mut_edges", "next_states", "graphs"):
                add("diag_" + k, d.get(k, 0))
            if d.get("clone_nodes") or d.get("match_nodes") or d.get("mut_edges") or d.get("next_states"):
                distinct.add(c["shape"])
            if len(samples) < 3:
                samples.append({"case": cid, "mode": c["mode"], "cargo_rc": b["rc"], "diag": d, "n_types": len(spec["types"]), "blueprint": bp_outline(spec["bp"])})
            continue
        if stats is None:
            continue
        # runtime properties
        for k, v in stats.items():
            if isinstance(v, int):
                add(k, v)
        if prop == "C03":
            evals += stats["requests"]
            if (stats["request_instances"] or stats["transient_instances"]) and stats["requests"] >= 2:
                distinct.add(c["shape"])
        elif prop == "C04":
            evals += stats["inputs_checked"]
            if has_nest or stats["clone_events"] or any("_" in cid2 for cid2 in spec["ctors"]):
                distinct.add(c["shape"])
        elif prop in ("C05", "C06", "C07"):
            pass
        if len(samples) < 2 and prop in ("C03", "C04"):
            run = st["runs"][-1]
            rec = next((r for r in run["records"] if r.get("kind") == "req" and len(r.get("events", [])) >= 3), None)
            if rec is not None:
                samples.append({"case": cid, "request": evaluate.oraclemod.req_brief(c["plan"][rec["i"]]), "events": rec["events"][:14], "status": rec.get("resp", {}).get("status")})
    if prop in ("C05", "C06", "C07"):
        evals, distinct, samples2, extra = per_request_coverage(prop, cases, results, evaluated)
        samples = samples2
    cov = {"evaluations": evals, "distinct_nontrivial": len(distinct), "samples": samples}
    cov.update({k: v for k, v in agg.items()})
    cov.update(extra)
    return cov


def per_request_coverage(prop, cases, results, evaluated):
    from e2e.oracle import CaseOracle, req_brief
    evals = 0
    distinct = set()
    samples = []
    extra = {"chain_shapes": {}, "failing_component_kinds": {}, "expectation_kinds": {}}
    for c in cases:
        cid = c["id"]
        if cid not in evaluated or evaluated[cid][2] != "ran":
            continue
        orc = CaseOracle(c["spec"])
        run = results[cid]["stages"]["runs"][-1]
        recs = {r["i"]: r for r in run["records"] if r.get("kind") == "req"}
        for i, req in enumerate(c["plan"]):
            if i not in recs or "resp" not in recs[i]:
                continue
            exp = orc.route_expectation(req)
            evs = recs[i].get("events", [])
            if prop == "C07":
                if exp["kind"] == "unjudged":
                    continue
                evals += 1
                templ = None
                if exp["kind"] == "handler":
                    templ = orc.m.full_path(sorted(exp["ids"])[0])
                key = (exp["kind"], req["method"], templ or exp.get("fb"), exp.get("status"))
                distinct.add(key)
                extra["expectation_kinds"][exp["kind"]] = extra["expectation_kinds"].get(exp["kind"], 0) + 1
                if len(samples) < 5 and (len(samples) % 2 == 0) == (exp["kind"] == "handler"):
                    samples.append({"case": cid, "request": req_brief(req), "expected": {k: (sorted(v) if isinstance(v, set) else v) for k, v in exp.items()},
                                    "status": recs[i]["resp"]["status"], "answered_by": [e["c"] for e in evs if e["k"] == "enter" and (e["c"] in c["spec"]["handlers"] or e["c"] in c["spec"]["fallbacks"])]})
                continue
            if exp["kind"] != "handler" or len(exp["ids"]) != 1:
                continue
            hid = next(iter(exp["ids"]))
            shape = orc._shape(hid)
            fails = [e for e in evs if e["k"] == "fail"]
            if prop == "C05":
                evals += 1
                extra["chain_shapes"][shape] = extra["chain_shapes"].get(shape, 0) + 1
                if len(shape) >= 2:
                    distinct.add((shape, bool(fails), bool(req["early"])))
                if len(samples) < 4 and len(shape) >= 3 and (len(samples) % 2 == 0) == bool(req["early"] or fails):
                    seq = [(e["k"], e["c"]) for e in evs if e["k"] in ("enter", "exit", "early", "fail") and (e["c"] in c["spec"]["mws"] or e["c"] in c["spec"]["handlers"])]
                    samples.append({"case": cid, "chain": orc.m.chain(hid), "request": req_brief(req), "observed_sequence": seq})
            elif prop == "C06":
                if not fails:
                    continue
                evals += 1
                for fe in fails:
                    k = orc._kind(fe["c"])
                    extra["failing_component_kinds"][k] = extra["failing_component_kinds"].get(k, 0) + 1
                    distinct.add((k, shape, len(orc.m.observers(hid))))
                if len(samples) < 4:
                    samples.append({"case": cid, "request": req_brief(req), "status": recs[i]["resp"]["status"], "body": recs[i]["resp"]["body"],
                                    "error_events": [e for e in evs if e["k"] == "fail" or e.get("err")][:8], "observers_expected": orc.m.observers(hid)})
    return evals, distinct, samples, extra


def bp_outline(bp):
    out = []
    for it in bp["items"]:
        if it[0] == "nest":
            out.append({"nest": it[1], "bp": bp_outline(it[2])})
        elif it[0] not in ("ctor", "eh"):
            out.append("%s:%s" % (it[0], it[1]))
    return out
