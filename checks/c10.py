"""C10: code generation is deterministic, cache-independent and idempotent; --check is exact and read-only.

Per accepted generated application, on its own slot workspace, a scripted history of pavexc *processes* (each draws fresh hash seeds and
rayon schedules) and cache states is executed; after every step the monitor records sha256 / mtime(ns) / inode of the generated files."""
import hashlib
import json
import os
import random
import re
import shutil
import threading
import time

from lib import vlib, e2e_env
from e2e import render, engine, gen, slots, plan as planmod

N_APPS = {"quick": 6, "thorough": 48}
K_PROCS = {"quick": 3, "thorough": 8}
FILES = ["sdk/Cargo.toml", "sdk/src/lib.rs", "diag.dot", "Cargo.toml"]


def snap(d):
    out = {}
    for rel in FILES:
        p = os.path.join(d, rel)
        try:
            st = os.stat(p)
            with open(p, "rb") as f:
                out[rel] = {"sha": hashlib.sha256(f.read()).hexdigest(), "mtime": st.st_mtime_ns, "ino": st.st_ino, "size": st.st_size}
        except FileNotFoundError:
            out[rel] = None
    return out


def shas(s):
    return {k: (v["sha"] if v else None) for k, v in s.items()}


def tree_snapshot(d):
    """Every file under the workspace except target/ and home/ (the docs cache): path -> (sha, mtime)."""
    out = {}
    for root, dirs, files in os.walk(d):
        dirs[:] = [x for x in dirs if not (root == d and x in ("target", "home", "home_cold", "home_ws"))]
        for fn in files:
            if root == d and fn == "Cargo.lock":
                # cargo itself (`cargo metadata` / `cargo rustdoc`, which pavexc spawns) re-syncs the workspace lock file
                # with the manifests; that is not pavexc modifying a file
                continue
            p = os.path.join(root, fn)
            try:
                st = os.stat(p)
                with open(p, "rb") as f:
                    out[os.path.relpath(p, d)] = (hashlib.sha256(f.read()).hexdigest(), st.st_mtime_ns)
            except FileNotFoundError:
                pass
    return out


class Script:
    def __init__(self, ctx, slot, case, tier, lock):
        self.ctx, self.slot, self.case, self.tier, self.lock = ctx, slot, case, tier, lock
        self.d = slots.slot_dir(slot)
        self.steps = []
        self.violations = []

    def viol(self, rule, detail, **sig):
        s = {"rule": rule}
        s.update(sig)
        self.violations.append((s, dict(detail, case=self.case["id"], steps=self.steps[-12:])))

    def pavexc(self, label, **kw):
        r = slots.run_pavexc(self.slot, **kw)
        self.steps.append({"step": label, "rc": r["rc"], "wall": round(r["wall"], 1)})
        return r

    def run(self):
        d = self.d
        slots.create_slot(self.slot)  # idempotent: brings the slot's static files (workspace manifest, driver) up to date
        slots.write_case(self.slot, self.case["spec"])
        ok, err = slots.build_app(self.slot)
        if not ok:
            return "generator_bug"
        # reset previous outputs so that the first run writes everything
        self.reset_outputs()
        r = self.pavexc("first")
        if r["rc"] != 0:
            return "not_accepted"
        s1 = snap(d)
        if any(s1[f] is None for f in FILES):
            self.viol("missing_output_file", {"snapshot": s1})
            return "ran"
        # --- idempotence: same inputs, same cache => no file is touched
        r = self.pavexc("rerun_unchanged")
        s2 = snap(d)
        if r["rc"] != 0:
            self.viol("rerun_failed", {"rc": r["rc"], "stderr": r["stderr"][-1500:]})
        for f in FILES:
            if s2[f] != s1[f]:
                what = "content" if (s2[f] or {}).get("sha") != s1[f]["sha"] else "mtime_or_inode"
                self.viol("rerun_touched_file", {"file": f, "before": s1[f], "after": s2[f]}, file=f, what=what)
        # --- determinism across processes: delete outputs, regenerate K times
        for k in range(K_PROCS[self.tier]):
            self.reset_outputs()
            r = self.pavexc("fresh_process_%d" % k)
            sk = snap(d)
            if r["rc"] != 0:
                self.viol("regeneration_failed", {"rc": r["rc"], "stderr": r["stderr"][-1500:]})
                continue
            for f in FILES:
                if shas(sk)[f] != shas(s1)[f]:
                    self.viol("nondeterministic_output", {"file": f, "diff": self.diff_hint(f, s1, sk)}, file=f, history="fresh_process")
        # --- cache histories
        histories = [("ws_cache_populate", {"PAVEXC_CACHE_WORKSPACE_PACKAGES": "true"}, None),
                     ("ws_cache_hit", {"PAVEXC_CACHE_WORKSPACE_PACKAGES": "true"}, None)]
        if self.tier == "thorough" or self.case.get("cold"):
            cold = os.path.join(d, "home_cold")
            shutil.rmtree(cold, ignore_errors=True)
            os.makedirs(cold)
            histories.append(("cold_cache", {}, cold))
            histories.append(("warm_after_cold", {}, cold))
        other = self.case.get("other_home")
        if other and os.path.isdir(other):
            histories.append(("cache_of_other_project", {}, other))
        for label, env, home in histories:
            self.reset_outputs()
            r = self.pavexc(label, extra_env=env, home=home, timeout=1800)
            sk = snap(d)
            if r["rc"] != 0:
                self.viol("regeneration_failed", {"history": label, "rc": r["rc"], "stderr": r["stderr"][-1500:]}, history=label)
                continue
            for f in FILES:
                if shas(sk)[f] != shas(s1)[f]:
                    self.viol("cache_dependent_output", {"file": f, "history": label, "diff": self.diff_hint(f, s1, sk)}, file=f, history=label)
        shutil.rmtree(os.path.join(d, "home_cold"), ignore_errors=True)
        base = snap(d)
        # --- --check right after a normal run: exit 0, nothing touched
        self.check_step("check_after_generate", expect_outdated=False)
        # --- (i) edit lib.rs
        lib = os.path.join(d, "sdk", "src", "lib.rs")
        with open(lib, "a") as f:
            f.write("\n// edited by the C10 monitor\n")
        self.check_step("check_after_lib_edit", expect_outdated=True)
        r = self.pavexc("normal_run_after_lib_edit")
        if shas(snap(d)) != shas(base):
            self.viol("normal_run_did_not_restore", {"after": shas(snap(d)), "want": shas(base)}, edit="lib_rs")
        # --- (iii) edit the generated manifest
        man = os.path.join(d, "sdk", "Cargo.toml")
        with open(man) as f:
            txt = f.read()
        lines = txt.splitlines(keepends=True)
        dep_lines = [i for i, l in enumerate(lines) if re.match(r"^(http|hyper|matchit|thiserror|serde) = ", l)]
        if dep_lines:
            del lines[dep_lines[0]]
            with open(man, "w") as f:
                f.write("".join(lines))
            self.check_step("check_after_manifest_edit", expect_outdated=True)
            self.pavexc("normal_run_after_manifest_edit")
            if shas(snap(d)) != shas(base):
                self.viol("normal_run_did_not_restore", {"after": shas(snap(d)), "want": shas(base)}, edit="manifest")
        # --- (ii) change the blueprint so that the output changes
        alt = self.case.get("alt_spec")
        if alt is not None:
            slots.write_case(self.slot, alt)
            ok, err = slots.build_app(self.slot)
            if ok:
                before = snap(d)
                outdated = self.check_step("check_after_blueprint_change", expect_outdated=None)
                r = self.pavexc("normal_run_after_blueprint_change")
                after = snap(d)
                changed = r["rc"] == 0 and any(shas(after)[f] != shas(before)[f] for f in ("sdk/Cargo.toml", "sdk/src/lib.rs"))
                if r["rc"] == 0 and outdated is not None and outdated != changed:
                    self.viol("check_verdict_differs_from_normal_run", {"check_said_outdated": outdated, "normal_run_changed_files": changed}, said=outdated)
                if r["rc"] == 0:
                    self.check_step("check_after_regenerate", expect_outdated=False)
                    # the bytes depend on the blueprint and the sources only, not on what was in the output directory before
                    over = shas(snap(d))
                    self.reset_outputs()
                    r2 = self.pavexc("pristine_run_of_changed_blueprint")
                    if r2["rc"] == 0:
                        fresh = shas(snap(d))
                        for f in FILES:
                            if over[f] != fresh[f]:
                                self.viol("output_depends_on_previous_output", {"file": f, "history": "blueprint_change"}, file=f, history="blueprint_change")
        self.workspace_member_history()
        if self.case.get("ext"):
            self.feature_history()
        return "ran"

    def workspace_member_history(self):
        """The workspace manifest is an output too: when the generated crate is not among the workspace members, a normal run
        adds it, so `--check` must report an outdated project (exit 1) without touching anything."""
        d = self.d
        root = os.path.join(d, "Cargo.toml")
        with open(root) as f:
            orig = f.read()
        edited = re.sub(r'"sdk",\s*', "", orig, count=1)
        if edited == orig:
            return
        try:
            with open(root, "w") as f:
                f.write(edited)
            before = tree_snapshot(d)
            r = self.pavexc("check_without_workspace_member", check=True)
            after = tree_snapshot(d)
            touched = sorted(k for k in set(before) | set(after) if before.get(k) != after.get(k))
            if touched:
                self.viol("check_modified_files", {"step": "check_without_workspace_member", "touched": touched[:10]}, step="check_without_workspace_member")
            if r["rc"] not in (0, 1):
                self.steps.append({"step": "check_without_workspace_member_abnormal", "rc": r["rc"]})
                return
            said_outdated = r["rc"] != 0
            r2 = self.pavexc("normal_run_without_workspace_member")
            after2 = tree_snapshot(d)
            changed = sorted(k for k in set(after) | set(after2) if after.get(k) != after2.get(k) and (k == "Cargo.toml" or k.startswith("sdk/")))
            if r2["rc"] == 0 and said_outdated != bool(changed):
                self.viol("check_verdict_differs_from_normal_run", {"step": "without_workspace_member", "check_said_outdated": said_outdated,
                                                                   "normal_run_changed": changed}, said=said_outdated, step="without_workspace_member")
        finally:
            with open(root, "w") as f:
                f.write(orig)

    def feature_history(self):
        """Cache history over cargo features: a path dependency outside the workspace (its docs are cached like a third-party
        crate's) changes a constructor's signature with a feature; off -> on -> off -> on with one cache must reproduce the
        bytes of the first off / first on run."""
        d = self.d
        tdir = os.path.join(os.path.dirname(os.path.abspath(slots.__file__)), "templates", "extdep")
        ext = os.path.join(d, "extdep")
        shutil.rmtree(ext, ignore_errors=True)
        shutil.copytree(tdir, ext)
        with open(os.path.join(ext, "Cargo.toml")) as f:
            t = f.read().replace("@REPO@", vlib.REPO)
        with open(os.path.join(ext, "Cargo.toml"), "w") as f:
            f.write(t)
        lib = os.path.join(d, "app", "src", "lib.rs")
        with open(lib) as f:
            src = f.read()
        add = ('\n#[pavex::get(path = "/extdep-probe", id = "H_EXT")]\npub fn h_ext(c: &extdep::ExtClient, _x: &extdep::ExtExtra) -> Response {\n'
               '    text_response(200, format!("EXT={}", c.with_cfg))\n}\n')
        head, sep, tail = src.rpartition("    bp\n}")
        src2 = head + "    bp.constructor(extdep::EXT_CFG);\n    bp.constructor(extdep::EXT_CLIENT);\n    bp.constructor(extdep::EXT_EXTRA);\n    bp.route(H_EXT);\n" + sep + tail + add
        with open(lib, "w") as f:
            f.write(src2)
        seen = {}
        # a copy of the docs cache taken before `extdep` was ever documented: the reference for "features on" must not be
        # able to see documentation produced with the other feature set
        pristine = os.path.join(d, "home_ws")
        shutil.rmtree(pristine, ignore_errors=True)
        shutil.copytree(os.path.join(d, "home"), pristine)
        try:
            for step, feats in (("features_off_1", []), ("features_on_1", ["extra"]), ("features_on_reference_pristine_cache", ["extra"]),
                                ("features_off_2", []), ("features_on_2", ["extra"])):
                toml = e2e_env.app_toml((render._dep(self.case["spec"]) or {}).get("alias")) + 'extdep = { path = "../extdep", features = [%s] }\n' % ", ".join('"%s"' % x for x in feats)
                with open(os.path.join(d, "app", "Cargo.toml"), "w") as f:
                    f.write(toml)
                ok, err = slots.build_app(self.slot)
                if not ok:
                    self.steps.append({"step": step, "generator_bug": err[-400:]})
                    return
                self.reset_outputs()
                r = self.pavexc(step, timeout=1800, home=pristine if "pristine" in step else None)
                if r["rc"] != 0:
                    self.steps.append({"step": step + "_not_accepted", "stderr": r["stderr"][-600:]})
                    return
                key = "on" if feats else "off"
                sk = shas(snap(d))
                if key in seen:
                    for f in ("sdk/Cargo.toml", "sdk/src/lib.rs", "diag.dot"):
                        if sk[f] != seen[key][f]:
                            self.viol("cache_dependent_output", {"file": f, "history": "feature_" + key + "_after_other_feature_set"}, file=f, history="cargo_features")
                else:
                    seen[key] = sk
            if seen.get("on") and seen.get("off") and seen["on"]["sdk/src/lib.rs"] == seen["off"]["sdk/src/lib.rs"]:
                self.steps.append({"step": "feature_history_indistinguishable"})
            self.included_file_history(ext, pristine)
            # a generation over outputs that name another set of crates: the application without `extdep` again
            with open(os.path.join(d, "app", "Cargo.toml"), "w") as f:
                f.write(e2e_env.app_toml((render._dep(self.case["spec"]) or {}).get("alias")))
            with open(lib, "w") as f:
                f.write(src)
            ok, err = slots.build_app(self.slot)
            if ok:
                r = self.pavexc("original_over_extdep_outputs")
                over = shas(snap(d))
                self.reset_outputs()
                r2 = self.pavexc("original_pristine")
                fresh = shas(snap(d))
                if r["rc"] == 0 and r2["rc"] == 0:
                    for f in FILES:
                        if over[f] != fresh[f]:
                            self.viol("output_depends_on_previous_output", {"file": f, "history": "other_crate_set"}, file=f, history="other_crate_set")
        finally:
            with open(os.path.join(d, "app", "Cargo.toml"), "w") as f:
                f.write(e2e_env.app_toml((render._dep(self.case["spec"]) or {}).get("alias")))
            shutil.rmtree(ext, ignore_errors=True)
            shutil.rmtree(pristine, ignore_errors=True)
            # the generated manifest depends on `extdep`: leave a neutral SDK behind for whoever uses the slot next
            self.reset_outputs()

    def included_file_history(self, ext, pristine):
        """Part of the dependency's API lives in a file that is not a `.rs` file (`include!("api.in")`): editing only that file
        must invalidate what the documentation cache holds for the crate. Reference: the same sources with a cache that has
        never seen the crate."""
        d = self.d
        inc = os.path.join(ext, "src", "api.in")
        if not os.path.exists(inc):
            return
        with open(inc) as f:
            txt = f.read()
        if "pub fn ext_extra()" not in txt:
            return
        ok, err = slots.build_app(self.slot)
        if not ok:
            return
        self.reset_outputs()
        r = self.pavexc("included_file_before_edit", timeout=1800)
        if r["rc"] != 0:
            return
        with open(inc, "w") as f:
            f.write(txt.replace("pub fn ext_extra()", "pub async fn ext_extra()"))
        ok, err = slots.build_app(self.slot)
        if not ok:
            self.steps.append({"step": "included_file_edit_generator_bug", "err": err[-300:]})
            return
        self.reset_outputs()
        r = self.pavexc("included_file_after_edit_warm_cache", timeout=1800)
        warm = shas(snap(d))
        self.reset_outputs()
        r2 = self.pavexc("included_file_after_edit_pristine_cache", timeout=1800, home=pristine)
        cold = shas(snap(d))
        if r["rc"] == 0 and r2["rc"] == 0:
            for f in ("sdk/Cargo.toml", "sdk/src/lib.rs", "diag.dot"):
                if warm[f] != cold[f]:
                    self.viol("cache_dependent_output", {"file": f, "history": "included_non_rs_file_edited"}, file=f, history="included_file")
            self.steps.append({"step": "included_file_history", "await_in_output": ".await" in open(os.path.join(d, "sdk", "src", "lib.rs")).read()})

    def reset_outputs(self):
        """Put the SDK back to an empty placeholder crate (cargo metadata needs the workspace member to exist) and drop the
        diagnostics file, so that the next run has to write every output from scratch."""
        d = self.d
        with open(os.path.join(d, "sdk", "Cargo.toml"), "w") as f:
            f.write(slots.PLACEHOLDER_SDK_TOML)
        with open(os.path.join(d, "sdk", "src", "lib.rs"), "w") as f:
            f.write("")
        try:
            os.remove(os.path.join(d, "diag.dot"))
        except FileNotFoundError:
            pass

    def check_step(self, label, expect_outdated):
        d = self.d
        before = tree_snapshot(d)
        strace_out = None
        if self.tier == "thorough" and label == "check_after_lib_edit":
            strace_out = os.path.join(d, "strace_check.txt")
        r = self.pavexc(label, check=True, strace_out=strace_out)
        after = tree_snapshot(d)
        if strace_out:
            after.pop("strace_check.txt", None)
            self.audit_strace(strace_out)
        touched = sorted(k for k in set(before) | set(after) if before.get(k) != after.get(k))
        if touched:
            self.viol("check_modified_files", {"step": label, "touched": touched[:10]}, step=label)
        outdated = r["rc"] != 0
        if r["rc"] not in (0, 1):
            self.viol("check_abnormal_exit", {"step": label, "rc": r["rc"], "stderr": r["stderr"][-1500:]}, step=label)
            return None
        if expect_outdated is not None and outdated != expect_outdated:
            self.viol("check_wrong_verdict", {"step": label, "rc": r["rc"], "expected_outdated": expect_outdated, "stderr": r["stderr"][-1200:]}, step=label)
        return outdated

    def audit_strace(self, path):
        """No write-mode open / rename / unlink under the workspace outside target/ and the docs cache during --check."""
        d = self.d
        bad = []
        try:
            with open(path) as f:
                for line in f:
                    if d not in line:
                        continue
                    m = re.search(r'"(%s[^"]*)"' % re.escape(d), line)
                    if not m:
                        continue
                    p = m.group(1)
                    rel = os.path.relpath(p, d)
                    if rel.startswith(("target", "home")) or rel == "strace_check.txt":
                        continue
                    is_write = ("O_WRONLY" in line or "O_RDWR" in line or "O_CREAT" in line or "O_TRUNC" in line
                                or re.search(r"\b(rename|renameat|renameat2|unlink|unlinkat|truncate|creat)\(", line))
                    if is_write and "= -1" not in line:
                        bad.append(line.strip()[:240])
        except FileNotFoundError:
            return
        finally:
            try:
                os.remove(path)
            except FileNotFoundError:
                pass
        self.steps.append({"step": "strace_audit", "write_syscalls_under_workspace": len(bad)})
        if bad:
            self.viol("check_performed_write_syscalls", {"syscalls": bad[:8]})

    def diff_hint(self, f, a, b):
        return {"size_a": (a[f] or {}).get("size"), "size_b": (b[f] or {}).get("size")}


def alt_of(spec, rng):
    """A variant of the application whose generated code differs: drop one route."""
    import copy
    alt = copy.deepcopy(spec)

    def drop(bp):
        for it in list(bp["items"]):
            if it[0] == "route":
                bp["items"].remove(it)
                alt["handlers"].pop(it[1], None)
                return True
            if it[0] == "nest" and drop(it[2]):
                return True
        return False
    if len(alt["handlers"]) >= 2 and drop(alt["bp"]):
        return alt
    return None


def run(ctx):
    n_slots = e2e_env.N_SLOTS
    slots.ensure_slots(n_slots)
    e2e_env.build_pavexc()
    # the primitive every generated file goes through ("write only if the content differs"), driven in-process over
    # old-content/new-content histories of all sizes around the block sizes of a streaming checksum
    bindir = vlib.build_harness("persist")
    persist = vlib.run_harness_bin(ctx, bindir, "persist", ["--seed", ctx.seed, "--tier", ctx.tier], timeout=900)
    cases = []
    i = 0
    while len(cases) < N_APPS[ctx.tier]:
        rng = random.Random("c10-%d-%d" % (ctx.seed, i))
        i += 1
        # many same-kind elements, several fallible singletons, constructors sharing a function name across modules:
        # the places where iteration order of an unordered table could reach the output
        # (and several prebuilt types / configuration entries: the fields of `ApplicationConfig` and the parameters of
        # `ApplicationState::new` are generated from unordered tables too)
        kn = gen.Knobs(avoid_known=True, n_types=(8, 14), n_handlers=(5, 9), n_mws=(3, 7), p_modules=0.9, p_fallible_ctor=0.45,
                       p_state_inputs=1.0 if len(cases) % 2 == 0 else 0.5, p_input_each=0.9 if len(cases) % 2 == 0 else 0.45)
        spec = gen.gen_inclass(rng, kn)
        cases.append({"id": "det-%d-%d" % (ctx.seed, i - 1), "spec": spec, "alt_spec": alt_of(spec, rng), "shape": gen.shape_signature(spec),
                      "cold": (len(cases) == 0), "ext": (len(cases) in (1, 2) or ctx.tier == "thorough")})
    lock = threading.Lock()
    results = {}
    import queue
    q = queue.Queue()
    for c in cases:
        q.put(c)

    def worker(slot):
        while True:
            try:
                c = q.get_nowait()
            except queue.Empty:
                return
            # the docs cache of another slot = "other projects populated the cache"
            c["other_home"] = os.path.join(slots.slot_dir((slot + 1) % n_slots), "home") if ctx.tier == "thorough" else None
            s = Script(ctx, slot, c, ctx.tier, lock)
            try:
                with engine.SlotLock(slot):
                    status = s.run()
            except Exception as e:
                status = "harness_error: %r" % (e,)
            with lock:
                results[c["id"]] = (status, s)
                vlib.log("[C10] %d/%d %s -> %s (%d steps)" % (len(results), len(cases), c["id"], status, len(s.steps)))

    ths = [threading.Thread(target=worker, args=(k,)) for k in range(n_slots)]
    for t in ths:
        t.start()
    for t in ths:
        t.join()
    evals = 0
    distinct = set()
    samples = []
    statuses = {}
    step_kinds = {}
    for c in cases:
        status, s = results[c["id"]]
        statuses[status] = statuses.get(status, 0) + 1
        if status != "ran":
            ctx.inconc("case not usable for C10: %s" % status, {"case": c["id"]})
            continue
        for st in s.steps:
            step_kinds[st["step"].rstrip("0123456789_")] = step_kinds.get(st["step"].rstrip("0123456789_"), 0) + 1
        evals += len(s.steps)
        spec = c["spec"]
        n_single = sum(1 for t in spec["types"].values() if t["lc"] == "singleton")
        if n_single >= 2 and len(spec["handlers"]) >= 2:
            distinct.add(c["shape"])
        for (sig, detail) in s.violations:
            detail["spec"] = spec
            ctx.violation(sig, detail)
        if len(samples) < 2:
            samples.append({"case": c["id"], "n_types": len(spec["types"]), "n_routes": len(spec["handlers"]), "steps": s.steps})
    cov = {"evaluations": evals, "distinct_nontrivial": len(distinct), "samples": samples, "case_statuses": statuses, "pavexc_processes_by_step": step_kinds,
           "processes_per_app_fresh": K_PROCS[ctx.tier],
           "persist_if_changed_histories": {k: v for k, v in (persist[0] if persist else {}).items() if k in ("evaluations", "unchanged_histories", "same_size_changes", "violations_total")},
           "rule": "cases = accepted generated applications; per application a scripted history of pavexc processes (fresh outputs x K processes, workspace-package cache on/off, "
                   "cold isolated cache, cache of another project, --check after no change / lib.rs edit / manifest edit / blueprint change); evaluations = pavexc processes observed; "
                   "distinct = shape hash; non-trivial = >= 2 singletons and >= 2 routes (collections whose iteration order could leak)"}
    ctx.finish(cov, assumptions=["sha256 equality of the four generated files is the observable of determinism", "mtime(ns)+inode equality is the observable of 'no file modified'",
                                 "every pavexc run is a separate OS process (fresh ahash keys, fresh rayon pool)"])
