"""C19 - What you register is what the compiler sees.

(a) Blueprint round trip. `harness/bpschema/c19_gen.py` generates Rust source performing N random call
    sequences on the public `pavex::Blueprint` API (one function per sequence, every call at a known
    line/column), compiled into `bpgen`, which persists every blueprint with `Blueprint::persist`.
    `bpdump` (a separate process, like the compiler) reads each RON file back with
    `ron::de::from_reader::<pavex_bp_schema::Blueprint>` -- the two lines `pavexc_cli` uses -- and dumps it
    field by field. The oracle here compares the dump with the expectation computed from the call
    sequence: components in order, nesting, prefixes, domains, lifecycles, cloning, lints, error handlers
    and every `Location` (= line/column of the call in the generated file).

(b) Attributes. A generated lib crate with every legal combination of attribute arguments is documented
    with `cargo +nightly rustdoc --output-format json`; `attrdump` loads the JSON with the repo's
    `rustdoc_types` and feeds each item's attributes to `pavexc_attr_parser::parse` exactly like
    `pavexc_annotations::parse_pavex_attributes`; the parsed model is compared per item with the
    expectation derived from the attribute text (and the macro rustdoc). The same items are then pushed
    through `pavexc_annotations::process_queue` (the compiler's collection step): each must be collected.
"""
import hashlib
import json
import os
import re
import shutil
import sys
import time

from lib import vlib

CRATE_DIR = os.environ.get("C19_CRATE_DIR", os.path.join(vlib.HARNESS, "bpschema"))
sys.path.insert(0, CRATE_DIR)
import c19_gen as G  # noqa: E402
import c19_attrs as A  # noqa: E402

GEN_DIR = os.environ.get("C19_GEN_DIR_OVERRIDE", os.path.join(vlib.BUILD, "c19-gen"))


_SEEN_SIGS = {}


def record_violation(ctx, sig, detail):
    """One witness per signature is recorded (first one), the rest is only counted."""
    k = json.dumps(sig, sort_keys=True)
    _SEEN_SIGS[k] = _SEEN_SIGS.get(k, 0) + 1
    if _SEEN_SIGS[k] == 1:
        ctx.violation(sig, detail)


def write_if_changed(path, text):
    """cargo tracks `include!`d files by mtime: leave the file alone when the content is identical."""
    try:
        if open(path).read() == text:
            return False
    except OSError:
        pass
    os.makedirs(os.path.dirname(path), exist_ok=True)
    tmp = path + ".tmp"
    with open(tmp, "w") as f:
        f.write(text)
    os.replace(tmp, path)
    return True


def pavex_version():
    txt = open(os.path.join(vlib.REPO, "Cargo.toml")).read()
    m = re.search(r"\[workspace\.package\][^\[]*?^version\s*=\s*\"([^\"]+)\"", txt, re.S | re.M)
    if not m:
        raise vlib.HarnessError("cannot find the workspace version in %s/Cargo.toml" % vlib.REPO)
    return m.group(1)


def build_crate():
    """vlib.build_harness, or (mutation sanity: C19_CRATE_DIR points at a copy) the same command by hand."""
    os.environ["C19_GEN_DIR"] = GEN_DIR
    if "C19_CRATE_DIR" not in os.environ:
        return vlib.build_harness("bpschema")
    lock = os.path.join(CRATE_DIR, "Cargo.lock")
    if not os.path.exists(lock):
        shutil.copy(os.path.join(vlib.REPO, "Cargo.lock"), lock)
    tdir = vlib.harness_target_dir()
    env = vlib.base_env({"CARGO_TARGET_DIR": tdir, "RUSTFLAGS": vlib.GUARD_RUSTFLAGS})
    t0 = time.time()
    rc, out, err, to = vlib.run(["cargo", "build", "--offline", "--profile", "verif"], cwd=CRATE_DIR, env=env, timeout=3600)
    if rc != 0:
        raise vlib.HarnessError("harness build failed:\n%s" % err[-6000:])
    vlib.log("[build] bpschema (copy) built in %.1fs" % (time.time() - t0))
    return os.path.join(tdir, "verif")


# ------------------------------------------------------------------------------------------ part (a)

def run_batch(ctx, batch_seed, n, only=None):
    """Generate, compile, run, read back and compare one batch. Returns a dict of observations."""
    seqs_path = os.path.join(GEN_DIR, "seqs.rs")
    pkgv = {"pool": (G.POOL_PKG, G.POOL_VERSION), "pavex": ("pavex", pavex_version())}
    text, seqs, stats = G.generate_sequences(batch_seed, n, seqs_path, pkgv)
    write_if_changed(os.path.join(GEN_DIR, "pool.rs"), G.POOL_SRC)
    write_if_changed(seqs_path, text)
    t0 = time.time()
    bindir = build_crate()
    build_s = time.time() - t0
    out_dir = os.path.join(GEN_DIR, "out")
    shutil.rmtree(out_dir, ignore_errors=True)
    os.makedirs(out_dir)
    rc, out, err, to = vlib.run([os.path.join(bindir, "bpgen"), out_dir], env=vlib.base_env(), timeout=600)
    gen_recs = {r["i"]: r for r in vlib.parse_jsonl(out) if "i" in r}
    if len(gen_recs) != n:
        raise vlib.HarnessError("bpgen reported %d of %d sequences (rc=%s):\n%s" % (len(gen_recs), n, rc, err[-2000:]))
    rc, out, err, to = vlib.run([os.path.join(bindir, "bpdump"), out_dir, str(n)], env=vlib.base_env(), timeout=600)
    dump_recs = {r["i"]: r for r in vlib.parse_jsonl(out) if "i" in r}
    if len(dump_recs) != n:
        raise vlib.HarnessError("bpdump reported %d of %d blueprints (rc=%s):\n%s" % (len(dump_recs), n, rc, err[-2000:]))
    obs = {"evaluations": 0, "distinct": set(), "stats": stats, "build_s": build_s, "max_depth": 0,
           "components_compared": 0, "locations_compared": 0, "samples": [], "string_classes": set()}
    for s in seqs:
        if only is not None and s["i"] != only:
            continue
        i = s["i"]
        obs["evaluations"] += 1
        obs["max_depth"] = max(obs["max_depth"], s["max_depth"])
        obs["string_classes"].update(s["classes"])
        base_detail = {"batch_seed": batch_seed, "n": n, "i": i, "source": s["source"], "module": s["module"]}
        g, d = gen_recs[i], dump_recs[i]
        if "panic" in g:
            record_violation(ctx, {"kind": "panic", "where": "blueprint_api", "message": g["panic"][:80]}, dict(base_detail, bpgen=g))
            continue
        if "persist_error" in g:
            record_violation(ctx, {"kind": "persist_error", "message": g["persist_error"][:80]}, dict(base_detail, bpgen=g))
            continue
        if "panic" in d:
            record_violation(ctx, {"kind": "panic", "where": "ron_read_back", "string_classes": s["classes"]}, dict(base_detail, bpdump=d))
            continue
        if "error" in d:
            record_violation(ctx, {"kind": "read_back_error", "string_classes": s["classes"],
                           "message": re.sub(r"\d+", "N", d["error"])[:60]}, dict(base_detail, bpdump=d))
            continue
        diff = G.first_diff(s["expected"], d["bp"])
        nc, nl = count_tree(s["expected"])
        obs["components_compared"] += nc
        obs["locations_compared"] += nl
        if diff:
            path, e, got = diff
            sig = {"kind": "schema_mismatch", "field": G.generic_path(path)}
            if isinstance(e, str) and isinstance(got, str) and path.endswith(".value"):
                if classify_string(got) == "other":  # the string itself was altered on the way
                    sig["string_class"] = classify_string(e)
                else:  # a different (earlier/later) call's argument surfaced
                    sig["got"] = "argument_of_another_call"
            record_violation(ctx, sig, dict(base_detail, path=path, expected=e, got=got))
            continue
        if s["n_ops"] >= 3:
            obs["distinct"].add(s["shape"])
        if len(obs["samples"]) < 3 and s["n_ops"] >= 6 and i % 37 == 5:
            obs["samples"].append({"batch_seed": batch_seed, "i": i, "source": s["source"][:1500],
                                   "components_at_top": len(s["expected"]["components"]), "max_depth": s["max_depth"]})
    return obs


def classify_string(s):
    for v, cls in G.PREFIXES + G.DOMAINS:
        if v == s:
            return cls
    return "other"


def count_tree(bp):
    """(components, locations) in an expected blueprint tree."""
    nc, nl = 0, 1
    for c in bp["components"]:
        nc += 1
        nl += 1
        if c.get("error_handler"):
            nl += 1
        if c["kind"] == "nested":
            a, b = count_tree(c["blueprint"])
            nc += a
            nl += b + (1 if c["path_prefix"] else 0) + (1 if c["domain"] else 0)
    return nc, nl


# ------------------------------------------------------------------------------------------ part (b)

def run_attrs(ctx, seed, bindir):
    """Generate the attribute crate, document it as rustdoc JSON, parse, compare."""
    crate_dir = os.path.join(GEN_DIR, "attrs")
    src, expected, astats = A.generate(seed, ctx.tier)
    cargo_toml = A.CARGO_TOML.replace("@REPO@", vlib.REPO)
    write_if_changed(os.path.join(crate_dir, "Cargo.toml"), cargo_toml)
    write_if_changed(os.path.join(crate_dir, "src", "lib.rs"), src)
    lock = os.path.join(crate_dir, "Cargo.lock")
    if not os.path.exists(lock):
        shutil.copy(os.path.join(vlib.REPO, "Cargo.lock"), lock)
    tdir = os.environ.get("C19_ATTRS_TARGET", os.path.join(GEN_DIR, "attrs-target"))
    env = vlib.base_env({"CARGO_TARGET_DIR": tdir})
    env.pop("RUSTFLAGS", None)
    env.setdefault("CARGO_BUILD_JOBS", "6")
    json_path = os.path.join(tdir, "doc", "c19attrs.json")
    try:
        os.remove(json_path)
    except OSError:
        pass
    t0 = time.time()
    rc, out, err, to = vlib.run(["cargo", "+nightly", "rustdoc", "--offline", "--lib", "--", "-Zunstable-options",
                                 "--output-format", "json", "--document-private-items"],
                                cwd=crate_dir, env=env, timeout=1800)
    doc_s = time.time() - t0
    if rc != 0 or not os.path.exists(json_path):
        # The generated crate only contains combinations that the macro rustdoc / macro sources call legal:
        # a compile error is a generator problem unless the message comes out of a pavex macro.
        raise vlib.HarnessError("rustdoc JSON generation failed (rc=%s):\n%s" % (rc, err[-6000:]))
    rc, out, err, to = vlib.run([os.path.join(bindir, "attrdump"), json_path], env=vlib.base_env(), timeout=300)
    recs = vlib.parse_jsonl(out)
    if rc != 0 or not recs:
        raise vlib.HarnessError("attrdump failed rc=%s:\n%s" % (rc, err[-3000:]))
    if recs[0].get("format_version") != recs[0].get("expected"):
        ctx.inconc("rustdoc JSON format mismatch", recs[0])
    by_key, registered, collect_errors = {}, {}, []
    for r in recs[1:]:
        if "key" in r:
            by_key.setdefault(r["key"], []).append(r)
        elif "registered" in r:
            registered.setdefault(r["registered"], []).append(r)
        elif "collect_error" in r or "collect_panic" in r:
            collect_errors.append(r)
    obs = {"evaluations": 0, "distinct": set(), "stats": astats, "doc_s": doc_s, "samples": [],
           "by_kind": {}, "items_in_json": len(recs) - 1}
    for key, e in expected.items():
        obs["evaluations"] += 1
        got = by_key.get(key, [])
        detail = {"item": key, "attribute": e["attr"], "expected": e["model"], "class": e["cls"]}
        if len(got) != 1:
            ctx.inconc("item not found (or ambiguous) in the rustdoc JSON", {"key": key, "hits": len(got)})
            continue
        r = got[0]
        detail["rustdoc_attrs"] = r.get("attrs")
        if "panic" in r:
            record_violation(ctx, {"kind": "panic", "where": "attr_parser", "macro": e["macro"], "class": e["cls"]}, dict(detail, observed=r))
            continue
        if "error" in r:
            if str(e["cls"]).startswith("undocumented:"):
                # Adjudicated by the lead: an argument the macro happens to accept but that is not in its documented
                # argument table is not a "legal combination of attribute arguments"; the parser rejecting it is
                # recorded as an observation only.
                obs.setdefault("undocumented_arguments_rejected_by_parser", []).append({"macro": e["macro"], "class": e["cls"], "error": str(r.get("error"))[:200]})
                continue
            record_violation(ctx, {"kind": "attr_parse_error", "macro": e["macro"], "class": e["cls"]}, dict(detail, observed=r))
            continue
        diff = A.compare(e["model"], r["parsed"])
        if diff:
            record_violation(ctx, {"kind": "attr_mismatch", "macro": e["macro"], "field": diff[0]},
                          dict(detail, observed=r["parsed"], field=diff[0], want=diff[1], got=diff[2]))
            continue
        # one step further, the compiler's own collection of annotated items (`process_queue`): the item must
        # be collected, with the same properties. (`#[pavex::methods]` on impl blocks is only a marker.)
        if e["model"]["kind"] != "methods":
            reg = registered.get(key, [])
            item_kind = key.split(":")[0]
            if not reg:
                record_violation(ctx, {"kind": "annotation_not_collected", "annotation": e["model"]["kind"], "item_kind": item_kind},
                                 dict(detail, parsed=r["parsed"], note="parsed fine, but absent from the output of "
                                      "pavexc_annotations::process_queue and no error was reported for it"))
                continue
            d2 = A.compare(e["model"], reg[0]["parsed"])
            if d2:
                record_violation(ctx, {"kind": "collected_annotation_mismatch", "macro": e["macro"], "field": d2[0]},
                                 dict(detail, observed=reg[0]["parsed"]))
                continue
            obs["collected"] = obs.get("collected", 0) + 1
        obs["by_kind"][e["model"]["kind"]] = obs["by_kind"].get(e["model"]["kind"], 0) + 1
        obs["distinct"].add(hashlib.sha256(("%s|%s" % (e["macro"], e["cls"])).encode()).hexdigest()[:16])
        if len(obs["samples"]) < 3 and obs["evaluations"] % 61 == 7:
            obs["samples"].append({"item": key, "attribute": e["attr"], "rustdoc_attrs": r.get("attrs"), "parsed": r["parsed"]})
    for ce in collect_errors:
        if "collect_panic" in ce:
            record_violation(ctx, {"kind": "panic", "where": "process_queue"}, ce)
        else:
            # every generated item is legal: an error from the collection step is unexpected
            record_violation(ctx, {"kind": "collect_error", "error": re.sub(r"[^A-Za-z]+", " ", ce["collect_error"])[:40]}, ce)
    # items carrying a pavex diagnostic attribute that the generator did not plan for would mean the keys drifted
    for key, rs in by_key.items():
        for r in rs:
            if r.get("parsed") and key not in expected and not key.startswith("impl:"):
                ctx.inconc("unexpected annotated item in rustdoc JSON", {"key": key})
    return obs


# ------------------------------------------------------------------------------------------ entry

def run(ctx):
    os.makedirs(GEN_DIR, exist_ok=True)
    if ctx.replay:
        rep = json.load(open(ctx.replay))
        d = rep["detail"]
        if "batch_seed" in d:
            obs = run_batch(ctx, d["batch_seed"], d["n"], only=d["i"])
            ctx.finish({"evaluations": obs["evaluations"], "distinct_nontrivial": len(obs["distinct"])}, [], require_nontrivial=False)
        else:
            write_if_changed(os.path.join(GEN_DIR, "pool.rs"), G.POOL_SRC)
            if not os.path.exists(os.path.join(GEN_DIR, "seqs.rs")):
                run_batch(ctx, ctx.seed, 1)
            obs = run_attrs(ctx, rep.get("seed", ctx.seed), build_crate())
            ctx.finish({"evaluations": obs["evaluations"], "distinct_nontrivial": len(obs["distinct"])}, [], require_nontrivial=False)
        return
    if ctx.quick:
        batches = [(ctx.seed * 1000 + b, 750) for b in (1, 2)]
    else:
        batches = [(ctx.seed * 1000 + b, 3000) for b in range(1, 17)]
    tot = {"evaluations": 0, "distinct": set(), "stats": {}, "build_s": [], "max_depth": 0, "components_compared": 0,
           "locations_compared": 0, "samples": [], "string_classes": set()}
    # the attribute crate goes first in the thorough tier? No: (a) first, its binary build also provides attrdump.
    for bseed, n in batches:
        o = run_batch(ctx, bseed, n)
        tot["evaluations"] += o["evaluations"]
        tot["distinct"].update(o["distinct"])
        for k, v in o["stats"].items():
            tot["stats"][k] = tot["stats"].get(k, 0) + v
        tot["build_s"].append(round(o["build_s"], 1))
        tot["max_depth"] = max(tot["max_depth"], o["max_depth"])
        tot["components_compared"] += o["components_compared"]
        tot["locations_compared"] += o["locations_compared"]
        tot["samples"] += o["samples"]
        tot["string_classes"].update(o["string_classes"])
    bindir = build_crate()
    a = run_attrs(ctx, ctx.seed, bindir)
    coverage = {
        "evaluations": tot["evaluations"] + a["evaluations"],
        "distinct_nontrivial": len(tot["distinct"]) + len(a["distinct"]),
        "rule": "(a) one evaluation = one generated call sequence on `pavex::Blueprint` (10-35 calls: every registration "
                "method, post-registration modifiers incl. repeated/overriding ones, prefix/domain chains, nesting to depth 5, "
                "method-call and path-call syntax, random line/column layout) persisted - over a file that already holds another persisted "
                "blueprint (a neighbouring sequence, longer or shorter) or, every fourth time, the same one - and read back by a second process; "
                "distinct = sequence of (op, modifier, string class, nesting) with >= 3 ops that round-tripped equal to the "
                "expectation. (b) one evaluation = one annotated item whose attributes went macro -> rustdoc JSON -> "
                "pavexc_attr_parser; distinct = (macro, argument combination class)",
        "blueprint_round_trip": {
            "sequences": tot["evaluations"], "distinct_shapes": len(tot["distinct"]),
            "components_compared": tot["components_compared"], "locations_compared": tot["locations_compared"],
            "max_nesting_depth": tot["max_depth"], "string_classes_in_prefix_domain": sorted(tot["string_classes"]),
            "op_counts": tot["stats"], "batch_build_seconds": tot["build_s"],
        },
        "attributes": {
            "items": a["evaluations"], "distinct_combination_classes": len(a["distinct"]), "parsed_ok_by_kind": a["by_kind"],
            "generator_counts": a["stats"], "collected_by_process_queue": a.get("collected", 0), "rustdoc_seconds": round(a["doc_s"], 1), "items_with_attrs_in_json": a["items_in_json"],
        },
        "violating_cases_by_sig": dict(_SEEN_SIGS),
        "samples": tot["samples"][:3] + a["samples"][:3],
    }
    ctx.finish(coverage, assumptions=[
        "`#[track_caller]` semantics of rustc: a method call reports the position of the method name, a path call the "
        "start of the path expression; columns count characters (validated on a hand-written probe)",
        "the expected schema is computed from the call sequence and the rustdoc of `Blueprint` (last modifier wins, "
        "registration order preserved, `prefix(..).routes(..)` = nesting a fresh blueprint holding the routes import)",
        "bpdump/attrdump write the observed structs out by hand (no Serialize derive of the code under test involved)",
        "the installed `nightly` toolchain emits rustdoc JSON format 57 = /repo/rustdoc/rustdoc_types::FORMAT_VERSION",
        "attribute expectations: flags absent and `Some(false)`/`None` are treated as equivalent (not allowed / not set)",
    ])
