"""C17 - the type algebra used for dependency matching obeys its laws.

Runtime monitoring of the public API of `rustdoc_ir` (`is_a_template_for`,
`bind_generic_type_parameters`, `is_equivalent_to`, `canonicalize`, `render_type`/`syn_type`)
under generated pairs of types; the oracle is the harness's own AST (harness/typealg/src/ast.rs).
"""
import os

from lib import vlib

RULE = (
    "A seeded generator builds rustdoc_ir types of depth <= 4 (paths with type/lifetime/const "
    "arguments from 5 packages, references, tuples, slices, arrays, raw and fn pointers, scalars, "
    "generic parameters, type aliases); each is paired with a partner obtained by one of 25 mutation "
    "operators (bijective / merging / splitting renamings, lifetime changes, mutability flips, scalar, "
    "array length, tuple order, path, ABI..., substitution of a parameter, abstraction of a sub-term), "
    "with an instance obtained by substituting every parameter, and with a template obtained by "
    "abstracting sub-terms into fresh parameters; plus every unordered pair of ALL types of depth <= 2 "
    "over a reduced alphabet. A case is non-trivial when its first type has depth >= 2 and contains a "
    "generic parameter or a reference; two cases are distinct when the constructor skeletons of the "
    "two types or the mutation operator differ (hash of skeleton(x)|skeleton(y)|operator)."
)

ASSUMPTIONS = [
    "the harness's own AST, its exact first-order matcher and its positional-renaming comparison "
    "(harness/typealg/src/ast.rs) are the reference for 'equal up to lifetimes / up to a bijective renaming'",
    "the harness's independent pretty-printer spells Rust type syntax correctly (checked at run time: its "
    "output must parse with syn, otherwise the case is inconclusive); syn 2 is trusted as the parser",
    "template laws are asserted only when template and target share no parameter name (the property "
    "speaks of a concrete target; targets with parameters are renamed apart); shared-name anomalies are "
    "recorded under observations.out_of_scope/*, never as a verdict",
    "'up to lifetime names' is read as: lifetimes do not take part in the comparison; pairs that differ "
    "only in 'static versus non-'static are counted (observations.template/roundtrip_equal_but_static_"
    "vs_nonstatic_lifetime), not flagged (pass --strict-lifetimes to the harness to flag them)",
    "display_for_error is formatting for error messages, not 'Rust source': observed, not asserted",
]


def run(ctx):
    bindir = vlib.build_harness("typealg")
    cpus = os.cpu_count() or 4
    threads = max(2, min(4, cpus)) if ctx.quick else max(2, min(12, cpus))
    args = ["--seed", ctx.seed, "--tier", ctx.tier, "--threads", threads]
    if ctx.replay:
        args += ["--replay", ctx.replay]
    summaries = vlib.run_harness_bin(ctx, bindir, "typealg", args, timeout=150 if ctx.quick else 1200)
    if not summaries:
        raise vlib.HarnessError("typealg printed no summary")
    cov = vlib.merge_summaries(summaries)
    # keep the evidence file readable: a handful of observation samples is enough
    obs_samples = cov.get("observation_samples") or {}
    cov["observation_samples"] = {k: obs_samples[k] for k in sorted(obs_samples)[:6]}
    cov["rule"] = RULE
    cov["harness"] = "harness/typealg"
    ctx.finish(cov, ASSUMPTIONS, require_nontrivial=not ctx.replay)
