"""Engine A: execute cases (generated applications) on slot workspaces and record everything the monitors need.

An observation store keyed on a hash of /repo's working tree (+ engine sources + tier + seed) lets the ten e2e
checks share one corpus execution per tree; any edit under /repo yields a new key and a fresh execution.
"""
import hashlib
import json
import os
import queue
import random
import re
import shutil
import subprocess
import threading
import time

from lib import vlib, e2e_env
from e2e import slots, gen, plan as planmod, oracle as oraclemod

OBS = os.path.join(vlib.BUILD, "obs")
_ANSI = re.compile(r"\x1b\[[0-9;]*m")


def tree_hash():
    """sha256 over the content of every tracked or untracked-not-ignored file of /repo, plus this engine's sources."""
    h = hashlib.sha256()
    out = subprocess.run(["git", "-C", vlib.REPO, "ls-files", "-co", "--exclude-standard"], stdout=subprocess.PIPE, check=True).stdout.decode()
    for rel in sorted(out.splitlines()):
        if rel.startswith("docs/") or rel.startswith("examples/") or rel.startswith("compiler/ui_tests/"):
            if not rel.endswith("Cargo.lock"):
                continue
        p = os.path.join(vlib.REPO, rel)
        try:
            with open(p, "rb") as f:
                h.update(rel.encode())
                h.update(hashlib.sha256(f.read()).digest())
        except (FileNotFoundError, IsADirectoryError):
            h.update(rel.encode() + b"<missing>")
    here = os.path.dirname(os.path.abspath(__file__))
    for root, _, files in os.walk(here):
        for fn in sorted(files):
            if fn in ("oracle.py", "evaluate.py", "shrink.py") or fn.startswith("dev_"):
                continue  # judging what was observed does not change what is executed
            if fn.endswith((".py", ".rs", ".json", ".toml")):
                with open(os.path.join(root, fn), "rb") as f:
                    h.update(hashlib.sha256(f.read()).digest())
    # the corpus definitions live next to the checks
    for fn in ("e2e_common.py", "c08.py"):
        with open(os.path.join(os.path.dirname(here), "checks", fn), "rb") as f:
            h.update(hashlib.sha256(f.read()).digest())
    return h.hexdigest()[:20]


def strip_ansi(s):
    return _ANSI.sub("", s)


def classify_stderr(stderr):
    """Count ERROR / WARNING diagnostic blocks of pavexc's miette output, detect panics."""
    s = strip_ansi(stderr)
    errors = re.findall(r"^\s*ERROR:?\s*$|^ERROR:|^\s*× ", s, flags=re.M)
    n_err = len(re.findall(r"(?m)^\s*ERROR", s))
    n_warn = len(re.findall(r"(?m)^\s*WARNING", s))
    panicked = ("The application panicked" in s) or ("panicked at" in s) or ("thread 'main' panicked" in s)
    first = []
    for mm in re.finditer(r"(?m)^\s*ERROR[^\n]*\n((?:[^\n]*\n){1,3})", s):
        first.append(" ".join(x.strip(" ×│") for x in mm.group(1).splitlines())[:240])
    panic_msg = None
    panic_loc = None
    if panicked:
        # better-panic: "The application panicked (crashed).\n  <message>\nin <file>, line <n>\nthread: main"
        mm = re.search(r"The application panicked \(crashed\)\.\n(.*?)\nin ([^\n]+?), line (\d+)", s, flags=re.S)
        if mm:
            panic_msg = " ".join(mm.group(1).split())[:400]
            panic_loc = "%s:%s" % (mm.group(2).strip(), mm.group(3))
        else:
            mm = re.search(r"panicked at ([^\n]*)\n([^\n]*)", s)
            if mm:
                panic_loc = mm.group(1).strip().rstrip(":")
                panic_msg = mm.group(2).strip()[:400]
    return {"n_error": n_err, "n_warning": n_warn, "panicked": panicked, "panic_msg": panic_msg, "panic_loc": panic_loc, "first_lines": first[:6]}


class SlotLock:
    """Advisory lock on a slot workspace: corpora, the shrinker and C10 may run in different processes."""
    def __init__(self, slot):
        self.path = os.path.join(e2e_env.SLOTS, "%s.lock" % slot)

    def __enter__(self):
        import fcntl
        os.makedirs(e2e_env.SLOTS, exist_ok=True)
        self.f = open(self.path, "w")
        fcntl.flock(self.f, fcntl.LOCK_EX)
        return self

    def __exit__(self, *a):
        import fcntl
        fcntl.flock(self.f, fcntl.LOCK_UN)
        self.f.close()


def run_case(slot, case, keep_events=True):
    with SlotLock(slot):
        return _run_case(slot, case, keep_events)


def _run_case(slot, case, keep_events=True):
    """Execute one case on one slot. Never raises for failures of the code under test."""
    t0 = time.time()
    res = {"id": case["id"], "mode": case["mode"], "stages": {}}
    spec = case["spec"]
    d = slots.slot_dir(slot)
    slots.write_case(slot, spec)
    ok, err = slots.build_app(slot)
    res["stages"]["app_build"] = {"ok": ok, "err": err[-3000:]}
    if not ok:
        res["verdict"] = "inconclusive_generator"
        res["wall"] = time.time() - t0
        return res
    before = slots.sdk_snapshot(d)
    try:
        os.remove(os.path.join(d, "diag.dot"))
    except FileNotFoundError:
        pass
    pv = slots.run_pavexc(slot)
    after = slots.sdk_snapshot(d)
    cls = classify_stderr(pv["stderr"])
    res["stages"]["pavexc"] = {"rc": pv["rc"], "timeout": pv["timeout"], "wall": round(pv["wall"], 2), "class": cls,
                               "stderr": strip_ansi(pv["stderr"])[-6000:], "sdk_changed": sorted(k for k in set(before) | set(after) if before.get(k) != after.get(k)),
                               "had_sdk_before": "sdk/src/lib.rs" in before,
                               "diag_exists": os.path.exists(os.path.join(d, "diag.dot")),
                               "files_exist": [os.path.exists(os.path.join(d, p)) for p in ("sdk/Cargo.toml", "sdk/src/lib.rs")]}
    if pv["rc"] != 0 or pv["timeout"]:
        res["wall"] = time.time() - t0
        return res
    if case.get("stop_after_pavexc"):
        res["wall"] = time.time() - t0
        return res
    try:
        with open(os.path.join(d, "diag.dot")) as f:
            diag = f.read()
        res["stages"]["diag"] = diag_stats(diag)
    except FileNotFoundError:
        pass
    slots.write_boot(slot, spec)
    b = slots.build_driver(slot)
    res["stages"]["build"] = b
    if b["rc"] != 0:
        # keep the generated source next to the verdict for the replay file
        try:
            with open(os.path.join(d, "sdk", "src", "lib.rs")) as f:
                res["stages"]["build"]["sdk_lib_rs"] = f.read()[-20000:]
        except FileNotFoundError:
            pass
        res["wall"] = time.time() - t0
        return res
    runs = []
    for bf in case.get("boot_fail_runs", []):
        out = slots.run_driver(slot, {"boot_fail": bf, "requests": []})
        runs.append({"boot_fail": bf, "rc": out["rc"], "records": out["records"], "stderr": out["stderr"], "timeout": out["timeout"]})
    reqs = case["plan"]
    out = slots.run_driver(slot, {"boot_fail": [], "requests": [{"raw": r["raw"], "fail": r["fail"], "early": r["early"]} for r in reqs]})
    runs.append({"boot_fail": [], "rc": out["rc"], "records": out["records"], "stderr": out["stderr"], "timeout": out["timeout"]})
    res["stages"]["runs"] = runs
    res["wall"] = time.time() - t0
    return res


def diag_stats(diag):
    """What the emitted call graphs exercised (read from the --diagnostics dot file; advisory)."""
    return {
        "graphs": diag.count("digraph"),
        "clone_nodes": len(re.findall(r"Clone::clone|::clone", diag)),
        "match_nodes": len(re.findall(r"`match`", diag)),
        "mut_edges": diag.count("&mut"),
        "next_states": len(re.findall(r"Next[0-9]*", diag)),
        "bytes": len(diag),
    }


def run_corpus(cases, n_slots=None, label="corpus", progress=True):
    """Run cases on the slots, N-wide. Returns {case id: result}."""
    n_slots = n_slots or e2e_env.N_SLOTS
    slots.ensure_slots(n_slots)
    q = queue.Queue()
    for c in cases:
        q.put(c)
    results = {}
    lock = threading.Lock()
    t0 = time.time()

    def worker(slot):
        while True:
            try:
                c = q.get_nowait()
            except queue.Empty:
                return
            try:
                r = run_case(slot, c)
            except Exception as e:  # machinery failure: inconclusive, never a verdict
                r = {"id": c["id"], "mode": c["mode"], "stages": {}, "verdict": "inconclusive_harness", "error": repr(e)}
            with lock:
                results[c["id"]] = r
                if progress:
                    st = r["stages"].get("pavexc", {})
                    vlib.log("[%s] %d/%d case %s slot %d pavexc_rc=%s wall=%.0fs (elapsed %.0fs)" % (
                        label, len(results), len(cases), c["id"], slot, st.get("rc"), r.get("wall", 0), time.time() - t0))

    threads = [threading.Thread(target=worker, args=(i,)) for i in range(n_slots)]
    for t in threads:
        t.start()
    for t in threads:
        t.join()
    return results


# ---------------------------------------------------------------------------------------------- corpus + store

def make_inclass_cases(seed, n, start=0, knobs=None):
    cases = []
    i = start
    attempts = 0
    while len(cases) < n and attempts < n * 20:
        attempts += 1
        rng = random.Random("inclass-%d-%d" % (seed, i))
        # every 3rd / 4th case focuses on observer positions / error-handler lookup (see gen.Knobs.flavour)
        kn = knobs or gen.Knobs(flavour={1: "routing", 2: "observers", 3: "errors", 4: "ownership"}.get(i % 5), domains=(i % 6 == 5))
        i += 1
        spec = gen.gen_inclass(rng, kn)
        ok, problems, clause = gen.certificate(spec)
        if not ok:
            # the generator's own self-check: a spec that is not provably inside the class is not used (never judged)
            vlib.log("[gen] spec %d of seed %d dropped by the class certificate: %s" % (i - 1, seed, problems[:2]))
            continue
        prng = random.Random("plan-%d-%d" % (seed, i))
        pl = planmod.build_plan(spec, prng)
        boot_runs = []
        for cid, c in spec["ctors"].items():
            if c["lc"] == "singleton" and c.get("fallible") and len(boot_runs) < 2:
                boot_runs.append([cid])
        cases.append({"id": "ic-%d-%d" % (seed, i - 1), "mode": "inclass", "spec": spec, "plan": pl, "boot_fail_runs": boot_runs,
                      "certificate": clause, "shape": gen.shape_signature(spec)})
    return cases


def store_dir(tier, seed, corpus):
    return os.path.join(OBS, "%s-%s-s%d-%s" % (tree_hash(), tier, seed, corpus))


def load_or_run(tier, seed, corpus, make_cases, n_slots=None):
    """Observation store: results of a corpus for the current tree; executed at most once per (tree, tier, seed)."""
    d = store_dir(tier, seed, corpus)
    done = os.path.join(d, "DONE")
    cases = make_cases()
    if os.path.exists(done):
        try:
            with open(os.path.join(d, "results.json")) as f:
                results = json.load(f)
            if set(results) == set(c["id"] for c in cases):
                vlib.log("[engine] reusing observations %s (same tree, tier, seed)" % d)
                return cases, results, True
        except Exception:
            pass
    e2e_env.build_pavexc()
    results = run_corpus(cases, n_slots, label=corpus)
    os.makedirs(d, exist_ok=True)
    with open(os.path.join(d, "results.json.tmp"), "w") as f:
        json.dump(results, f)
    os.replace(os.path.join(d, "results.json.tmp"), os.path.join(d, "results.json"))
    with open(done, "w") as f:
        f.write(str(time.time()))
    prune_store(keep=d)
    return cases, results, False


def prune_store(keep, max_dirs=12):
    try:
        ds = sorted((os.path.getmtime(os.path.join(OBS, x)), x) for x in os.listdir(OBS))
    except FileNotFoundError:
        return
    for _, x in ds[:-max_dirs]:
        p = os.path.join(OBS, x)
        if p != keep:
            shutil.rmtree(p, ignore_errors=True)
