"""Slot workspaces: persistent cargo workspaces {app, sdk, driver} whose third-party dependencies are compiled once.
A case only rewrites app/src, driver/src/boot.rs, bp.ron and sdk/.
"""
import hashlib
import json
import os
import shutil
import subprocess
import time

from lib import vlib, e2e_env
from e2e import render

TEMPLATES = os.path.join(os.path.dirname(os.path.abspath(__file__)), "templates")

PLACEHOLDER_SDK_TOML = """[package]
name = "sdk"
version = "0.1.0"
edition = "2024"

[dependencies]
"""

BOOTSTRAP_SPEC = {
    "types": {"T0": {"lc": "singleton"}, "T1": {"lc": "request", "clone": True}},
    "errors": ["E0"],
    "ctors": {
        "C0": {"out": "T0", "ins": [], "lc": "singleton"},
        "C1": {"out": "T1", "ins": [("T0", "ref")], "lc": "request", "cloning": "cin", "fallible": "E0"},
    },
    "ehs": {"EH0": {"err": "E0", "ins": [], "status": 520}},
    "obs": {"O0": {"ins": []}},
    "mws": {
        "PRE0": {"kind": "pre", "ins": [("T1", "ref")]},
        "POST0": {"kind": "post", "ins": []},
        "W0": {"kind": "wrap", "ins": [("T0", "ref")]},
    },
    "handlers": {"H0": {"methods": ["GET"], "path": "/a/{x}", "ins": [("T1", "val"), ("T0", "ref")], "raw_params": True}},
    "fallbacks": {"FB0": {"ins": []}},
    "bp": {"items": [["ctor", "C0"], ["ctor", "C1"], ["eh", "EH0"], ["obs", "O0"], ["pre", "PRE0"], ["post", "POST0"],
                     ["wrap", "W0"], ["route", "H0"], ["fallback", "FB0"]]},
}


def slot_dir(i):
    return os.path.join(e2e_env.SLOTS, str(i))


def slot_env(i, nightly=False):
    d = slot_dir(i)
    env = vlib.base_env({"CARGO_TARGET_DIR": os.path.join(d, "target"), "CARGO_BUILD_JOBS": os.environ.get("VERIF_SLOT_JOBS", "4")})
    return env


def write_if_changed(path, content):
    if os.path.exists(path):
        with open(path) as f:
            if f.read() == content:
                return False
    os.makedirs(os.path.dirname(path), exist_ok=True)
    with open(path, "w") as f:
        f.write(content)
    return True


def create_slot(i):
    d = slot_dir(i)
    os.makedirs(d, exist_ok=True)
    write_if_changed(os.path.join(d, "Cargo.toml"), e2e_env.WORKSPACE_TOML % {"repo": vlib.REPO})
    write_if_changed(os.path.join(d, "app", "Cargo.toml"), e2e_env.app_toml())
    write_if_changed(os.path.join(d, "depk", "Cargo.toml"), e2e_env.DEPK_TOML)
    if not os.path.exists(os.path.join(d, "depk", "src", "lib.rs")):
        write_if_changed(os.path.join(d, "depk", "src", "lib.rs"), "")
    write_if_changed(os.path.join(d, "app", "src", "bin", "bp.rs"), render.BP_BIN)
    write_if_changed(os.path.join(d, "driver", "Cargo.toml"), e2e_env.DRIVER_TOML)
    with open(os.path.join(TEMPLATES, "driver_main.rs")) as f:
        write_if_changed(os.path.join(d, "driver", "src", "main.rs"), f.read())
    write_if_changed(os.path.join(d, "driver", "src", "boot.rs"), render.BOOT_RS)
    if not os.path.exists(os.path.join(d, "sdk", "Cargo.toml")):
        write_if_changed(os.path.join(d, "sdk", "Cargo.toml"), PLACEHOLDER_SDK_TOML)
        write_if_changed(os.path.join(d, "sdk", "src", "lib.rs"), "")
    if not os.path.exists(os.path.join(d, "Cargo.lock")):
        shutil.copy(e2e_env.UI_LOCK, os.path.join(d, "Cargo.lock"))
    os.makedirs(os.path.join(d, "home"), exist_ok=True)


def sdk_snapshot(d):
    """sha256 + mtime_ns + inode of every file under sdk/ and of the workspace manifest."""
    snap = {}
    paths = [os.path.join(d, "Cargo.toml")]
    for root, _, files in os.walk(os.path.join(d, "sdk")):
        for f in files:
            paths.append(os.path.join(root, f))
    for p in sorted(paths):
        try:
            st = os.stat(p)
            with open(p, "rb") as f:
                h = hashlib.sha256(f.read()).hexdigest()
            snap[os.path.relpath(p, d)] = [h, st.st_mtime_ns, st.st_ino]
        except FileNotFoundError:
            pass
    return snap


def write_case(i, spec):
    d = slot_dir(i)
    # defensive: a previous user of the slot (C10's cargo-feature history) may have been killed half-way
    write_if_changed(os.path.join(d, "Cargo.toml"), e2e_env.WORKSPACE_TOML % {"repo": vlib.REPO})
    write_if_changed(os.path.join(d, "app", "Cargo.toml"), e2e_env.app_toml((render._dep(spec) or {}).get("alias")))
    write_if_changed(os.path.join(d, "depk", "Cargo.toml"), e2e_env.DEPK_TOML)
    write_if_changed(os.path.join(d, "depk", "src", "lib.rs"), render.render_dep(spec))
    try:
        with open(os.path.join(d, "sdk", "Cargo.toml")) as f:
            if "extdep" in f.read():
                raise FileNotFoundError
    except FileNotFoundError:
        write_if_changed(os.path.join(d, "sdk", "Cargo.toml"), PLACEHOLDER_SDK_TOML)
        write_if_changed(os.path.join(d, "sdk", "src", "lib.rs"), "")
    src = render.render_app(spec)
    write_if_changed(os.path.join(d, "app", "src", "lib.rs"), src)
    write_if_changed(os.path.join(d, "driver", "src", "boot.rs"), render.BOOT_RS)
    return src


def write_boot(i, spec):
    """After an accepted compilation: the driver's boot code follows the signature the compiler generated."""
    d = slot_dir(i)
    try:
        with open(os.path.join(d, "sdk", "src", "lib.rs")) as f:
            sdk_src = f.read()
    except FileNotFoundError:
        sdk_src = ""
    write_if_changed(os.path.join(d, "driver", "src", "boot.rs"), render.render_boot(spec, sdk_src))


def build_app(i, timeout=900):
    """Compile the user crate + run the `bp` binary to persist the blueprint. A failure here is a generator bug."""
    d = slot_dir(i)
    rc, out, err, to = vlib.run(["cargo", "build", "--offline", "-q", "-p", "app", "--bin", "bp"], cwd=d, env=slot_env(i), timeout=timeout)
    if rc != 0:
        return False, err
    ron = os.path.join(d, "bp.ron")
    rc, out, err, to = vlib.run([os.path.join(d, "target", "debug", "bp"), ron], cwd=d, env=slot_env(i), timeout=120)
    if rc != 0:
        return False, err
    return True, ""


def run_pavexc(i, check=False, home=None, timeout=600, extra_env=None, diagnostics=True, strace_out=None, diag_path="diag.dot"):
    d = slot_dir(i)
    env = e2e_env.pavexc_env(home or os.path.join(d, "home"))
    env["CARGO_TARGET_DIR"] = os.path.join(d, "target")
    if extra_env:
        env.update(extra_env)
    cmd = [e2e_env.pavexc_bin(), "generate", "--blueprint", "bp.ron", "--output", "sdk"]
    if diagnostics:
        cmd += ["--diagnostics", diag_path]
    if check:
        cmd.append("--check")
    if strace_out:
        cmd = ["strace", "-f", "-o", strace_out, "-e", "trace=openat,open,creat,rename,renameat,renameat2,unlink,unlinkat,truncate,ftruncate"] + cmd
    t0 = time.time()
    rc, out, err, to = vlib.run(cmd, cwd=d, env=env, timeout=timeout)
    return {"rc": rc, "stdout": out, "stderr": err, "timeout": to, "wall": time.time() - t0}


def build_driver(i, timeout=1200):
    """cargo build of sdk + driver with JSON diagnostics, so that compile errors can be attributed to the SDK."""
    d = slot_dir(i)
    rc, out, err, to = vlib.run(["cargo", "build", "--offline", "-q", "-p", "driver", "--message-format=json"],
                                cwd=d, env=slot_env(i), timeout=timeout)
    errors = []
    for line in out.splitlines():
        if not line.startswith("{"):
            continue
        try:
            m = json.loads(line)
        except Exception:
            continue
        if m.get("reason") == "compiler-message" and m["message"].get("level") == "error":
            msg = m["message"]
            spans = msg.get("spans") or []
            prim = next((s for s in spans if s.get("is_primary")), spans[0] if spans else None)
            errors.append({
                "package": m.get("package_id", ""), "target": m.get("target", {}).get("name"),
                "code": (msg.get("code") or {}).get("code"), "message": msg.get("message"),
                "file": prim.get("file_name") if prim else None, "line": prim.get("line_start") if prim else None,
                "rendered": (msg.get("rendered") or "")[:1500],
            })
    return {"rc": rc, "errors": errors, "stderr": err[-3000:], "timeout": to}


def check_sdk(i, timeout=900):
    """`cargo check -p sdk` (the property's own observable); used by the shrinker."""
    d = slot_dir(i)
    rc, out, err, to = vlib.run(["cargo", "check", "--offline", "-q", "-p", "sdk", "--message-format=json"], cwd=d, env=slot_env(i), timeout=timeout)
    codes = []
    for line in out.splitlines():
        if line.startswith("{"):
            try:
                m = json.loads(line)
            except Exception:
                continue
            if m.get("reason") == "compiler-message" and m["message"].get("level") == "error" and m.get("target", {}).get("name") == "sdk":
                codes.append((m["message"].get("code") or {}).get("code"))
    return rc, codes


def run_driver(i, plan, timeout=300):
    d = slot_dir(i)
    pp = os.path.join(d, "plan.json")
    with open(pp, "w") as f:
        json.dump(plan, f)
    rc, out, err, to = vlib.run([os.path.join(d, "target", "debug", "driver"), pp], cwd=d, env=vlib.base_env({"RUST_BACKTRACE": "1"}), timeout=timeout)
    recs = vlib.parse_jsonl(out)
    return {"rc": rc, "records": recs, "stderr": err[-3000:], "timeout": to}


def bootstrap_slot(i):
    """Compile all third-party deps and warm the docs cache with a small representative app."""
    create_slot(i)
    write_case(i, BOOTSTRAP_SPEC)
    ok, err = build_app(i)
    if not ok:
        raise vlib.HarnessError("slot %d bootstrap: app build failed\n%s" % (i, err[-3000:]))
    r = run_pavexc(i, timeout=1800)
    if r["rc"] != 0:
        raise vlib.HarnessError("slot %d bootstrap: pavexc failed rc=%s\n%s" % (i, r["rc"], r["stderr"][-3000:]))
    b = build_driver(i)
    if b["rc"] != 0:
        raise vlib.HarnessError("slot %d bootstrap: driver build failed\n%s\n%s" % (i, b["errors"][:3], b["stderr"]))
    plan = {"boot_fail": [], "requests": [{"raw": "GET /a/1 HTTP/1.1\r\nHost: x\r\nConnection: close\r\n\r\n", "fail": [], "early": []}]}
    out = run_driver(i, plan)
    if out["rc"] != 0 or not any(r.get("kind") == "req" for r in out["records"]):
        raise vlib.HarnessError("slot %d bootstrap: driver run failed\n%s" % (i, out["stderr"]))
    with open(os.path.join(slot_dir(i), ".ready"), "w") as f:
        f.write("ok")


def slot_ready(i):
    return os.path.exists(os.path.join(slot_dir(i), ".ready"))


def ensure_slots(n):
    """Slot 0 is bootstrapped first (cold docs cache: ~1 min); its cache db is copied to the other slots, which are then
    bootstrapped in parallel."""
    from concurrent.futures import ThreadPoolExecutor
    os.makedirs(e2e_env.SLOTS, exist_ok=True)
    todo = [i for i in range(n) if not slot_ready(i)]
    if not todo:
        return
    if 0 in todo:
        bootstrap_slot(0)
        todo.remove(0)
    src_cache = os.path.join(slot_dir(0), "home", ".pavex")
    for i in todo:
        create_slot(i)
        dst = os.path.join(slot_dir(i), "home", ".pavex")
        if os.path.isdir(src_cache) and not os.path.isdir(dst):
            shutil.copytree(src_cache, dst)
    with ThreadPoolExecutor(max_workers=max(1, len(todo))) as ex:
        list(ex.map(bootstrap_slot, todo))
