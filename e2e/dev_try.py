#!/usr/bin/env python3
"""Developer helper: run pavexc (and optionally rustc on the SDK) on one spec file. usage: dev_try.py <spec.json> <slot> [--sdk]"""
import json, os, sys
sys.path.insert(0, os.path.dirname(os.path.dirname(os.path.abspath(__file__))))
from e2e import engine, slots
spec = json.load(open(sys.argv[1]))
spec = spec.get("spec", spec)
slot = int(sys.argv[2])
with engine.SlotLock(slot):
    r = engine._run_case(slot, {"id": "try", "mode": "x", "spec": spec, "plan": [], "stop_after_pavexc": True})
    st = r["stages"]
    print("app_build", st.get("app_build", {}).get("ok"), st.get("app_build", {}).get("err", "")[-1500:])
    pv = st.get("pavexc")
    if pv:
        print("pavexc rc", pv["rc"], json.dumps(pv["class"])[:1500])
        if pv["rc"] == 0 and "--sdk" in sys.argv:
            print("sdk", slots.check_sdk(slot))
