"""Greedy spec shrinker: reduce a spec while a predicate on pavexc's behaviour keeps holding.
Used to produce small replay witnesses and to key known findings on the structural pattern that triggers them."""
import copy
import json
import os
import sys

sys.path.insert(0, os.path.dirname(os.path.dirname(os.path.abspath(__file__))))
from lib import vlib, e2e_env  # noqa: E402
from e2e import slots, engine, render  # noqa: E402


def bp_items(bp, path=()):
    for i, it in enumerate(bp["items"]):
        yield (path, i, it)
        if it[0] == "nest":
            yield from bp_items(it[2], path + (i,))


def get_bp(spec, path):
    bp = spec["bp"]
    for i in path:
        bp = bp["items"][i][2]
    return bp


def candidates(spec):
    """Yield functions that each produce a smaller spec."""
    out = []
    for (path, i, it) in list(bp_items(spec["bp"])):
        def rm(s, path=path, i=i):
            bp = get_bp(s, path)
            it = bp["items"].pop(i)
            return s
        if it[0] != "ctor":
            out.append(("rm-item %s %s" % (it[0], it[1] if it[0] != "nest" else it[1]), rm))
        if it[0] == "nest":
            def inline(s, path=path, i=i):
                bp = get_bp(s, path)
                it = bp["items"][i]
                bp["items"][i:i + 1] = it[2]["items"]
                return s
            out.append(("inline-nest", inline))
            if it[1].get("prefix"):
                def noprefix(s, path=path, i=i):
                    get_bp(s, path)["items"][i][1].pop("prefix")
                    return s
                out.append(("drop-prefix", noprefix))
        if len(it) > 2 and isinstance(it[2], dict) and it[2].get("eh"):
            def noeh(s, path=path, i=i):
                get_bp(s, path)["items"][i][2].pop("eh")
                return s
            out.append(("drop-attached-eh", noeh))
    for kind in ("handlers", "mws", "fallbacks", "obs", "ehs", "ctors"):
        for xid, x in spec[kind].items():
            for j in range(len(x.get("ins", []))):
                def rmin(s, kind=kind, xid=xid, j=j):
                    s[kind][xid]["ins"].pop(j)
                    return s
                out.append(("rm-input %s[%d]" % (xid, j), rmin))
                if x["ins"][j][1] != "ref":
                    def toref(s, kind=kind, xid=xid, j=j):
                        s[kind][xid]["ins"][j] = [s[kind][xid]["ins"][j][0], "ref"]
                        return s
                    out.append(("to-ref %s[%d]" % (xid, j), toref))
            if x.get("fallible"):
                def nofail(s, kind=kind, xid=xid):
                    s[kind][xid].pop("fallible")
                    return s
                out.append(("infallible %s" % xid, nofail))
            if x.get("async"):
                def noasync(s, kind=kind, xid=xid):
                    s[kind][xid].pop("async")
                    return s
                out.append(("sync %s" % xid, noasync))
    return out


def cleanup(spec):
    """Drop definitions that are no longer registered / used; drop attached handlers of now-infallible components."""
    registered = set()
    for (_, _, it) in bp_items(spec["bp"]):
        if it[0] != "nest":
            registered.add(it[1])
            if len(it) > 2 and isinstance(it[2], dict) and it[2].get("eh"):
                registered.add(it[2]["eh"])
    for kind in ("handlers", "mws", "fallbacks", "obs", "ehs"):
        for xid in list(spec[kind]):
            if xid not in registered:
                del spec[kind][xid]
    # attached eh on infallible comps
    for (path, i, it) in bp_items(spec["bp"]):
        if it[0] in ("ctor", "pre", "post", "wrap", "route", "fallback") and len(it) > 2 and it[2].get("eh"):
            comp = spec["ctors"].get(it[1]) or spec["mws"].get(it[1]) or spec["handlers"].get(it[1]) or spec["fallbacks"].get(it[1])
            if not comp.get("fallible"):
                it[2].pop("eh")
    # ehs for error types nobody returns any more are fine; unused ctors: remove those whose type nobody needs
    changed = True
    while changed:
        changed = False
        needed = set()
        for kind in ("handlers", "mws", "fallbacks", "obs", "ehs", "ctors"):
            for x in spec[kind].values():
                for (t, _) in x.get("ins", []):
                    needed.add(t.split("<")[0])
                    if "<" in t:
                        needed.add(t[t.index("<") + 1:-1])
        for cid in list(spec["ctors"]):
            if spec["ctors"][cid]["out"].split("<")[0] not in needed:
                del spec["ctors"][cid]
                for (path, i, it) in list(bp_items(spec["bp"])):
                    if it[0] == "ctor" and it[1] == cid:
                        get_bp(spec, path)["items"].remove(it)
                changed = True
    used_types = set(c["out"].split("<")[0] for c in spec["ctors"].values())
    for t in list(spec["types"]):
        if t not in used_types:
            del spec["types"][t]
    return spec


def shrink(spec, predicate, slot, max_rounds=6, log=print):
    spec = copy.deepcopy(spec)
    n_tests = 0
    for rnd in range(max_rounds):
        progress = False
        cands = candidates(spec)
        idx = 0
        while idx < len(cands):
            name, f = cands[idx]
            trial = copy.deepcopy(spec)
            try:
                trial = cleanup(f(trial))
            except Exception:
                idx += 1
                continue
            n_tests += 1
            if predicate(trial, slot):
                spec = trial
                progress = True
                log("  shrink: %s ok (tests=%d, size=%d)" % (name, n_tests, size(spec)))
                cands = candidates(spec)
                # stay at same idx: list shifted
            else:
                idx += 1
        if not progress:
            break
    return spec


def size(spec):
    return sum(len(spec[k]) for k in ("handlers", "mws", "fallbacks", "obs", "ehs", "ctors")) + sum(len(x.get("ins", [])) for k in ("handlers", "mws", "fallbacks", "obs", "ehs", "ctors") for x in spec[k].values())


def pavexc_predicate(check):
    """check(result-of-pavexc-stage) -> bool"""
    def pred(spec, slot):
        case = {"id": "shrink", "mode": "x", "spec": spec, "plan": [], "stop_after_pavexc": True}
        r = engine.run_case(slot, case)
        st = r["stages"]
        if not st.get("app_build", {}).get("ok"):
            return False
        return check(st["pavexc"])
    return pred


def sdk_error_predicate(code):
    def pred(spec, slot):
        case = {"id": "shrink", "mode": "x", "spec": spec, "plan": [], "stop_after_pavexc": True}
        r = engine.run_case(slot, case)
        st = r["stages"]
        if not st.get("app_build", {}).get("ok") or st["pavexc"]["rc"] != 0:
            return False
        rc, codes = slots.check_sdk(slot)
        return rc != 0 and code in codes
    return pred


def runtime_predicate(prop, rule):
    """Full pipeline (build, run the request plan) + oracles: does a violation prop/rule show up?"""
    import random
    from e2e import evaluate, plan as planmod

    def pred(spec, slot):
        try:
            pl = planmod.build_plan(spec, random.Random(1))
        except Exception:
            return False
        case = {"id": "shrink", "mode": spec.get("mode", "inclass"), "spec": spec, "plan": pl, "boot_fail_runs": []}
        r = engine.run_case(slot, case)
        try:
            vs, _st, _status = evaluate.evaluate_case(case, r)
        except Exception:
            return False
        return any(v["prop"] == prop and v["sig"].get("rule") == rule for v in vs)
    return pred


if __name__ == "__main__":
    # usage: shrink.py <last.json> <case id> <slot> <substring of panic loc or diagnostic>
    d = json.load(open(sys.argv[1]))
    cid, slot, needle = sys.argv[2], int(sys.argv[3]), sys.argv[4]
    case = next(c for c in d["cases"] if c["id"] == cid)
    if needle.startswith("E0"):
        pred = sdk_error_predicate(needle)
    elif needle.startswith("rt:"):
        _, prop, rule = needle.split(":")
        pred = runtime_predicate(prop, rule)
    else:
        pred = pavexc_predicate(lambda pv: needle in (pv["class"].get("panic_loc") or "") or any(needle in x for x in pv["class"]["first_lines"]))
    assert pred(case["spec"], slot), "predicate does not hold on the original"
    small = shrink(case["spec"], pred, slot)
    out = "/verif/build/dev/shrunk_%s.json" % cid
    json.dump(small, open(out, "w"), indent=1)
    print(render.render_app(small)[len(render.PRELUDE):])
    print("written", out)
