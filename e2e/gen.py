"""Generator of application specs (AppSpec) for engine A.

Modes:
  inclass  -- every constraint of C02's class holds by construction (see `certificate`), all documented rules obeyed;
  wild     -- ownership demands unconstrained (pavexc may accept or reject);
  planted  -- an in-class spec with exactly one documented rule violated (see plant.py).

An AppSpec is plain JSON-able data:
  types:    {T: {lc: singleton|request|transient, disc: shared|copy|cloneable|moved|free, copy, clone}}
  errors:   [E..]
  ctors:    {C: {out, ins:[(T, ref|val|mut)], lc, cloning: cin|never|None, fallible: E|None, async}}
  ehs:      {EH: {err: E|"pavex", ins, status}}
  obs:      {O: {ins}}
  mws:      {M: {kind: pre|post|wrap, ins, fallible, async}}
  handlers: {H: {methods: [..]|"ANY", path, ins, fallible, async, raw_params}}
  fallbacks:{FB: {ins, fallible, status}}
  bp:       {items: [[kind, id, opts?] | ["nest", {prefix, domain}, bp]]}
"""
import copy
import json
import random

STD = ["GET", "POST", "PUT", "PATCH", "DELETE", "HEAD", "OPTIONS"]
CUSTOM = ["QUERY", "PURGE", "LINK"]


class Knobs:
    def __init__(self, **kw):
        self.n_types = (6, 12)
        self.n_handlers = (4, 8)
        self.n_mws = (2, 7)
        self.n_obs = (0, 3)
        self.n_errors = (1, 4)
        self.max_depth = 3
        self.p_fallible_ctor = 0.3
        self.p_fallible_comp = 0.25
        self.p_async = 0.4
        self.domains = False
        self.avoid_known = True
        # focus of the case: None (general) | "observers" (observer positions across nesting, no fallible middleware graphs)
        # | "errors" (error handlers registered at several nesting levels, unrelated handlers in between)
        self.flavour = None
        self.p_generics = 0.5
        self.p_modules = 0.3
        self.p_methods = 0.4
        self.p_crates = 0.3
        # application-state inputs: singletons that the *user* builds (prebuilt types, configuration entries)
        self.p_state_inputs = 0.5
        self.p_input_each = 0.45
        # framework primitives (RequestHead, ConnectionInfo, AllowedMethods, RawPathParams, RawIncomingBody) as extra inputs
        self.p_prims = 0.5
        # primary constructors registered in the nested blueprint that contains all their users, instead of the root
        self.p_scoped = 0.5
        # constructors whose output borrows from an input: `fn c<'a>(a0: &'a T1, ..) -> T2<'a>` (probability per application)
        self.p_captures = 0.5
        # a type registered twice in the root blueprint (the latest registration wins)
        self.p_shadow = 0.4
        # registrations written as imports: `bp.routes(from![crate::module])`, `bp.import(from![crate::module])`
        self.p_imports = 0.5
        # request-time components whose error type is `pavex::Error` itself
        self.p_pavex_errors = 0.6
        # nested blueprints with their own handler for `pavex::Error` (probability per nested blueprint)
        self.p_nested_pavex_eh = 0.2
        # the generic constructor is fallible, with an error type that shares its type parameter, and a generic error handler
        self.p_generic_errors = 0.5
        # an overriding constructor registered in two sibling blueprints (one module imported by both, or two plain registrations)
        self.p_sibling_regs = 0.5
        # constructible types that are not nominal: `(T3, u8)` tuples and `[T3; 1]` arrays around the instrumented struct
        self.p_shapes = 0.45
        self.__dict__.update(kw)
        if self.flavour == "observers":
            self.n_obs = (3, 6)
            self.p_fallible_comp = 0.6
        elif self.flavour == "errors":
            self.p_fallible_comp = 0.6
            self.p_fallible_ctor = 0.4
        elif self.flavour == "ownership":
            self.p_fallible_ctor = 0.45
            self.n_mws = (3, 6)
        elif self.flavour == "routing":
            # deep nesting, a fallback in (almost) every blueprint that may have one, many routes, few middlewares
            self.n_handlers = (7, 11)
            self.n_mws = (0, 2)
            self.n_types = (3, 6)


def rint(rng, lohi):
    return rng.randint(lohi[0], lohi[1])


# --------------------------------------------------------------------------------------------------------------
# in-class generation
# --------------------------------------------------------------------------------------------------------------

def mode_for(rng, spec, t, consumer_kind, state):
    """Pick an injection mode for type t that keeps the app inside C02's class, or None if t cannot be used here.
    consumer_kind: 'ctor:<lc>' | 'mw' | 'handler' | 'eh' | 'obs'."""
    ty = spec["types"][t]
    d = ty["disc"]
    if d == "shared":
        return "ref"
    if d in ("copy", "cloneable", "free"):
        return rng.choice(["ref", "val"])
    if d == "moved":
        # exactly one consumer site overall (or only handlers/fallbacks), never borrowed
        owner = state["moved_owner"].get(t)
        if consumer_kind == "handler":
            if ty["lc"] == "singleton":
                return None
            if owner in (None, "handlers"):
                state["moved_owner"][t] = "handlers"
                return "val"
            return None
        if owner is not None:
            return None
        if consumer_kind.startswith("ctor:"):
            clc = consumer_kind.split(":")[1]
            if clc == "transient" and ty["lc"] != "transient":
                return None
            if clc == "singleton" and ty["lc"] != "singleton":
                return None
            if ty["lc"] == "singleton" and clc != "singleton":
                # a never-clone singleton cannot be taken by value at request time
                return None
            state["moved_owner"][t] = "ctor"
            return "val"
        if consumer_kind == "mw":
            if ty["lc"] == "singleton":
                return None
            state["moved_owner"][t] = "mw"
            return "val"
        return None
    raise ValueError(d)


def gen_inclass(rng, knobs=None):
    kn = knobs or Knobs()
    spec = {"types": {}, "errors": [], "ctors": {}, "ehs": {}, "obs": {}, "mws": {}, "handlers": {}, "fallbacks": {},
            "bp": {"items": []}, "mode": "inclass"}
    # "ownership" flavour: no wrapping middleware => one pipeline stage: all moves and borrows of a value meet in one graph
    state = {"moved_owner": {}, "avoid_known": kn.avoid_known, "single_stage": kn.flavour == "ownership"}
    n_err = rint(rng, kn.n_errors)
    spec["errors"] = ["E%d" % i for i in range(n_err)]

    # ---- types and their primary constructors (layered: inputs come from lower indices => acyclic)
    n_types = rint(rng, kn.n_types)
    names = ["T%d" % i for i in range(n_types)]
    for i, t in enumerate(names):
        lc = rng.choices(["singleton", "request", "transient"], [3, 5, 2])[0]
        if i == 0:
            lc = "singleton"
        if lc == "singleton":
            disc = rng.choices(["shared", "cloneable", "copy", "moved"], [6, 2, 1, 1])[0]
        elif lc == "request":
            disc = rng.choices(["shared", "cloneable", "copy", "moved"], [2, 6, 1, 1] if kn.flavour == "ownership" else [5, 3, 1, 2])[0]
        else:
            disc = "free"
        ty = {"lc": lc, "disc": disc}
        if disc == "copy":
            ty["copy"] = True
            ty["clone"] = True
        elif disc == "cloneable":
            ty["clone"] = True
        elif disc in ("shared", "moved", "free"):
            # whether a never-clone type happens to implement Clone must not matter
            ty["clone"] = rng.random() < 0.3
        spec["types"][t] = ty

    def pick_inputs(owner_kind, candidates, kmax, allow_fallible=True):
        ins = []
        rng.shuffle(candidates)
        for t in candidates:
            if len(ins) >= kmax:
                break
            if not allow_fallible and not infallible[t]:
                continue
            m = mode_for(rng, spec, t, owner_kind, state)
            if m is None:
                continue
            ins.append((t, m))
        return ins

    infallible = {}
    rt_infallible = {}

    with_captures = rng.random() < kn.p_captures

    def make_ctor(cid, t, lower, lc, force_infallible=False, primary=True):
        ty = spec["types"][t]
        if lc == "singleton":
            cands = [u for u in lower if spec["types"][u]["lc"] == "singleton"]
        else:
            cands = list(lower)
        k = rng.choice([0, 1, 1, 2, 2, 3])
        ins = pick_inputs("ctor:" + lc, cands, k, allow_fallible=not force_infallible)
        c = {"out": t, "ins": ins, "lc": lc}
        refs = [j for j, (_u, mo) in enumerate(ins) if mo == "ref"]
        if with_captures and primary and lc != "singleton" and refs and rng.random() < 0.4:
            # the value holds on to (some of) what its constructor borrowed: `T<'a>`
            ty["lt"] = True
            c["captures"] = sorted(rng.sample(refs, rng.choice([1, 1, min(2, len(refs))])))
        if ty["disc"] == "cloneable":
            c["cloning"] = "cin"
        elif ty["disc"] == "copy":
            # Copy types: both policies are legal; Pavex treats Copy specially
            c["cloning"] = rng.choice(["cin", None])
        elif rng.random() < 0.2:
            c["cloning"] = "never"
        if rng.random() < kn.p_fallible_ctor and not force_infallible:
            c["fallible"] = rng.choice(spec["errors"])
        if rng.random() < kn.p_async:
            c["async"] = True
        spec["ctors"][cid] = c
        return c

    with_inputs = rng.random() < kn.p_state_inputs
    for i, t in enumerate(names):
        ty = spec["types"][t]
        if with_inputs and ty["lc"] == "singleton" and rng.random() < getattr(kn, "p_input_each", 0.45):
            c = make_state_input(rng, spec, "C%d" % i, t)
        else:
            c = make_ctor("C%d" % i, t, names[:i], ty["lc"])
        infallible[t] = (not c.get("fallible")) and all(infallible[u] for (u, _) in c["ins"])
        # infallible *while a request is served*: a singleton is built (and may fail) when the application state is built
        rt_infallible[t] = ty["lc"] == "singleton" or ((not c.get("fallible")) and all(rt_infallible[u] for (u, _) in c["ins"]))

    # ---- error handlers: at most one specific handler per error type + maybe a custom pavex::Error handler
    status = 520
    for e in spec["errors"]:
        if rng.random() < 0.7:
            ehid = "EH_%s" % e
            cands = [t for t in names if infallible[t] and spec["types"][t]["disc"] != "moved"]
            ins = [(t, "val" if (kn.flavour == "ownership" and spec["types"][t]["disc"] == "cloneable" and rng.random() < 0.6) else "ref")
                   for t in rng.sample(cands, min(len(cands), rng.choice([0, 0, 1, 2] if kn.flavour != "ownership" else [1, 2, 2])))]
            spec["ehs"][ehid] = {"err": e, "ins": ins, "status": status}
            status += 1
    if rng.random() < 0.5:
        spec["ehs"]["EH_PAVEX"] = {"err": "pavex", "ins": [], "status": 519}

    # ---- blueprint tree
    counters = {"h": 0, "m": 0, "o": 0, "fb": 0, "label": 0, "ovr": 0}

    pavex_errors = [False]
    local_errors = []   # error types that only components of the blueprint subtree being built may return
    deferred_eh = []    # (items list of the blueprint that will register it, error handler id)

    def pick_error():
        if pavex_errors[0] and rng.random() < 0.3:
            # the component returns `pavex::Error` itself: handled by the handler for `pavex::Error`
            return "pavex"
        if local_errors and rng.random() < 0.6:
            return rng.choice(local_errors)
        return rng.choice(spec["errors"])

    def new_handler(avail_types):
        hid = "H%d" % counters["h"]
        counters["h"] += 1
        ins = pick_inputs("handler", list(avail_types), rng.choice([0, 1, 2, 2, 3, 4]))
        h = {"ins": ins}
        if rng.random() < kn.p_fallible_comp:
            h["fallible"] = pick_error()
        if rng.random() < kn.p_async:
            h["async"] = True
        spec["handlers"][hid] = h
        return hid

    def new_mw(avail_types, kind=None):
        kind = kind or rng.choice(["pre", "post"] if kn.flavour == "ownership" else ["pre", "post", "wrap"])
        mid = "%s%d" % ({"pre": "PRE", "post": "POST", "wrap": "W"}[kind], counters["m"])
        counters["m"] += 1
        ins = pick_inputs("mw", list(avail_types), rng.choice([0, 1, 1, 2, 3]), allow_fallible=kn.flavour != "observers")
        m = {"kind": kind, "ins": ins}
        if rng.random() < kn.p_fallible_comp and kn.flavour != "observers":
            m["fallible"] = pick_error()
        if kind != "wrap" and rng.random() < kn.p_async:
            m["async"] = True
        spec["mws"][mid] = m
        return mid

    def new_obs(avail_types):
        oid = "O%d" % counters["o"]
        counters["o"] += 1
        # (an error observer may not need a fallible constructor - but a fallible *singleton* cannot fail at that point any more)
        cands = [t for t in avail_types if rt_infallible.get(t, infallible[t]) and spec["types"][t]["disc"] != "moved"]
        ins = [(t, "ref") for t in rng.sample(cands, min(len(cands), rng.choice([0, 0, 1, 2])))]
        spec["obs"][oid] = {"ins": ins}
        return oid

    def new_fb(avail_types):
        fid = "FB%d" % counters["fb"]
        counters["fb"] += 1
        ins = pick_inputs("handler", [t for t in avail_types], rng.choice([0, 0, 1, 2]))
        spec["fallbacks"][fid] = {"ins": ins, "status": 440 + counters["fb"]}
        if rng.random() < 0.15:
            spec["fallbacks"][fid]["fallible"] = pick_error()
        return fid

    def route_group(n):
        """n templates sharing a globally unique first static label, pairwise disjoint by construction."""
        lab = "s%d" % counters["label"]
        counters["label"] += 1
        shapes = [
            ["/%s" % lab],
            ["/%s/{p}" % lab],
            ["/%s/x" % lab, "/%s/y/{p}" % lab, "/%s/y/{p}/z" % lab],
            ["/%s/{p}/a" % lab, "/%s/{p}/b/{q}" % lab],
            ["/%s/{*rest}" % lab],
            ["/%s/" % lab, "/%s" % lab],
            ["/%s/k/{*rest}" % lab, "/%s/j" % lab, "/%s/j/" % lab],
            ["/%s/{p}/{q}" % lab, "/%s/{p}" % lab],
            # a parameter right at the start (right after the nesting prefix, if any)
            ["/{p}/%s" % lab, "/{p}/%s/{q}" % lab],
        ]
        sh = rng.choice(shapes)
        rng.shuffle(sh)
        return sh[:n]

    def method_sets(k):
        """k disjoint method sets for routes sharing one template."""
        pool = STD + ([rng.choice(CUSTOM)] if rng.random() < 0.3 else [])
        rng.shuffle(pool)
        out = []
        for _ in range(k):
            n = rng.choice([1, 1, 1, 2, 3])
            ms = [pool.pop() for _ in range(min(n, len(pool)))]
            if not ms:
                break
            out.append(sorted(ms))
        return out

    n_handlers_target = rint(rng, kn.n_handlers)
    n_mws_target = rint(rng, kn.n_mws)
    n_obs_target = rint(rng, kn.n_obs)
    pavex_errors[0] = kn.p_pavex_errors > 0 and rng.random() < kn.p_pavex_errors

    def build_bp(depth, avail_types, budget, own_prefix=False, under_prefix=False, bp_stack=(), owner_fb=False):
        """budget: dict with remaining handlers/mws/obs to place in this subtree.
        owner_fb: the blueprint that introduces the path prefix we are under (reached through un-prefixed blueprints only)
        registers a fallback of its own."""
        items = []
        # documented rule ("Routing logic can't be ambiguous"): a fallback registered below a path prefix claims every
        # unmatched path under that prefix. It may sit in the blueprint that introduces the prefix, or — when that blueprint
        # has a fallback of its own, which then owns the unmatched paths — in an un-prefixed blueprint nested inside it
        # (that one only serves the method mismatches of its own routes).
        fallback_allowed = depth == 0 or own_prefix or not under_prefix or owner_fb
        want_fb = fallback_allowed and rng.random() < (0.9 if kn.flavour == "routing" else 0.5 if depth == 0 else 0.4)
        fb_for_children = want_fb if own_prefix else owner_fb
        bp_stack = bp_stack + (items,)
        local_types = list(avail_types)
        pushed_local = None
        if depth > 0 and kn.flavour == "errors" and rng.random() < 0.7:
            # a handler for an error type nobody in this subtree returns: the lookup must walk past it
            un = "EU%d" % counters["label"]
            counters["label"] += 1
            spec["errors_local"] = spec.get("errors_local", []) + [un]
            spec["ehs"]["EH_%s" % un] = {"err": un, "ins": [], "status": 560 + len(spec["ehs"])}
            deferred_eh.append((items, "EH_%s" % un))
        if depth > 0 and rng.random() < (0.9 if kn.flavour == "errors" else 0.55):
            # an error type local to this subtree; its handler is registered here or in any enclosing blueprint
            # (nearest-enclosing lookup with unrelated handlers in between is what the lookup has to get right)
            pushed_local = "EL%d" % counters["label"]
            counters["label"] += 1
            spec["errors_local"] = spec.get("errors_local", []) + [pushed_local]
            local_errors.append(pushed_local)
            if rng.random() < 0.8:
                ehid = "EH_%s" % pushed_local
                cands = [t for t in names if infallible[t] and spec["types"][t]["disc"] != "moved"]
                ins = [(t, "ref") for t in rng.sample(cands, min(len(cands), rng.choice([0, 0, 1])))]
                spec["ehs"][ehid] = {"err": pushed_local, "ins": ins, "status": 530 + len(spec["ehs"])}
                deferred_eh.append((rng.choice(bp_stack), ehid))
        # a handler for `pavex::Error` of the nested blueprint's own (the nearest one is the fallback handler of whatever
        # fails below it without a specific handler)
        if depth > 0 and rng.random() < getattr(kn, "p_nested_pavex_eh", 0):
            ehid = "EH_PAVEX_%d" % counters["label"]
            counters["label"] += 1
            spec["ehs"][ehid] = {"err": "pavex", "ins": [], "status": 540 + (counters["label"] % 9)}
            items.append(["eh", ehid])
        # constructor overrides for request-scoped / transient types (nested blueprints only)
        if depth > 0:
            for t in rng.sample(names, min(len(names), rng.choice([0, 0, 1, 2]))):
                ty = spec["types"][t]
                if ty["lc"] == "singleton" or ty["disc"] == "moved" or ty.get("lt"):
                    continue
                idx = names.index(t)
                cid = "C%d_%d" % (idx, counters["ovr"])
                counters["ovr"] += 1
                # a type that observers / error handlers may rely on as infallible stays infallible in every scope
                make_ctor(cid, t, names[:idx], ty["lc"], force_infallible=infallible[t] or rt_infallible.get(t, False), primary=False)
                items.append(["ctor", cid])
        # types that only exist in this subtree: their only registration sits here, invisible to siblings and ancestors
        if depth > 0 and kn.p_scoped and rng.random() < 0.45:
            for _ in range(rng.choice([1, 1, 2])):
                t = "TL%d" % counters["label"]
                counters["label"] += 1
                lc = rng.choices(["singleton", "request", "transient"], [3, 4, 2])[0]
                disc = "free" if lc == "transient" else rng.choices(["shared", "cloneable", "copy"], [5, 3, 1])[0]
                ty = {"lc": lc, "disc": disc}
                if disc == "copy":
                    ty["copy"] = ty["clone"] = True
                elif disc == "cloneable":
                    ty["clone"] = True
                else:
                    ty["clone"] = rng.random() < 0.3
                spec["types"][t] = ty
                cid = "C" + t
                if lc == "singleton" and rng.random() < 0.3:
                    c = make_state_input(rng, spec, cid, t)
                else:
                    c = make_ctor(cid, t, [u for u in local_types if u != t], lc)
                infallible[t] = (not c.get("fallible")) and all(infallible[u] for (u, _) in c["ins"])
                items.append(["ctor", cid])
                local_types.append(t)
        body = []
        nh = budget["h"]
        # routes, in groups that share a template
        while nh > 0:
            ntempl = rng.choice([1, 1, 2, 3])
            for templ in route_group(ntempl):
                if nh <= 0:
                    break
                if rng.random() < 0.12:
                    hid = new_handler(local_types)
                    spec["handlers"][hid].update({"path": templ, "methods": rng.choice(["ANY", "ANY_ALL"])})
                    body.append(["route", hid])
                    nh -= 1
                    continue
                k = rng.choice([1, 1, 2, 3])
                for ms in method_sets(k):
                    if nh <= 0:
                        break
                    hid = new_handler(local_types)
                    spec["handlers"][hid].update({"path": templ, "methods": ms})
                    if "{" in templ:
                        r = rng.random()
                        if r < 0.35:
                            spec["handlers"][hid]["raw_params"] = True
                        elif r < 0.65:
                            import re as _re
                            names_ = _re.findall(r"\{\*?(\w+)\}", templ)
                            k_ = rng.randint(1, len(names_))
                            spec["handlers"][hid]["path_params"] = sorted(rng.sample(names_, k_))
                    body.append(["route", hid])
                    nh -= 1
        for _ in range(budget["m"]):
            body.append([None, "mw"])
        for _ in range(budget["o"]):
            body.append([None, "obs"])
        # nested blueprints
        for cb in budget["children"]:
            body.append([None, "nest", cb])
        rng.shuffle(body)
        for it in body:
            if it[0] is None and it[1] == "mw":
                mid = new_mw(local_types)
                items.append([spec["mws"][mid]["kind"], mid])
            elif it[0] is None and it[1] == "obs":
                items.append(["obs", new_obs(local_types)])
            elif it[0] is None and it[1] == "nest":
                opts = {}
                if rng.random() < (0.35 if kn.flavour == "routing" else 0.6):
                    # (no prefix is a *string* prefix of another one - `/n1x` vs `/n11x`: the compiler treats `/n11/..` as lying
                    # below a fallback registered for `/n1`, a recorded finding with its own witness)
                    opts["prefix"] = "/n%dx" % counters["label"]
                    counters["label"] += 1
                    if rng.random() < 0.2:
                        opts["prefix"] += "/{np%d}" % counters["label"]
                child = build_bp(depth + 1, local_types, it[2], own_prefix=bool(opts.get("prefix")), under_prefix=under_prefix or bool(opts.get("prefix")), bp_stack=bp_stack,
                                 owner_fb=fb_for_children)
                if kn.avoid_known and opts.get("prefix", "").endswith("}") and any(x[0] == "fallback" for x in child["items"]):
                    # known finding (router.rs assign_fallbacks): a prefix ending in a parameter + a fallback in the
                    # nested blueprint panics; exercised by a dedicated regression case instead
                    opts["prefix"] = opts["prefix"].rsplit("/", 1)[0]
                items.append(["nest", opts, child])
            else:
                items.append(it)
        if pushed_local is not None:
            local_errors.remove(pushed_local)
        if want_fb:
            items.insert(rng.randint(0, len(items)), ["fallback", new_fb([t for t in local_types if spec["types"][t]["disc"] != "moved"])])
        return {"items": items}

    def split_budget(depth, h, m, o):
        children = []
        if depth < kn.max_depth and h >= 2:
            nchild = rng.choice([0, 1, 1, 2]) if kn.flavour is None else rng.choice([1, 2, 2])
            for _ in range(nchild):
                ch = rng.randint(1, max(1, h // 2))
                cm = rng.randint(0, m // 2)
                co = rng.randint(0, o // 2) if o else 0
                h -= ch
                m -= cm
                o -= co
                children.append(split_budget(depth + 1, ch, cm, co))
                if h <= 1:
                    break
        return {"h": max(h, 0), "m": m, "o": o, "children": children}

    budget = split_budget(0, n_handlers_target, n_mws_target, n_obs_target)
    tree = build_bp(0, names, budget)
    # root registrations: primary constructors + error handlers, shuffled in front (constructors are position independent)
    head = [["ctor", "C%d" % i] for i in range(n_types)]
    deferred_ids = set(e for (_, e) in deferred_eh)
    for ehid in spec["ehs"]:
        if ehid not in deferred_ids:
            head.append(["eh", ehid])
    rng.shuffle(head)
    # a few of them go to random positions of the root blueprint instead
    k = rng.randint(0, min(3, len(head)))
    moved = [head.pop() for _ in range(k)]
    # (in place: deferred error-handler registrations refer to this very list object)
    items = tree["items"]
    items[0:0] = head
    for it in moved:
        items.insert(rng.randint(0, len(items)), it)
    spec["bp"] = {"items": items}
    # within one blueprint the latest registration wins: a second constructor for a type, registered next to the first
    if rng.random() < kn.p_shadow:
        cands = [t for t in names if spec["types"][t]["lc"] != "singleton" and spec["types"][t]["disc"] != "moved" and not spec["types"][t].get("lt")]
        for t in rng.sample(cands, min(len(cands), rng.choice([1, 1, 2]))):
            idx = names.index(t)
            first = next((j for j, it in enumerate(items) if it[0] == "ctor" and it[1] == "C%d" % idx), None)
            if first is None:
                continue
            cid = "C%d_s" % idx
            # (a type that observers / error handlers rely on stays infallible whichever registration wins)
            make_ctor(cid, t, names[:idx], spec["types"][t]["lc"], force_infallible=infallible[t] or rt_infallible.get(t, False) or rng.random() < 0.4, primary=False)
            items.insert(rng.randint(0, len(items)), ["ctor", cid])
    for (target_items, ehid) in deferred_eh:
        target_items.insert(rng.randint(0, len(target_items)), ["eh", ehid])
    spec["errors"] = spec["errors"] + spec.pop("errors_local", [])
    _attach_some_error_handlers(rng, spec)
    if rng.random() < kn.p_generics:
        add_generics(rng, spec, kn)
    if kn.domains:
        domainize(rng, spec)
    if rng.random() < getattr(kn, "p_sibling_regs", 0):
        share_override_with_sibling(rng, spec)
    if kn.avoid_known:
        repair_known(spec)
    if rng.random() < kn.p_scoped:
        scope_registrations(rng, spec)
    if rng.random() < kn.p_prims:
        add_prims(rng, spec)
    vary_cloning_representation(rng, spec)
    vary_lifecycle_representation(rng, spec)
    if rng.random() < kn.p_modules:
        modularize(rng, spec)
    if rng.random() < kn.p_crates:
        crateize(rng, spec)
    if rng.random() < kn.p_methods:
        methodize(rng, spec)
    if rng.random() < kn.p_imports:
        importize(rng, spec)
    if rng.random() < getattr(kn, "p_shapes", 0):
        shapeize(rng, spec)
    return spec


def importize(rng, spec):
    """Representation pass: registrations written as imports. A run of consecutive routes of one blueprint moves to a module
    and is registered with one `bp.routes(from![crate::<module>])` at that position; some constructors / error handlers of a
    blueprint move to a module registered with one `bp.import(from![crate::<module>])`. The blueprint items stay what they
    were (the reference model does not change); they only carry the module they are imported from."""
    dep = spec.get("dep") or {"ctors": [], "types": [], "errors": []}
    k = 0
    for bp, _d in _bp_nodes(spec["bp"]):
        # --- routes
        run = []
        runs = []
        for it in bp["items"] + [["end"]]:
            if it[0] == "route" and len(it) == 2 and not spec["handlers"][it[1]].get("method"):
                run.append(it)
            else:
                if run:
                    runs.append(run)
                run = []
        for run in runs:
            if rng.random() < 0.5:
                mod = "r_%d" % k
                k += 1
                for it in run:
                    it.append({"import": mod})
                    spec["handlers"][it[1]]["module"] = mod
        # --- constructors and error handlers (position independent inside one blueprint)
        per_type = {}
        for it in bp["items"]:
            if it[0] == "ctor":
                per_type[spec["ctors"][it[1]]["out"]] = per_type.get(spec["ctors"][it[1]]["out"], 0) + 1
        pool = []
        for it in bp["items"]:
            if len(it) != 2:
                continue
            if it[0] == "ctor":
                c = spec["ctors"][it[1]]
                if c.get("input") or c.get("module") or c.get("method") or c.get("generic_param") or it[1] in dep["ctors"] or per_type[c["out"]] > 1:
                    continue
                pool.append(it)
            elif it[0] == "eh":
                eh = spec["ehs"][it[1]]
                if eh.get("method") or eh["err"] == "pavex":
                    continue
                pool.append(it)
        if len(pool) >= 2 and rng.random() < 0.5:
            mod = "i_%d" % k
            k += 1
            for it in rng.sample(pool, rng.randint(2, len(pool))):
                it.append({"import": mod})
                (spec["ctors"] if it[0] == "ctor" else spec["ehs"])[it[1]]["module_import"] = mod


def share_override_with_sibling(rng, spec):
    """An overriding constructor of a nested blueprint is registered in a sibling blueprint as well: the two siblings then
    designate the same (non-inherited) registration, their parent and the other siblings still designate the inherited one.
    Written either as one module imported by both blueprints (`bp.import(from![crate::sib_0])` twice) or as two plain
    registrations of the same constructor."""
    import copy
    n = 0
    for bp, _d in list(_bp_nodes(spec["bp"])):
        kids = [it for it in bp["items"] if it[0] == "nest"]
        if len(kids) < 2:
            continue
        for a in kids:
            ovr = [it for it in a[2]["items"] if it[0] == "ctor" and len(it) == 2 and it[1].count("_") == 1 and it[1][1:].replace("_", "").isdigit()]
            if not ovr or rng.random() < 0.3:
                continue
            it = rng.choice(ovr)
            c = spec["ctors"][it[1]]
            if c.get("generic_param") or c.get("input") or spec["types"][c["out"]]["lc"] == "singleton":
                continue
            others = [b for b in kids if b is not a and not any(x[0] == "ctor" and spec["ctors"][x[1]]["out"] == c["out"] for x in b[2]["items"])]
            if not others:
                continue
            b = rng.choice(others)
            backup = copy.deepcopy(spec)
            if not (c.get("module") or c.get("method")) and rng.random() < 0.6:
                mod = "sib_%d" % n
                it.append({"import": mod})
                c["module_import"] = mod
            b[2]["items"].insert(rng.randint(0, len(b[2]["items"])), list(it) if len(it) == 2 else [it[0], it[1], dict(it[2])])
            if not certificate(spec)[0]:
                spec.clear()
                spec.update(backup)
                return
            n += 1
            if n >= 2:
                return


def make_state_input(rng, spec, cid, t):
    """A singleton that the user builds and hands to `ApplicationState::new`: a prebuilt type (`#[pavex::prebuilt]`,
    never cloned unless it says so) or a configuration entry (`#[pavex::config(key = ..)]`, a field of the generated
    `ApplicationConfig`; must be Clone; cloned if necessary unless it says `never_clone`). In the spec it is a
    constructor without inputs whose `input` key says how it is written; `cloning` is always the policy in effect."""
    ty = spec["types"][t]
    kind = rng.choice(["prebuilt", "config"])
    c = {"out": t, "ins": [], "lc": "singleton", "input": kind}
    if ty["disc"] == "cloneable":
        eff = "cin"
    elif ty["disc"] == "copy":
        eff = rng.choice(["cin", "never"])
    else:
        eff = "never"
    c["cloning"] = eff
    if kind == "config":
        ty["clone"] = True
        c["key"] = "k_%s" % t.lower()
        if eff == "cin" and rng.random() < 0.6:
            c["ann_cloning"] = None        # the default of configuration entries
        if rng.random() < 0.3:
            c["include_if_unused"] = True
    elif eff == "never" and rng.random() < 0.6:
        c["ann_cloning"] = None            # the default of prebuilt types
    spec["ctors"][cid] = c
    return c


def scope_registrations(rng, spec):
    """Registrations of parents are inherited, registrations of siblings are invisible: a constructor (singletons, prebuilt
    types and configuration entries included) whose users all live in one nested blueprint may be registered there instead
    of the root. A user is a root component (handler, middleware, fallback, observer) whose resolved closure contains the
    registration; types that an error handler needs stay where they are (error handlers run on behalf of many components)."""
    from e2e.model import Model
    m = Model(spec)
    users = {}
    for k in ("handlers", "mws", "fallbacks", "obs"):
        for xid in spec[k]:
            if xid not in m.reg:
                continue
            for (cid, _t) in m.closure(xid):
                users.setdefault(cid, []).append(m.reg[xid][0])
    pinned = set()
    for eh in spec["ehs"].values():
        stack = [t for (t, _m) in eh.get("ins", [])]
        while stack:
            t = stack.pop()
            for cid, c in spec["ctors"].items():
                if m.ctor_out_matches(cid, t) and cid not in pinned:
                    pinned.add(cid)
                    stack += [u for (u, _m) in m.ctor_inputs(cid, t)]
    root_regs = {it[1]: it for it in spec["bp"]["items"] if it[0] == "ctor"}
    # a constructor's own inputs are resolved from the blueprint *it* is registered in: whatever builds them must sit in
    # that blueprint or in one of its ancestors. Dependents are placed first; a dependency never goes deeper than they do.
    depth_of = {}
    for cid in reversed([x for x in spec["ctors"] if x in root_regs]):
        it = root_regs[cid]
        c = spec["ctors"][cid]
        dependents = [x for x, cx in spec["ctors"].items() if any(m.ctor_out_matches(cid, t) for (t, _m) in m.ctor_inputs(x, cx["out"]) if t in spec["types"] or "<" in t)]
        limit = min([depth_of.get(x, 0) for x in dependents] + [99])
        if cid in pinned or c.get("generic_param") or cid not in users or rng.random() < 0.4 or limit == 0:
            continue
        # other registrations for the same type (overrides further down) must not end up next to this one
        if sum(1 for c2 in spec["ctors"].values() if c2["out"] == c["out"]) > 1:
            continue
        scopes = users[cid]
        lca = scopes[0]
        for sc in scopes[1:]:
            n = 0
            while n < min(len(lca), len(sc)) and lca[n] == sc[n]:
                n += 1
            lca = lca[:n]
        if not lca:
            continue
        # somewhere on the path from the root to the blueprint that contains every user
        depth = rng.randint(1, min(len(lca), limit))
        depth_of[cid] = depth
        bp = spec["bp"]
        for i in lca[:depth]:
            bp = [x for x in bp["items"] if x[0] == "nest"][i][2]
        spec["bp"]["items"].remove(it)
        bp["items"].insert(rng.randint(0, len(bp["items"])), it)


def add_prims(rng, spec):
    """Framework primitives as extra inputs of any request-time component (and of request-scoped / transient
    constructors): shared references only (clause a), except the raw body, which one handler may take by value."""
    borrowable = ["head", "conn", "allowed", "rawparams"]
    for group in ("handlers", "mws", "fallbacks", "ehs", "obs"):
        for xid, x in spec[group].items():
            if rng.random() < 0.35:
                pool = [p for p in borrowable if not (group == "fallbacks" and p == "allowed") and not (p == "rawparams" and x.get("raw_params"))]
                x["prims"] = sorted(rng.sample(pool, rng.choice([1, 1, 2])))
    for cid, c in spec["ctors"].items():
        if c["lc"] != "singleton" and not c.get("generic_param") and not c.get("input") and rng.random() < 0.25:
            c["prims"] = sorted(rng.sample(["head", "conn", "rawparams"], rng.choice([1, 1, 2])))
    hs = [h for h in spec["handlers"].values()]
    if hs and rng.random() < 0.5:
        h = rng.choice(hs)
        h["prims"] = sorted(set(h.get("prims", []) + ["body"]))


def crateize(rng, spec):
    """Representation pass: a dependency-closed part of the types, their constructors and the errors those return
    moves to a second library crate of the workspace (`depk`), which the application depends on — under its own name
    or renamed (`dk = { package = "depk", .. }`). Registrations then name foreign paths (`dk::C3`), and the generated
    SDK has to depend on, and spell the paths of, a crate that is not the application."""
    plain = [t for t, tt in spec["types"].items() if not tt.get("generic")]
    moved = set()
    ctors = []
    for cid, c in spec["ctors"].items():
        if c.get("generic_param") or c.get("module") or c.get("module_import") or c.get("input") or c["out"] not in plain:
            continue
        # constructors come in dependency order: all inputs of a moved constructor must have moved before it
        if all(t in moved for (t, _m) in c["ins"]) and rng.random() < 0.65:
            moved.add(c["out"])
            ctors.append(cid)
    if not ctors:
        return
    # every type a moved constructor mentions must be in the dependency (an override registered for a moved type may stay
    # in the application: the fields of our types are public)
    errors = []
    for cid in ctors:
        e = spec["ctors"][cid].get("fallible")
        if e and e not in errors:
            errors.append(e)
    spec["dep"] = {"alias": rng.choice(["depk", "dk"]), "types": [t for t in spec["types"] if t in moved],
                   "errors": errors, "ctors": ctors}


def shapeize(rng, spec):
    """Representation pass: one to three constructible types stop being nominal. Wherever the application says `T3` it now
    says `(T3, u8)` (a tuple) or `[T3; 1]` (an array): the instrumented struct is still inside, so identities, provenance and
    clone events are observed as before, `Copy`/`Clone`/`Send` are inherited structurally, and nothing changes in what the
    application means. What changes is the kind of type the compiler has to resolve, compare, name fields after, decide
    `Copy`/`Clone` for and spell in the generated code. Only plain local types that no representation needs a name for are
    eligible (no generic wrappers or their arguments, no borrowing types, no method receivers / `impl` targets, no
    application-state inputs, nothing that lives in the dependency crate)."""
    dep = spec.get("dep") or {"types": [], "errors": [], "ctors": []}
    busy = set(dep["types"])
    texts = []
    for c in spec["ctors"].values():
        texts.append(c["out"])
        texts += [t for (t, _m) in c.get("ins") or []]
        if c.get("input"):
            busy.add(c["out"])
        if c.get("method"):
            busy.add(c["method"].get("on"))
        if c.get("generic_param"):
            busy.add(base_of_name(c["out"]))
    for group in ("handlers", "mws", "fallbacks", "obs", "ehs"):
        for x in spec[group].values():
            texts += [t for (t, _m) in x.get("ins") or []]
            if x.get("method") and x["method"].get("on"):
                busy.add(x["method"]["on"])
    for t in texts:
        if "<" in t:
            busy.add(base_of_name(t))
            busy.add(t[t.index("<") + 1:-1])
    cands = [t for t, tt in spec["types"].items()
             if t not in busy and not tt.get("generic") and not tt.get("lt") and "<" not in t]
    rng.shuffle(cands)
    for t in cands[:rng.choice([1, 1, 2, 3])]:
        spec["types"][t]["shape"] = rng.choice(["tuple", "tuple", "array"])


def base_of_name(t):
    return t.split("<")[0]


def methodize(rng, spec, p=0.5):
    """Representation pass: some components become inherent methods inside `#[pavex::methods] impl T { .. }` blocks —
    static ones on the type they build (returning `Self` or the type's name), or methods whose receiver
    (`&self`, `&mut self`, `self`) is their first injected input; error handlers become `&self` methods of their error
    type. What is registered, injected and expected at run time does not change; the callable paths the compiler has to
    resolve and spell in the generated code do."""
    def plain(t):
        tt = spec["types"].get(t)
        return tt is not None and not tt.get("generic") and not tt.get("lt") and "<" not in t

    dep = spec.get("dep") or {"types": [], "errors": [], "ctors": []}

    def receiver_of(comp, in_dep=False):
        ins = comp.get("ins") or []
        return bool(ins) and plain(ins[0][0]) and (in_dep or ins[0][0] not in dep["types"])

    for cid, c in spec["ctors"].items():
        if c.get("generic_param") or c.get("module") or c.get("module_import") or c.get("input") or not plain(c["out"]) or rng.random() >= p:
            continue
        in_dep = cid in dep["ctors"]
        if not in_dep and c["out"] in dep["types"]:
            if not receiver_of(c):
                continue
            c["method"] = {"on": c["ins"][0][0], "receiver": True, "bare_attr": rng.random() < 0.5}
        elif receiver_of(c, in_dep) and c["ins"][0][0] != c["out"] and rng.random() < 0.5:
            c["method"] = {"on": c["ins"][0][0], "receiver": True, "bare_attr": rng.random() < 0.5}
        else:
            c["method"] = {"on": c["out"], "self_ret": rng.random() < 0.6, "bare_attr": rng.random() < 0.5}
        if rng.random() < 0.35 and not c.get("async"):
            # the method belongs to a trait implemented for the type: the generated code must spell `<T as Trait>::method`
            c["method"]["trait"] = "Tr%s" % cid
    for group in ("handlers", "mws", "fallbacks", "obs"):
        for xid, x in spec[group].items():
            if rng.random() < p and receiver_of(x) and x.get("path_params") is None:
                x["method"] = {"on": x["ins"][0][0], "receiver": True, "bare_attr": rng.random() < 0.5}
    for ehid, eh in spec["ehs"].items():
        if eh["err"] != "pavex" and eh["err"] not in dep["errors"] and eh["err"] not in (spec.get("generic_errors") or {}) and rng.random() < p:
            eh["method"] = {"bare_attr": rng.random() < 0.5}


def _bp_nodes(bp, depth=0):
    yield bp, depth
    for it in bp["items"]:
        if it[0] == "nest":
            yield from _bp_nodes(it[2], depth + 1)


def add_generics(rng, spec, kn):
    """Generic (output-driven) constructors, specialised at several concrete types, with concrete or generic overrides in
    nested blueprints: `fn cg<T>(t: &T) -> G<T>` at the root, optionally `fn cgc(..) -> G<Tk>` / another generic one nested.
    Everybody only borrows G<..> immutably (clause a), so the application stays inside C02's class."""
    # (the generic constructor borrows its argument: values that are moved into their single consumer are not eligible)
    concrete = [t for t, ty in spec["types"].items() if not ty.get("generic") and ty.get("disc") != "moved" and not t.startswith("TL") and not ty.get("lt")]
    if not concrete:
        return
    # a generic *singleton* (`#[singleton] fn cg<T>(t: &T) -> G<T>`) is specialised at singletons only, is built once per
    # specialisation while the application state is built, and has no second registration anywhere
    singles = [t for t in concrete if spec["types"][t]["lc"] == "singleton"]
    lc = rng.choice(["request", "transient"] + (["singleton"] if singles else []))
    if lc == "singleton":
        concrete = singles
    g = "G0"
    spec["types"][g] = {"lc": lc, "disc": "shared", "generic": True, "clone": rng.random() < 0.3}
    spec["ctors"]["CG0"] = {"out": g + "<T>", "ins": [["T", "ref"]], "lc": lc, "generic_param": "T"}
    spec["bp"]["items"].insert(0, ["ctor", "CG0"])
    if lc != "singleton" and rng.random() < getattr(kn, "p_generic_errors", 0):
        # the generic constructor is fallible and its error type has the same type parameter:
        # `fn cg<T>(t: &T) -> Result<G<T>, GE<T>>`, handled by the generic `fn eh<T>(e: &GE<T>) -> Response`
        spec["errors"].append("GE0")
        spec["generic_errors"] = {"GE0": "T"}
        spec["ctors"]["CG0"]["fallible"] = "GE0"
        spec["ehs"]["EH_GE0"] = {"err": "GE0", "ins": [], "status": 560}
        spec["bp"]["items"].insert(0, ["eh", "EH_GE0"])
    args = rng.sample(concrete, min(len(concrete), rng.choice([1, 2, 2, 3])))
    users = [(k, xid) for k in ("handlers", "mws", "fallbacks") for xid in spec[k]]
    if kn.flavour == "observers":
        users = [(k, xid) for (k, xid) in users if k != "mws"]
    rng.shuffle(users)
    for i, (k, xid) in enumerate(users[:rng.choice([2, 3, 4, 5])]):
        a = args[i % len(args)]
        spec[k][xid].setdefault("ins", []).append(["%s<%s>" % (g, a), "ref"])
    # overrides in nested blueprints (nearest registration wins; a concrete and a generic constructor never share a blueprint)
    nested = [bp for (bp, d) in _bp_nodes(spec["bp"]) if d > 0] if lc != "singleton" else []
    rng.shuffle(nested)
    for n, bp in enumerate(nested[:rng.choice([0, 1, 1, 2])]):
        if rng.random() < 0.5:
            a = rng.choice(args)
            cid = "CG0_c%d" % n
            spec["ctors"][cid] = {"out": "%s<%s>" % (g, a), "ins": [], "lc": lc}
        else:
            cid = "CG0_g%d" % n
            spec["ctors"][cid] = {"out": g + "<T>", "ins": [["T", "ref"]], "lc": lc, "generic_param": "T"}
        bp["items"].insert(0, ["ctor", cid])


def modularize(rng, spec):
    """Put some constructors into modules under a shared function name (`m3::connect`, `m7::connect`): every name the
    compiler derives from the function name (state fields, error variants, ...) then needs disambiguation."""
    names = ["connect", "build", "new"]
    cids = [cid for cid, c in spec["ctors"].items() if not c.get("generic_param") and not c.get("input") and not c.get("module_import")]
    rng.shuffle(cids)
    # fallible singletons first: their errors become variants of the application state error
    cids.sort(key=lambda cid: 0 if (spec["ctors"][cid]["lc"] == "singleton" and spec["ctors"][cid].get("fallible")) else 1)
    fn = rng.choice(names)
    for cid in cids[:rng.choice([2, 3, 4])]:
        spec["ctors"][cid]["module"] = "m_" + cid.lower()
        spec["ctors"][cid]["fn_name"] = fn


def set_effective_cloning(spec, cid, policy):
    """Make `policy` the cloning policy in effect for constructor `cid`, written in its attribute (any registration-level
    override is dropped)."""
    c = spec["ctors"][cid]
    c["cloning"] = policy
    c.pop("ann_cloning", None)
    for bp, _d in _bp_nodes(spec["bp"]):
        for it in bp["items"]:
            if it[0] == "ctor" and it[1] == cid and len(it) > 2:
                it[2].pop("cloning", None)


def vary_lifecycle_representation(rng, spec):
    """The lifecycle in effect for a constructor (`lc`) can be the one its attribute states or one set when it is registered
    (`bp.constructor(C).lifecycle(Lifecycle::Singleton)`), which overrides the attribute (`ann_lc`)."""
    regs = {}
    for bp, _d in _bp_nodes(spec["bp"]):
        for it in bp["items"]:
            if it[0] == "ctor":
                regs.setdefault(it[1], []).append(it)
    for cid, c in spec["ctors"].items():
        its = regs.get(cid, [])
        if len(its) != 1 or c.get("input") or rng.random() > 0.25:
            continue
        it = its[0]
        if len(it) < 3:
            it.append({})
        it[2]["lc"] = c["lc"]
        c["ann_lc"] = rng.choice([x for x in ("singleton", "request", "transient") if x != c["lc"]])


def vary_cloning_representation(rng, spec):
    """The effective cloning policy of a constructor (`cloning`) can be written in its attribute or set when it is
    registered (`bp.constructor(C).clone_if_necessary()` / `.never_clone()`), the latter overriding the former."""
    regs = {}
    for bp, _d in _bp_nodes(spec["bp"]):
        for it in bp["items"]:
            if it[0] == "ctor":
                regs.setdefault(it[1], []).append(it)
    for cid, c in spec["ctors"].items():
        its = regs.get(cid, [])
        if len(its) != 1 or rng.random() > 0.35:
            continue
        eff = c.get("cloning")
        base = c["out"].split("<")[0]
        ty = spec["types"].get(base, {})
        it = its[0]
        if len(it) < 3:
            it.append({})
        if eff == "cin":
            c["ann_cloning"] = rng.choice([None, "never"])
            it[2]["cloning"] = "cin"
        else:
            # effective never-clone (explicit or default): the attribute may even say clone_if_necessary
            c["ann_cloning"] = "cin" if (ty.get("clone") or ty.get("copy")) and rng.random() < 0.6 else None
            it[2]["cloning"] = "never"
            c["cloning"] = "never"


GUARD_POOLS = [
    # mutually disjoint guard sets (distinct registrable domains); the right-most label is always a literal. Every pool has a
    # templated guard that starts with a literal label and sorts before one of the static guards (guards are kept in sorted
    # order by the compiler, static and templated ones are told apart in the generated router)
    ["app.s0.com", "{sub}.s1.com", "{*any}.s2.com", "a.{b}.{c}.s3.com"],
    ["s0.dev", "api.{v}.s1.dev", "{sub}.api.s2.dev", "{*rest}.x.s3.dev"],
    ["{tenant}.s0.io", "s1.io.", "{*any}.s2.io", "m1.{region}.s3.io"],
    ["{p}x.s0.org", "www.s1.org", "{*w}.cdn.s2.org", "cdn.{z}.s3.org"],
]


def domainize(rng, spec, many=None):
    """Domain guards are all-or-nothing: wrap every run of consecutive routes / nested blueprints of the root blueprint
    into a `bp.domain(<guard>).nest(..)`; middlewares, observers and the root fallback stay where they are."""
    pool = list(rng.choice(GUARD_POOLS))
    rng.shuffle(pool)
    # many guards (two-digit indices in the generated router): one guard per route / nested blueprint of the root
    many = many if many is not None else rng.random() < 0.35
    if many:
        pool = [("n%02d.big.com" % i) if i % 3 else ("{t}.m%02d.big.com" % i) for i in range(14)]
        rng.shuffle(pool)
        # enough top-level routes for 11-14 guards: input-free handlers appended to the root blueprint
        have = sum(1 for it in spec["bp"]["items"] if it[0] in ("route", "nest"))
        for k in range(max(0, rng.randint(11, 14) - have)):
            hid = "HX%d" % k
            spec["handlers"][hid] = {"ins": [], "path": "/x%d" % k, "methods": [rng.choice(["GET", "POST"])], "path_params": None}
            spec["bp"]["items"].append(["route", hid])
    out = []
    run = None
    nests = []
    for it in spec["bp"]["items"]:
        if it[0] in ("route", "nest"):
            if many and len(nests) < len(pool):
                run = None
            if run is None:
                if len(nests) < len(pool):
                    run = []
                    nests.append(run)
                    out.append(["nest", {"domain": pool[len(nests) - 1]}, {"items": run}])
                else:
                    run = nests[-1]
            run.append(it)
        else:
            run = None
            out.append(it)
    spec["bp"]["items"] = out
    spec["domains"] = pool[:len(nests)]
    spare = pool[len(nests):]
    for i, run in enumerate(nests):
        # a guard nested inside a guarded blueprint: only requests to the inner domain reach the routes nested under it
        if spare and len(run) >= 2 and rng.random() < 0.4:
            a = rng.randint(0, len(run) - 1)
            b = rng.randint(a + 1, len(run))
            inner = spare.pop()
            run[a:b] = [["nest", {"domain": inner}, {"items": run[a:b]}]]
            spec["domains"].append(inner)
        # a fallback of the guarded blueprint itself: unknown paths on that domain
        if rng.random() < 0.5:
            fid = "FBD%d" % i
            spec["fallbacks"][fid] = {"ins": [], "status": 460 + i}
            run.insert(rng.randint(0, len(run)), ["fallback", fid])


def repair_known(spec):
    """Steer random in-class specs away from the structural patterns of known findings (each of which is still
    executed on every run by its dedicated regression case), so that they do not drown the exploration:
      * a fallible component inside a middleware's call graph shared by pipelines with different observer chains
        (codegen 'did not visit all nodes') -> all observers move to the front of the root blueprint;
      * a request-scoped constructor overridden in a nested blueprint while >= 2 inherited middlewares inject the type, or one
        does and a component of the nested blueprint needs it too (enforce_invariants panic), or below an inherited wrapping
        middleware (override resolved in the parent's scope) -> the override is dropped."""
    from e2e.model import Model
    m = Model(spec)
    # --- observers
    def fallible_graph(mid):
        if spec["mws"][mid].get("fallible"):
            return True
        return any(spec["ctors"][cid].get("fallible") for (cid, _t) in m.closure(mid))
    risky = [mid for mid in spec["mws"] if mid in m.reg and fallible_graph(mid)]
    if risky and spec["obs"]:
        obs_items = []

        def strip(bp):
            keep = []
            for it in bp["items"]:
                if it[0] == "obs":
                    obs_items.append(it)
                else:
                    if it[0] == "nest":
                        strip(it[2])
                    keep.append(it)
            bp["items"] = keep
        strip(spec["bp"])
        for it in obs_items:
            # (an observer that moves to the root no longer sees the types that only exist in a subtree)
            o = spec["obs"][it[1]]
            o["ins"] = [i for i in o.get("ins", []) if not i[0].startswith("TL")]
        spec["bp"]["items"] = obs_items + spec["bp"]["items"]
        m = Model(spec)
    # --- request-scoped overrides
    def walk(bp, scope, inherited_mws):
        mws_here = list(inherited_mws)
        n_child = 0
        for it in list(bp["items"]):
            if it[0] in ("pre", "post", "wrap", "obs"):
                mws_here.append(it[1])
            elif it[0] == "nest":
                child_scope = scope + (n_child,)
                n_child += 1
                child = it[2]
                for cit in list(child["items"]):
                    if cit[0] == "ctor" and "_" in cit[1] and cit[1] in spec["ctors"] and spec["ctors"][cit[1]]["lc"] == "request":
                        t = spec["ctors"][cit[1]]["out"].split("<")[0]
                        from e2e.patterns import _components_under, uses_type
                        uses = lambda x: uses_type(spec, m, x, t)
                        users = [x for x in mws_here if uses(x)]
                        inherited_wrap = any(x in spec["mws"] and spec["mws"][x]["kind"] == "wrap" for x in mws_here)
                        needed_below = bool(users) and any(uses(x) for x in _components_under(child) if x in m.reg)
                        if len(users) >= 2 or any(x in spec["obs"] for x in users) or inherited_wrap or needed_below:
                            # (the same constructor may be registered in a sibling blueprint too: every registration goes)
                            for other, _d in _bp_nodes(spec["bp"]):
                                other["items"][:] = [x for x in other["items"] if not (x[0] == "ctor" and x[1] == cit[1])]
                            del spec["ctors"][cit[1]]
                            m.__init__(spec)
                walk(child, child_scope, mws_here)
    walk(spec["bp"], (), [])


def _attach_some_error_handlers(rng, spec):
    """For a few fallible components, attach the (type-matching) error handler directly at registration."""
    by_err = {}
    for ehid, eh in spec["ehs"].items():
        by_err.setdefault(eh["err"], []).append(ehid)

    def visit(bp):
        for it in bp["items"]:
            if it[0] == "nest":
                visit(it[2])
                continue
            if it[0] in ("ctor", "pre", "post", "wrap", "route", "fallback"):
                comp = spec["ctors"].get(it[1]) or spec["mws"].get(it[1]) or spec["handlers"].get(it[1]) or spec["fallbacks"].get(it[1])
                e = comp.get("fallible")
                if comp.get("lc") == "singleton":
                    continue
                if e and e in by_err and rng.random() < 0.25:
                    if len(it) < 3:
                        it.append({})
                    it[2]["eh"] = rng.choice(by_err[e])
    visit(spec["bp"])


# --------------------------------------------------------------------------------------------------------------
# Class certificate (self-check): re-derive from the emitted spec that it is inside C02's class.
# --------------------------------------------------------------------------------------------------------------

def certificate(spec):
    """Returns (ok, reasons, per-type clause). Clauses: a = only borrowed immutably, b = moved into exactly one consumer
    per path and never borrowed, c = Copy, d = Clone + clone-if-necessary, t = transient (one instance per site)."""
    from e2e.model import Model
    m = Model(spec)
    problems = []
    clause = {}
    uses = {t: [] for t in spec["types"]}  # (owner id, owner kind, mode)
    for cid, c in spec["ctors"].items():
        for (t, mode) in c["ins"]:
            if t == c.get("generic_param"):
                continue
            uses[t.split("<")[0]].append((cid, "ctor", mode))
    for k in ("mws", "handlers", "fallbacks", "ehs", "obs"):
        for xid, x in spec[k].items():
            for (t, mode) in x.get("ins", []):
                uses[t.split("<")[0]].append((xid, k, mode))
    # a specialisation `G<A>` of a generic constructor uses `A` the way the constructor's signature says
    for k in ("mws", "handlers", "fallbacks", "ehs", "obs"):
        for xid, x in spec[k].items():
            for (t, mode) in x.get("ins", []):
                if "<" in t:
                    for cid, c in spec["ctors"].items():
                        if c.get("generic_param") and m.ctor_out_matches(cid, t):
                            for (u, mo) in m.ctor_inputs(cid, t):
                                if u.split("<")[0] in uses:
                                    uses[u.split("<")[0]].append(("%s@%s" % (cid, t), "ctor", mo))
    # documented rule: an error observer may not need a fallible constructor, directly or transitively (a fallible singleton is
    # fine: it cannot fail any more while a request is served). Checked in the observer's scope and in every scope below it.
    for oid in spec["obs"]:
        if oid not in m.reg:
            continue
        s0 = m.reg[oid][0]
        for sc in m.bps:
            if sc[:len(s0)] != s0:
                continue
            for (cid, _t) in m.closure(oid, scope=sc):
                cc = spec["ctors"][cid]
                if cc.get("fallible") and cc["lc"] != "singleton":
                    problems.append("observer %s needs the fallible constructor %s" % (oid, cid))
    for t, ty in spec["types"].items():
        us = uses[t]
        modes = set(mo for (_, _, mo) in us)
        if "mut" in modes:
            problems.append("%s is injected as &mut" % t)
        cins = [c.get("cloning") == "cin" for c in spec["ctors"].values() if c["out"].split("<")[0] == t]
        if ty.get("copy"):
            clause[t] = "c"
        elif ty["lc"] == "transient":
            clause[t] = "t"
        elif modes <= {"ref"}:
            clause[t] = "a"
        elif ty.get("clone") and cins and all(cins):
            clause[t] = "d"
        elif modes == {"val"}:
            owners = [(o, k) for (o, k, _) in us]
            kinds = set(k for (_, k) in owners)
            if kinds <= {"handlers", "fallbacks"}:
                clause[t] = "b"
            elif len(owners) == 1:
                o, k = owners[0]
                if k == "ctor" and spec["ctors"][o]["lc"] == "transient" and ty["lc"] != "transient":
                    problems.append("%s moved into transient ctor %s" % (t, o))
                clause[t] = "b"
            else:
                problems.append("%s is moved by several consumers: %s" % (t, owners))
        else:
            problems.append("%s is both borrowed and moved without Copy/clone-if-necessary" % t)
    # singletons depend only on singletons
    for cid, c in spec["ctors"].items():
        if c["lc"] == "singleton":
            for (t, _) in c["ins"]:
                if t.split("<")[0] in spec["types"] and spec["types"][t.split("<")[0]]["lc"] != "singleton":
                    problems.append("singleton ctor %s depends on %s" % (cid, t))
    # every injected type has a constructor in scope of the injecting root component
    for k in ("mws", "handlers", "fallbacks", "obs"):
        for xid in spec[k]:
            if xid not in m.reg:
                problems.append("%s is not registered" % xid)
                continue
            scope = m.reg[xid][0]
            seen = set()
            stack = [t for (t, _) in spec[k][xid].get("ins", [])]
            while stack:
                t = stack.pop()
                if t in seen:
                    continue
                seen.add(t)
                cid = m.resolve(scope, t)
                if cid is None:
                    problems.append("%s needs %s but no constructor is in scope" % (xid, t))
                    continue
                stack += [u for (u, _) in m.ctor_inputs(cid, t)]
    # ... and in the scope of the blueprint the injecting *constructor* is registered in (whichever of the two scopes the
    # compiler uses for a constructor's own inputs, the type can be built)
    for s_, regs in m.ctor_regs.items():
        for (_pos, cid, _opts) in regs:
            c = spec["ctors"][cid]
            for (t, _mode) in c["ins"]:
                if t == c.get("generic_param"):
                    continue
                if m.resolve(s_, t) is None:
                    problems.append("constructor %s (registered in %s) needs %s but no constructor is visible from there" % (cid, s_, t))
    return (not problems), problems, clause


def shape_signature(spec):
    """Canonical, name-erased shape used to count distinct cases."""
    import hashlib
    nodes = sorted((t["lc"], t.get("disc", ""), bool(spec["ctors"].get("C%s" % n[1:], {}).get("fallible")), spec["ctors"].get("C%s" % n[1:], {}).get("input") or "",
                    t.get("shape") or "")
                   for n, t in spec["types"].items())
    def lc_of(t):
        return spec["types"].get(t.split("<")[0], {}).get("lc", "generic")
    edges = sorted((lc_of(c["out"]), lc_of(t), mo) for c in spec["ctors"].values() for (t, mo) in c["ins"])

    def bp_sig(bp):
        return [it[0] if it[0] != "nest" else ["nest", bool(it[1].get("prefix")), bool(it[1].get("domain")), bp_sig(it[2])] for it in bp["items"] if it[0] not in ("ctor", "eh")]
    comps = sorted((k, len(x.get("ins", [])), bool(x.get("fallible"))) for k in ("mws", "handlers", "fallbacks", "obs") for x in spec[k].values())
    blob = json.dumps([nodes, edges, bp_sig(spec["bp"]), comps], sort_keys=True)
    return hashlib.sha256(blob.encode()).hexdigest()[:16]
