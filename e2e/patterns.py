"""Structural patterns of the known compiler findings. A panic at a known location is only attributed to the known finding
when the application actually contains the structural trigger; otherwise it is a new violation (same symptom, other cause)."""
from e2e.model import Model


def _bp_nodes(bp, depth=0):
    yield bp, depth
    for it in bp["items"]:
        if it[0] == "nest":
            yield from _bp_nodes(it[2], depth + 1)


def _eff_cloning(spec, cid):
    return spec["ctors"][cid].get("cloning")


def fallible_mw_graph_and_observers(spec, m):
    if not spec["obs"]:
        return False
    for mid in spec["mws"]:
        if mid not in m.reg:
            continue
        if spec["mws"][mid].get("fallible"):
            return True
        if any(spec["ctors"][cid].get("fallible") for (cid, _t) in m.closure(mid)):
            return True
    return False


def cin_value_moved_into_constructor(spec, m):
    """A clone-if-necessary value, or a singleton, taken by value by a (request-time) constructor."""
    cin_types = set(c["out"].split("<")[0] for c in spec["ctors"].values() if c.get("cloning") == "cin")
    singles = set(t for t, ty in spec["types"].items() if ty.get("lc") == "singleton")
    for c in spec["ctors"].values():
        for (t, mode) in c["ins"]:
            b = t.split("<")[0]
            if mode == "val" and (b in cin_types or (b in singles and c["lc"] != "singleton")):
                return True
    return False


def _components_under(bp):
    for b, _d in _bp_nodes(bp):
        for it in b["items"]:
            if it[0] in ("pre", "post", "wrap", "obs", "route", "fallback"):
                yield it[1]


def uses_type(spec, m, x, t):
    """Does the call graph of component x mention type t: an input of x, of a constructor x (transitively) needs, or of an
    error handler for an error that x or one of those constructors may return?"""
    base = lambda tt: tt.split("<")[0]
    comp = m.comp(x)[1]
    clo = m.closure(x)
    if any(base(tt) == t for (tt, _m) in comp.get("ins", [])) or any(base(tt) == t for (_c, tt) in clo):
        return True
    errs = set(e for e in [comp.get("fallible")] + [spec["ctors"][c].get("fallible") for (c, _t) in clo] if e)
    for eh in spec["ehs"].values():
        if (eh["err"] in errs or (eh["err"] == "pavex" and errs)) and any(base(tt) == t for (tt, _m) in eh.get("ins", [])):
            return True
    return False


def request_scoped_override_with_inherited_mws(spec, m):
    def uses(x, t):
        return uses_type(spec, m, x, t)

    def walk(bp, mws_here):
        mws_here = list(mws_here)
        for it in bp["items"]:
            if it[0] in ("pre", "post", "wrap", "obs"):
                mws_here.append(it[1])
            elif it[0] == "nest":
                for cit in it[2]["items"]:
                    if cit[0] == "ctor" and spec["ctors"][cit[1]]["lc"] == "request":
                        t = spec["ctors"][cit[1]]["out"].split("<")[0]
                        users = [x for x in mws_here if uses(x, t)]
                        # (an observer is spliced into the graph of every fallible component of the pipeline)
                        if len(users) >= 2 or any(x in spec["obs"] for x in users):
                            return True
                        # one inherited user is enough when a component of the nested blueprint needs the type too
                        # (directly, or through a request-scoped value it shares with the inherited middleware)
                        if users and any(uses(x, t) for x in _components_under(it[2])):
                            return True
                if walk(it[2], mws_here):
                    return True
        return False
    return walk(spec["bp"], [])


def _reach(spec, ins):
    """(type, mode) pairs met when walking the inputs of a component and of every constructor registered for the types
    it needs (any scope)."""
    base = lambda t: t.split("<")[0]
    out, seen, stack = [], set(), list(ins)
    while stack:
        t, mode = stack.pop()
        out.append((base(t), mode))
        if base(t) in seen:
            continue
        seen.add(base(t))
        for c in spec["ctors"].values():
            if base(c["out"]) == base(t):
                stack += [(u, mo) for (u, mo) in c["ins"]]
    return out


def value_moved_for_error_handler_and_borrowed_by_observer(spec, m):
    """A non-Copy value is taken by value somewhere in the dependency chain of an error handler while an error observer
    (which runs after the handler) borrows it: the clone that is needed is not inserted (`complex_borrow_check` lets the
    observer release its borrow before the handler's dependencies are built, the ordering pass cannot)."""
    moved = set()
    for eh in spec["ehs"].values():
        moved |= set(t for (t, mode) in _reach(spec, eh.get("ins", [])) if mode == "val")
    moved = set(t for t in moved if t in spec["types"] and not spec["types"][t].get("copy"))
    if not moved:
        return False
    for o in spec["obs"].values():
        if any(t in moved for (t, _mode) in _reach(spec, o.get("ins", []))):
            return True
    return False


def request_scoped_override_below_inherited_wrap(spec, m):
    """A nested blueprint overrides a request-scoped constructor while a wrapping middleware registered in an enclosing
    blueprint applies to it: the shared value is built in the wrapping stage, i.e. resolved in the *parent's* scope."""
    def walk(bp, wraps_here):
        wraps_here = list(wraps_here)
        for it in bp["items"]:
            if it[0] == "wrap":
                wraps_here.append(it[1])
            elif it[0] == "nest":
                if wraps_here and any(cit[0] == "ctor" and spec["ctors"][cit[1]]["lc"] == "request" and
                                      len([c for c in spec["ctors"].values() if c["out"].split("<")[0] == spec["ctors"][cit[1]]["out"].split("<")[0]]) > 1
                                      for cit in it[2]["items"]):
                    return True
                if walk(it[2], wraps_here):
                    return True
        return False
    return walk(spec["bp"], [])


def prefix_trailing_param_with_fallback(spec, m):
    for bp, _d in _bp_nodes(spec["bp"]):
        for it in bp["items"]:
            if it[0] == "nest" and (it[1].get("prefix") or "").endswith("}") and any(x[0] == "fallback" for x in it[2]["items"]):
                return True
    return False


def _guards(spec):
    out = []
    for bp, _d in _bp_nodes(spec["bp"]):
        for it in bp["items"]:
            if it[0] == "nest" and it[1].get("domain"):
                out.append(it[1]["domain"])
    return out


def guard_with_param_rightmost_label(spec, m):
    return any(g.rstrip(".").split(".")[-1].startswith("{") for g in _guards(spec))


def guard_param_name_with_comment(spec, m):
    return any("//" in g or "/*" in g for g in _guards(spec))


def generic_argument_without_constructor(spec, m):
    """A component injects `G<A>` built by a generic constructor taking `A`, and no constructor for `A` is in scope."""
    for k in ("handlers", "mws", "fallbacks"):
        for xid, x in spec[k].items():
            if xid not in m.reg:
                continue
            scope = m.reg[xid][0]
            stack = [t for (t, _) in x.get("ins", [])]
            seen = set()
            while stack:
                t = stack.pop()
                if t in seen:
                    continue
                seen.add(t)
                cid = m.resolve(scope, t)
                if cid is None:
                    continue
                for (u, _mo) in m.ctor_inputs(cid, t):
                    if spec["ctors"][cid].get("generic_param") and u.split("<")[0] in spec["types"] and m.resolve(scope, u) is None:
                        return True
                    stack.append(u)
    return False


def singleton_by_value_into_generic_constructor(spec, m):
    singles = set(t for t, ty in spec["types"].items() if ty.get("lc") == "singleton")
    return any(c.get("generic_param") and any(mo == "val" and t in singles for (t, mo) in c["ins"]) for c in spec["ctors"].values())


def type_request_time_in_parent_and_state_singleton_in_nested(spec, m):
    """One type built by a request-scoped / transient constructor in a blueprint and by a singleton (or a prebuilt type /
    configuration entry) in a blueprint nested inside it: the application-state graph resolves the nested singleton's
    type in the root scope and finds the request-time constructor."""
    for s_, regs in m.ctor_regs.items():
        for (_p, cid, _o) in regs:
            c = spec["ctors"][cid]
            if c["lc"] != "singleton" or not s_:
                continue
            for anc in m.ancestors(s_)[1:]:
                for (_p2, cid2, _o2) in m.ctor_regs[anc]:
                    c2 = spec["ctors"][cid2]
                    if c2["out"] == c["out"] and c2["lc"] != "singleton":
                        return True
    return False


# (substring of the normalised panic location, substring of the message) -> (pattern name, predicate)
KNOWN_PANIC_PATTERNS = [
    ("compiler/codegen_utils.rs", "There is no variable with type", "singleton_by_value_into_generic_constructor", singleton_by_value_into_generic_constructor),
    ("processing_pipeline/codegen.rs", "Could not find a binding for input type", "generic_argument_without_constructor", generic_argument_without_constructor),
    ("call_graph/codegen.rs", "did not visit all nodes", "fallible_mw_graph_and_observers", fallible_mw_graph_and_observers),
    ("borrow_checker/assign_order.rs", "node ordering is stuck", "value_moved_for_error_handler_and_borrowed_by_observer", value_moved_for_error_handler_and_borrowed_by_observer),
    ("processing_pipeline/pipeline.rs", "invoked at most once", "request_scoped_override_with_inherited_mws", request_scoped_override_with_inherited_mws),
    ("user_components/router.rs", "All other domain guard errors", "guard_param_name_with_comment", guard_param_name_with_comment),
    ("user_components/router.rs", "entered unreachable code", "prefix_trailing_param_with_fallback", prefix_trailing_param_with_fallback),
    ("call_graph/application_state.rs", "entered unreachable code", "type_request_time_in_parent_and_state_singleton_in_nested", type_request_time_in_parent_and_state_singleton_in_nested),
    ("matchit-", "subtract with overflow", "guard_with_param_rightmost_label", guard_with_param_rightmost_label),
]


def pattern_for_panic(spec, loc, msg):
    """'<name>' when the spec contains the structural trigger of the known finding with this symptom, 'absent' when the
    symptom is known but the trigger is not there, None for unknown symptoms."""
    loc = loc or ""
    msg = msg or ""
    for (l, mm, name, pred) in KNOWN_PANIC_PATTERNS:
        if l in loc and mm in msg:
            try:
                return name if pred(spec, Model(spec)) else "absent"
            except Exception:
                return "absent"
    return None
