"""Trace oracles for C03-C07 over the event log of one case (see render.py for the event format)."""
from e2e.model import Model, match_template, match_domain, method_matches, method_set


def V(prop, rule, detail, **sig):
    s = {"rule": rule}
    s.update(sig)
    return {"prop": prop, "sig": s, "detail": detail}


class CaseOracle:
    def __init__(self, spec):
        self.spec = spec
        self.m = Model(spec)
        self.ctors = spec["ctors"]
        self.comp_ids = set(spec["mws"]) | set(spec["handlers"]) | set(spec["fallbacks"])
        self.boot_ids = {}      # singleton ctor id -> instance id
        self.boot_ids_by_type = {}  # (generic singleton ctor id, concrete type) -> instance id
        self.boot_instances = {}  # instance id (incl. clones made at boot) -> (origin, root)
        self.stats = {"requests": 0, "events": 0, "clone_events": 0, "fail_events": 0, "early": 0, "eh_enters": 0, "obs_enters": 0,
                      "seq_exact": 0, "seq_subseq": 0, "routes_judged": 0, "fallbacks_judged": 0, "unjudged": 0,
                      "inputs_checked": 0, "transient_instances": 0, "request_instances": 0, "exercised": set()}

    # ------------------------------------------------------------------ boot
    def check_boot(self, rec, boot_fail):
        out = []
        evs = rec.get("events", [])
        self.stats["events"] += len(evs)
        if rec.get("result") == "panic":
            out.append(V("C07", "boot_panic", {"error": rec.get("error")}))
            return out
        counts = {}
        for i, e in enumerate(evs):
            if e["k"] in ("construct", "fail"):
                c = e["c"]
                # (a generic singleton constructor builds one value per concrete specialisation)
                ck = (c, e.get("t")) if self.ctors[c].get("generic_param") else c
                counts[ck] = counts.get(ck, 0) + 1
                if self.ctors[c]["lc"] != "singleton":
                    out.append(V("C03", "non_singleton_built_at_boot", {"event": e}, lc=self.ctors[c]["lc"]))
                if e["k"] == "construct":
                    self.boot_ids[c] = e["id"]
                    self.boot_ids_by_type[(c, e.get("t"))] = e["id"]
                    self.boot_instances[e["id"]] = (c, e["id"])
            elif e["k"] == "clone":
                self.stats["clone_events"] += 1
                self.boot_instances[e["new"]] = (e["origin"], e["root"])
                out += self._check_clone(e, self.boot_instances, "boot")
            out += self._check_inputs(e, i, evs, "boot", None)
        for c, n in counts.items():
            if n > 1:
                out.append(V("C03", "singleton_built_twice", {"ctor": c if isinstance(c, str) else list(c), "n": n}))
        if boot_fail:
            failed = [e for e in evs if e["k"] == "fail"]
            if failed and rec.get("result") != "err":
                out.append(V("C06", "boot_failure_not_reported", {"failed": failed, "result": rec.get("result")}))
        return out

    # ------------------------------------------------------------------ helpers
    def _check_clone(self, e, known_instances, where):
        out = []
        origin = e["origin"]
        c = self.ctors.get(origin)
        if c is None:
            return out
        ty = self.spec["types"][c["out"].split("<")[0]]
        if c.get("cloning") != "cin":
            out.append(V("C04", "illicit_clone", {"event": e, "where": where}, lc=c["lc"], policy=str(c.get("cloning"))))
        if e["from"] not in known_instances:
            out.append(V("C04", "clone_from_unknown_instance", {"event": e, "where": where}))
        else:
            o, r = known_instances[e["from"]]
            if o != origin or r != e["root"]:
                out.append(V("C04", "clone_provenance_mismatch", {"event": e, "from": [o, r]}))
        return out

    def _check_inputs(self, e, idx, evs, where, live):
        """Generic per-input checks (C03 lifecycles, construct-before-use)."""
        out = []
        for (t, mode, iid, root, origin) in e.get("in", []):
            if origin == "?":
                continue
            self.stats["inputs_checked"] += 1
            c = self.ctors.get(origin)
            if c is None:
                out.append(V("C04", "unknown_origin", {"event": e, "input": [t, mode, iid, root, origin]}))
                continue
            if c["out"].split("<")[0] != t.split("<")[0]:
                out.append(V("C04", "origin_builds_other_type", {"event": e}))
            lc = c["lc"]
            if lc == "singleton":
                want = self.boot_ids_by_type.get((origin, t)) if c.get("generic_param") else self.boot_ids.get(origin)
                if want != root:
                    out.append(V("C03", "singleton_instance_not_from_boot", {"event": e, "boot": want}))
                if iid != root and iid not in self.boot_instances and (live is None or iid not in live):
                    out.append(V("C03", "singleton_copy_of_unknown_provenance", {"event": e}))
            else:
                if live is None:
                    out.append(V("C03", "non_singleton_injected_at_boot", {"event": e}))
                    continue
                if root not in live or live[root][0] != origin:
                    out.append(V("C03", "instance_not_built_in_this_request", {"event": e, "input": [t, mode, iid, root, origin]}, lc=lc))
                elif iid not in live:
                    out.append(V("C04", "instance_of_unknown_provenance", {"event": e, "input": [t, mode, iid, root, origin]}))
        return out

    # ------------------------------------------------------------------ one request
    def check_request(self, req, rec):
        out = []
        spec, m = self.spec, self.m
        evs = rec.get("events", [])
        self.stats["requests"] += 1
        self.stats["events"] += len(evs)
        if "io_error" in rec:
            out.append(V("C07", "no_response", {"req": req, "io_error": rec["io_error"], "events": evs}))
            return out
        resp = rec["resp"]
        # ---- live instance table for this request + lifecycle cardinalities (C03)
        live = {}   # instance id -> (origin ctor, root)
        per_ctor = {}
        uses = {}   # root instance -> number of consumer events (transients)
        fails = []
        for i, e in enumerate(evs):
            k = e["k"]
            if k in ("construct", "fail") and e["c"] in self.ctors:
                c = e["c"]
                lc = self.ctors[c]["lc"]
                # (a generic constructor builds one value per concrete specialisation)
                per_ctor[(c, e.get("t"))] = per_ctor.get((c, e.get("t")), 0) + 1
                if lc == "singleton":
                    out.append(V("C03", "singleton_built_while_serving", {"event": e, "req": req_brief(req)}))
                if k == "construct":
                    live[e["id"]] = (c, e["id"])
                    if lc == "transient":
                        self.stats["transient_instances"] += 1
                    elif lc == "request":
                        self.stats["request_instances"] += 1
            if k == "fail":
                fails.append((i, e))
                self.stats["fail_events"] += 1
            if k == "clone":
                self.stats["clone_events"] += 1
                known = dict(self.boot_instances)
                known.update(live)
                out += self._check_clone(e, known, "request")
                live[e["new"]] = (e["origin"], e["root"])
            out += self._check_inputs(e, i, evs, "request", live)
            for (t, mode, iid, root, origin) in e.get("in", []):
                c = self.ctors.get(origin)
                if c and c["lc"] == "transient":
                    uses[root] = uses.get(root, 0) + 1
        for (c, _t), n in per_ctor.items():
            if self.ctors[c]["lc"] == "request" and n > 1:
                out.append(V("C03", "request_scoped_built_twice", {"ctor": c, "n": n, "req": req_brief(req), "events": evs}))
        for root, n in uses.items():
            if n > 1:
                out.append(V("C03", "transient_instance_shared", {"root": root, "n": n, "req": req_brief(req), "events": evs}))

        # ---- routing (C07): who answered?
        entered = [e["c"] for e in evs if e["k"] == "enter" and (e["c"] in spec["handlers"] or e["c"] in spec["fallbacks"])]
        exp = self.route_expectation(req)
        hid = None
        if exp["kind"] == "handler":
            self.stats["routes_judged"] += 1
            hs = [x for x in entered if x in spec["handlers"]]
            fbs = [x for x in entered if x in spec["fallbacks"]]
            cut = self._cut_before_handler(evs)
            if fbs or (hs and hs[0] not in exp["ids"]) or len(hs) > 1:
                out.append(V("C07", "wrong_handler", {"req": req_brief(req), "expected": sorted(exp["ids"]), "entered": entered, "status": resp["status"]}))
            elif not hs and not cut:
                out.append(V("C07", "handler_not_invoked", {"req": req_brief(req), "expected": sorted(exp["ids"]), "events": evs, "status": resp["status"]}))
            if len(exp["ids"]) == 1:
                hid = next(iter(exp["ids"]))
            elif hs:
                hid = hs[0]
        elif exp["kind"] == "fallback":
            self.stats["fallbacks_judged"] += 1
            hs = [x for x in entered if x in spec["handlers"]]
            if hs:
                out.append(V("C07", "handler_ran_for_unmatched_request", {"req": req_brief(req), "entered": entered, "expected": exp}))
            if exp.get("fb_ok") and len(exp["fb_ok"]) > 1:
                fbs = [x for x in entered if x in spec["fallbacks"]]
                got = fbs[0] if fbs else "DEFAULT"
                if got not in exp["fb_ok"] and not self._cut_before_handler(evs):
                    out.append(V("C07", "wrong_fallback", {"req": req_brief(req), "entered": entered, "expected": exp}, cause=exp.get("cause")))
            elif exp["fb"] == "DEFAULT":
                fbs = [x for x in entered if x in spec["fallbacks"]]
                if fbs:
                    out.append(V("C07", "wrong_fallback", {"req": req_brief(req), "entered": entered, "expected": exp}, cause=exp.get("cause")))
                elif resp["status"] != exp["status"] and not any(e["k"] in ("fail", "early") for e in evs):
                    out.append(V("C07", "default_fallback_status", {"req": req_brief(req), "status": resp["status"], "expected": exp}, want=exp["status"]))
                if exp["status"] == 405 and resp["status"] == 405:
                    allow = header(resp, "allow")
                    got = set(x.strip() for x in allow.split(",")) if allow else set()
                    if got != set(exp["allow"]):
                        out.append(V("C07", "allow_header_mismatch", {"req": req_brief(req), "allow": allow, "expected": sorted(exp["allow"])}))
            elif exp["fb"] is not None:
                fbs = [e for e in evs if e["k"] == "enter" and e["c"] in spec["fallbacks"]]
                cut = self._cut_before_handler(evs)
                if (fbs and fbs[0]["c"] != exp["fb"]) or len(fbs) > 1:
                    out.append(V("C07", "wrong_fallback", {"req": req_brief(req), "entered": entered, "expected": exp}, cause=exp.get("cause")))
                elif not fbs and not cut:
                    out.append(V("C07", "fallback_not_invoked", {"req": req_brief(req), "expected": exp, "events": evs, "status": resp["status"]}, cause=exp.get("cause")))
                elif fbs and exp.get("allow") is not None:
                    got = fbs[0].get("allow", "")
                    gotset = "ALL" if got == "ALL" else set(x for x in got.split(",") if x)
                    want = "ALL" if exp["allow"] == "ALL" else set(exp["allow"])
                    if gotset != want:
                        out.append(V("C07", "allowed_methods_mismatch", {"req": req_brief(req), "got": got, "expected": sorted(exp["allow"]) if want != "ALL" else "ALL"}))
        else:
            self.stats["unjudged"] += 1

        # ---- C04: injected instances come from the designated registration
        for e in evs:
            c = e["c"] if "c" in e else None
            if e["k"] == "enter" and c in self.comp_ids:
                scope = m.reg[c][0]
                for (t, mode, iid, root, origin) in e.get("in", []):
                    want = m.resolve(scope, t)
                    if want is not None and origin != want:
                        out.append(V("C04", "wrong_constructor", {"component": c, "type": t, "got": origin, "want": want, "req": req_brief(req)},
                                     relation=self._relation(scope, origin), pattern=self._override_pattern()))
            elif e["k"] in ("construct", "fail") and c in self.ctors:
                users = self._root_users(evs, e) if e["k"] == "construct" else None
                if users:
                    # ... plus the components of this pipeline that *would* have consumed it (a value shared by several
                    # components is built for all of them, also when an early return or a failure keeps some from running)
                    more = self._potential_users(hid, spec["ctors"][c]["out"] if c in spec["ctors"] else None, e.get("t"))
                    users = (users | more) if more is not None else None
                for (t, mode, iid, root, origin) in e.get("in", []):
                    if origin == "?":
                        continue
                    # a constructor's inputs: any registration visible from some root component of this pipeline
                    ok = self._pipeline_visible(hid, exp, t)
                    if ok is not None and origin not in ok:
                        out.append(V("C04", "constructor_input_from_invisible_registration", {"ctor": c, "type": t, "got": origin, "visible": sorted(ok), "req": req_brief(req)}))
                    elif users:
                        # ... and, more precisely, the registration that the blueprint designates "at that route": the value was built
                        # for the components that (transitively) consume it in this request, so the input must be what one of *them*
                        # resolves the type to. (A value shared by components of different blueprints may legitimately be resolved
                        # in either scope; singletons are built once for every scope that sees them.)
                        want = set(m.resolve(m.reg[u][0], t) for u in users)
                        if hid is not None and hid in m.reg:
                            # "at that route": what the blueprint of the route itself designates is always acceptable (the
                            # compiler resolves the dependencies of inherited middlewares in the scope of the route they serve)
                            want.add(m.resolve(m.reg[hid][0], t))
                        want.discard(None)
                        if want and origin not in want and self.ctors[c]["lc"] != "singleton":
                            self.stats["ctor_inputs_judged_by_users"] = self.stats.get("ctor_inputs_judged_by_users", 0) + 1
                            out.append(V("C04", "constructor_input_not_designated_for_its_users",
                                         {"ctor": c, "type": t, "got": origin, "want": sorted(want), "users": sorted(users), "req": req_brief(req)},
                                         relation=self._relation(m.reg[sorted(users)[0]][0], origin), pattern=self._override_pattern()))
                        elif want:
                            self.stats["ctor_inputs_judged_by_users"] = self.stats.get("ctor_inputs_judged_by_users", 0) + 1

        if req.get("sub") == "host":
            # host probes: the routing verdicts on them are verdicts on the domain guard semantics (C20)
            self.stats["host_probes"] = self.stats.get("host_probes", 0) + 1
            host = req.get("host") or ""
            cause = "host_with_several_trailing_dots" if host.split(":")[0].endswith("..") else ("no_host_header" if req.get("no_host") else "host_edit")
            for v in out:
                if v["prop"] == "C07":
                    v["prop"] = "C20"
                    v["sig"] = {"part": "e2e_match", "rule": v["sig"]["rule"], "cause": cause}
                    v["detail"]["guard"] = req.get("guard")
        # ---- C05 / C06 for requests that are routed to a known handler
        if hid is not None and exp["kind"] == "handler":
            out += self._check_order_and_errors(req, rec, hid, evs, fails, resp)
        return out

    def _override_pattern(self):
        if not hasattr(self, "_ovp"):
            from e2e import patterns
            self._ovp = "request_scoped_override_below_inherited_wrap" if patterns.request_scoped_override_below_inherited_wrap(self.spec, self.m) else "absent"
        return self._ovp

    def _relation(self, scope, origin):
        """How is the (wrong) registration related to the injecting scope? (for signatures)"""
        for s, regs in self.m.ctor_regs.items():
            if any(cid == origin for (_, cid, _) in regs):
                if s in self.m.ancestors(scope):
                    return "ancestor_not_nearest"
                if scope in self.m.ancestors(s):
                    return "descendant"
                return "sibling"
        return "unregistered"

    def _root_users(self, evs, construct_ev):
        """Registered components that consume, directly or through other constructed values, the instance built by
        `construct_ev` in this request (None when that cannot be told: no consumer logged, or a consumer that the model has no
        registration scope for)."""
        m = self.m
        frontier, seen, users = [construct_ev.get("id")], set(), set()
        if frontier[0] is None:
            return None
        while frontier:
            x = frontier.pop()
            if x in seen:
                continue
            seen.add(x)
            for e in evs:
                if not any(inp[3] == x for inp in e.get("in", [])):
                    continue
                if e["k"] == "construct" and e.get("c") in self.ctors:
                    if e.get("id") is not None:
                        frontier.append(e["id"])
                elif e["k"] in ("enter", "fail", "early") or e.get("c") is not None:
                    c = e.get("c")
                    if c in self.ctors:
                        continue  # a failing constructor consumes its inputs and has no users of its own
                    if c not in m.reg or c not in self.comp_ids:
                        # error handlers and observers are nodes of the call graph of the component that failed: their inputs
                        # resolve in that component's scope, which the log does not name
                        return None
                    users.add(c)
        return users or None

    def _potential_users(self, hid, out_t, concrete_t):
        """Root components of the pipeline of `hid` whose dependency closure contains the type; None when the type is
        also reachable from an error handler or an observer (their inputs resolve in the scope of whichever component
        failed) or when the request was not routed to a known handler."""
        m = self.m
        if hid is None or out_t is None:
            return None
        names = {out_t, concrete_t} - {None}
        base = set(n.split("<")[0] for n in names)

        def mentions(t):
            return t in names or t.split("<")[0] in base
        for grp in ("ehs", "obs"):
            for xid, x in self.spec[grp].items():
                stack, seen = [t for (t, _m) in x.get("ins", [])], set()
                while stack:
                    t = stack.pop()
                    if t in seen:
                        continue
                    seen.add(t)
                    if mentions(t):
                        return None
                    for cid, cc in self.spec["ctors"].items():
                        if m.ctor_out_matches(cid, t):
                            stack += [it for (it, _mm) in m.ctor_inputs(cid, t)]
        out = set()
        for r in m.chain(hid) + [hid]:
            if r not in m.reg:
                continue
            _, comp = m.comp(r)
            if any(mentions(t) for (t, _m) in comp.get("ins", [])) or any(mentions(t) for (_cid, t) in m.closure(r)):
                out.add(r)
        return out

    def _pipeline_visible(self, hid, exp, t):
        m = self.m
        roots = []
        if hid is not None:
            roots = m.chain(hid) + [hid] + m.observers(hid)
        elif exp.get("fb") and exp["fb"] != "DEFAULT":
            return None
        else:
            return None
        scopes = set(m.reg[r][0] for r in roots)
        for eh in self.spec["ehs"]:
            if eh in m.reg:
                scopes.add(m.reg[eh][0])
        ok = set()
        for s in scopes:
            r = m.resolve(s, t)
            if r:
                ok.add(r)
        return ok

    def _cut_before_handler(self, evs):
        """Was the pipeline legitimately cut before the handler (failure or early return observed)?"""
        return any(e["k"] in ("fail", "early") for e in evs)

    # ------------------------------------------------------------------ order + errors
    def _check_order_and_errors(self, req, rec, hid, evs, fails, resp):
        out = []
        spec, m = self.spec, self.m
        mwset = set(spec["mws"])
        seq = [(e["k"], e["c"]) for e in evs if e["k"] in ("enter", "exit", "early", "fail") and (e["c"] in mwset or e["c"] in spec["handlers"])]
        ctor_failed = any(e["c"] in self.ctors for (_, e) in fails)
        comp_fail = [f for f in req["fail"] if f in mwset or f in spec["handlers"]]
        expected, exp_resp = m.expected_sequence(hid, comp_fail, req["early"])
        self.stats["early"] += sum(1 for s in seq if s[0] == "early")
        foreign = m.later_or_foreign(hid)
        ran_foreign = [e["c"] for e in evs if e["k"] == "enter" and e["c"] in foreign]
        if ran_foreign:
            out.append(V("C05", "out_of_scope_component_ran", {"req": req_brief(req), "components": ran_foreign,
                                                               "kinds": sorted(set("obs" if x in spec["obs"] else spec["mws"][x]["kind"] for x in ran_foreign))}))
        if not ctor_failed:
            self.stats["seq_exact"] += 1
            if seq != [tuple(x) for x in expected]:
                out.append(V("C05", "sequence_mismatch", {"req": req_brief(req), "observed": seq, "expected": expected, "chain": m.chain(hid)},
                             shape=self._shape(hid), fault=bool(comp_fail), early=bool(req["early"])))
        else:
            self.stats["seq_subseq"] += 1
            if not is_subsequence(seq, [tuple(x) for x in expected]):
                out.append(V("C05", "sequence_not_a_subsequence", {"req": req_brief(req), "observed": seq, "expected": expected},
                             shape=self._shape(hid)))
        for x in set(c for (_, c) in seq):
            self.stats["exercised"].add(self._kind(x))

        # ---- C06
        for e in evs:
            if e["k"] == "enter" and str(e.get("c", "")).startswith("EHD_"):
                # an error handler that opted out of imports (`default = false`) and is registered nowhere
                out.append(V("C06", "unregistered_error_handler_ran", {"req": req_brief(req), "handler": e["c"], "err": e.get("err")}))
        observers = m.observers(hid)
        for (idx, fe) in fails:
            f = fe["c"]
            err = fe["err"]
            # nothing that needs F's Ok value runs afterwards
            if f in self.ctors:
                for e in evs[idx + 1:]:
                    for (t, mode, iid, root, origin) in e.get("in", []):
                        if origin == f and self.ctors[f]["lc"] != "transient":
                            out.append(V("C06", "dependent_ran_after_failure", {"req": req_brief(req), "failed": f, "event": e}))
            ehs = [(i, e) for i, e in enumerate(evs) if e["k"] == "enter" and e["c"] in spec["ehs"] and e.get("err") == err]
            self.stats["eh_enters"] += len(ehs)
            designated = self._designated(f, hid)
            if designated == {"DEFAULT"}:
                if ehs:
                    out.append(V("C06", "unexpected_error_handler", {"req": req_brief(req), "failed": f, "handlers": [e["c"] for _, e in ehs]}))
            elif "DEFAULT" in designated and not ehs:
                pass  # the framework's own handler (no event) is one of the acceptable ones
            else:
                if len(ehs) != 1:
                    out.append(V("C06", "error_handler_count", {"req": req_brief(req), "failed": f, "err": err, "n": len(ehs), "designated": sorted(designated), "events": evs},
                                 n=len(ehs), kind=self._kind(f)))
                elif ehs[0][1]["c"] not in designated:
                    out.append(V("C06", "wrong_error_handler", {"req": req_brief(req), "failed": f, "got": ehs[0][1]["c"], "designated": sorted(designated)},
                                 kind=self._kind(f)))
                elif ehs[0][0] < idx:
                    out.append(V("C06", "error_handler_before_failure", {"req": req_brief(req), "failed": f}))
            obs = [(i, e) for i, e in enumerate(evs) if e["k"] == "enter" and e["c"] in spec["obs"] and e.get("err") == err]
            self.stats["obs_enters"] += len(obs)
            got = [e["c"] for _, e in obs]
            if got != observers:
                out.append(V("C06", "observer_chain_mismatch", {"req": req_brief(req), "failed": f, "err": err, "got": got, "expected": observers, "events": evs},
                             n_got=len(got), n_want=len(observers), kind=self._kind(f)))
            elif obs and ehs and obs[0][0] < ehs[0][0]:
                out.append(V("C06", "observer_before_error_handler", {"req": req_brief(req), "failed": f}))
        # the response the client sees
        posts_after = lambda i0: [e["c"] for e in evs[i0:] if e["k"] == "exit" and e["c"] in mwset and spec["mws"][e["c"]]["kind"] == "post"]
        xposts = [v for (k, v) in resp["headers"] if k == "x-post"]
        if fails:
            idx, fe = fails[-1]
            designated = self._designated(fe["c"], hid)
            ok_bodies = set()
            for d in designated:
                if d == "DEFAULT":
                    ok_bodies.add((500, None))
                else:
                    ok_bodies.add((spec["ehs"][d]["status"], "EH=%s;err=%s" % (d, fe["err"])))
            if not any(resp["status"] == st and (b is None or resp["body"] == b or req["method"] == "HEAD") for (st, b) in ok_bodies):
                out.append(V("C06", "client_response_not_from_error_handler", {"req": req_brief(req), "status": resp["status"], "body": resp["body"], "acceptable": sorted(map(str, ok_bodies)), "events": evs}))
            if xposts != posts_after(idx):
                out.append(V("C06", "post_processing_after_error_mismatch", {"req": req_brief(req), "x-post": xposts, "posts_exited_after_failure": posts_after(idx)}))
        else:
            want_posts = [e["c"] for e in evs if e["k"] == "exit" and e["c"] in mwset and spec["mws"][e["c"]]["kind"] == "post"]
            if xposts != want_posts:
                out.append(V("C05", "response_post_headers_mismatch", {"req": req_brief(req), "x-post": xposts, "posts_exited": want_posts}))
            earlies = [c for (k, c) in seq if k == "early"]
            want_body = "EARLY=%s" % earlies[0] if earlies else "H=%s" % hid
            if resp["body"] != want_body and req["method"] != "HEAD":
                out.append(V("C05", "response_body_mismatch", {"req": req_brief(req), "body": resp["body"], "want": want_body}))
        return out

    def _designated(self, f, hid):
        return self.m.designated_eh(f, self.m.reg[hid][0])

    def _kind(self, x):
        s = self.spec
        if x in s["ctors"]:
            return "ctor:" + s["ctors"][x]["lc"]
        if x in s["mws"]:
            return s["mws"][x]["kind"]
        if x in s["handlers"]:
            return "handler"
        if x in s["fallbacks"]:
            return "fallback"
        return "?"

    def _shape(self, hid):
        return "".join({"pre": "p", "post": "q", "wrap": "W"}[self.spec["mws"][x]["kind"]] for x in self.m.chain(hid))

    # ------------------------------------------------------------------ reference router
    def route_expectation(self, req):
        spec, m = self.spec, self.m
        path, method, host = req["path"], req["method"], req.get("host")
        path = path.split("?")[0]
        matching = []
        for hid, h in spec["handlers"].items():
            dom = m.domain_of(hid)
            if dom is not None and not match_domain(dom, host):
                continue
            if match_template(m.full_path(hid), path) is not None:
                matching.append(hid)
        if matching:
            ok = [hid for hid in matching if method_matches(spec["handlers"][hid]["methods"], method)]
            templates = set((m.full_path(h), m.domain_of(h)) for h in matching)
            if ok:
                if len(set((m.full_path(h), m.domain_of(h)) for h in ok)) == 1 and len(ok) == 1:
                    return {"kind": "handler", "ids": set(ok)}
                # several templates match: the property only speaks of "the unique handler"
                return {"kind": "handler", "ids": set(ok)}
            if len(templates) > 1:
                return {"kind": "unjudged", "why": "several templates match the path, none the method"}
            scopes = set(m.reg[h][0] for h in matching)
            if len(scopes) > 1:
                return {"kind": "unjudged", "why": "one path registered in several blueprints"}
            allow = set()
            for h in matching:
                ms = method_set(spec["handlers"][h]["methods"])
                if ms == "ALL":
                    return {"kind": "unjudged", "why": "ANY_ALL route cannot miss a method"}
                allow |= ms
            fb = self.nearest_fallback(next(iter(scopes)))
            return {"kind": "fallback", "fb": fb, "allow": sorted(allow), "status": 405}
        # nothing matches: innermost blueprint whose prefix/domain covers the request
        best = ()
        for scope, b in m.bps.items():
            if b["domain"] is not None and not match_domain(b["domain"], host):
                continue
            pfx = b["prefix"]
            if pfx and not prefix_covers(pfx, path):
                continue
            if b["parent"] is not None and not b.get("own_prefix") and not b.get("own_domain"):
                # nested without its own prefix/domain: it does not cover anything by itself
                continue
            if len(scope) > len(best) or best == ():
                if all(self._covers_chain(s, path, host) for s in m.ancestors(scope)):
                    if len(scope) >= len(best):
                        best = scope
        if any(b["domain"] is not None for b in m.bps.values()) and host is None:
            return {"kind": "fallback", "fb": self.nearest_fallback(()), "allow": None, "status": 404}
        cause = None
        if best != () and len(path.split("/")) == len(m.bps[best]["prefix"].split("/")):
            cause = "path_equals_nest_prefix"
        exp = {"kind": "fallback", "fb": self.nearest_fallback(best), "allow": None, "status": 404, "cause": cause}
        if m.bps[best]["domain"] is not None and not m.bps[best]["fallback"]:
            # inside a domain the documentation only says that the top-level fallback runs when *no guard* matches. C07 itself
            # says that the fallback of the innermost blueprint whose prefix/domain covers the request runs: when that
            # blueprint registers a fallback of its own, that one is demanded; when it registers none, which fallback owns
            # an unmatched path below a matching guard is not specified: accept any fallback registered in
            # that domain's subtree or inherited from an enclosing blueprint
            dom_root = best
            while m.bps[dom_root]["parent"] is not None and not m.bps[dom_root].get("own_domain"):
                dom_root = m.bps[dom_root]["parent"]
            ok = set(self.nearest_fallback(s) for s in m.ancestors(best))
            for scope, b in m.bps.items():
                if scope[:len(dom_root)] == dom_root and b["fallback"]:
                    ok.add(b["fallback"])
            exp["fb_ok"] = sorted(ok)
        elif not m.bps[best]["fallback"]:
            # the covering blueprint registers no fallback itself: the documentation does not say whether the fallback it
            # inherits for its routes also owns its prefix; accept the fallback of any enclosing blueprint
            exp["fb_ok"] = sorted(set(self.nearest_fallback(s) for s in m.ancestors(best)))
        return exp

    def _covers_chain(self, scope, path, host):
        return True

    def nearest_fallback(self, scope):
        for s in self.m.ancestors(scope):
            if self.m.bps[s]["fallback"]:
                return self.m.bps[s]["fallback"]
        return "DEFAULT"


def prefix_covers(prefix_template, path):
    """Does the path start with the (possibly parametric) prefix, segment-wise?"""
    tsegs = prefix_template.split("/")[1:]
    psegs = path.split("/")[1:]
    if len(psegs) < len(tsegs):
        return False
    for ts, ps in zip(tsegs, psegs):
        if ts.startswith("{"):
            if ps == "":
                return False
        elif ts != ps:
            return False
    return True


def header(resp, name):
    for k, v in resp["headers"]:
        if k == name:
            return v
    return None


def is_subsequence(a, b):
    it = iter(b)
    return all(any(x == y for y in it) for x in a)


def req_brief(req):
    return {k: req.get(k) for k in ("kind", "hid", "method", "path", "host", "fail", "early")}
