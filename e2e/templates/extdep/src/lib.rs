//! A dependency outside the application workspace (so that pavexc caches its docs) whose public signatures depend on a
//! cargo feature: the documentation cache must key on the enabled features.
pub struct ExtCfg;
pub struct ExtClient {
    pub with_cfg: bool,
}

#[pavex::singleton(id = "EXT_CFG")]
pub fn ext_cfg() -> ExtCfg {
    ExtCfg
}

#[cfg(feature = "extra")]
#[pavex::request_scoped(id = "EXT_CLIENT")]
pub fn ext_client(_cfg: &ExtCfg) -> ExtClient {
    ExtClient { with_cfg: true }
}

#[cfg(not(feature = "extra"))]
#[pavex::request_scoped(id = "EXT_CLIENT")]
pub fn ext_client() -> ExtClient {
    ExtClient { with_cfg: false }
}

// Part of the crate's API lives in a file that is not a `.rs` file: the documentation cache must notice when it changes.
include!("api.in");
