//! Driver: boots the generated server in-process, sends the case's request plan over loopback with raw
//! HTTP/1.1, and after each response drains the application's event log.
//! Output: one JSON object per line on stdout.
use std::future::IntoFuture;
use std::io::{Read, Write};
use std::time::Duration;

mod boot;

fn esc(s: &str) -> String {
    serde_json::to_string(s).unwrap()
}

fn send(port: u16, raw: &[u8]) -> Result<Vec<u8>, String> {
    let mut s = std::net::TcpStream::connect(("127.0.0.1", port)).map_err(|e| format!("connect: {e}"))?;
    s.set_read_timeout(Some(Duration::from_secs(20))).ok();
    s.write_all(raw).map_err(|e| format!("write: {e}"))?;
    let mut out = Vec::new();
    match s.read_to_end(&mut out) {
        Ok(_) => Ok(out),
        Err(e) => {
            if out.is_empty() {
                Err(format!("read: {e}"))
            } else {
                Ok(out)
            }
        }
    }
}

fn parse_response(bytes: &[u8]) -> serde_json::Value {
    let text = String::from_utf8_lossy(bytes).to_string();
    let (head, body) = match text.find("\r\n\r\n") {
        Some(i) => (&text[..i], &text[i + 4..]),
        None => (&text[..], ""),
    };
    let mut lines = head.split("\r\n");
    let status_line = lines.next().unwrap_or("");
    let status: i64 = status_line.split(' ').nth(1).and_then(|s| s.parse().ok()).unwrap_or(-1);
    let mut headers = Vec::new();
    let mut chunked = false;
    for l in lines {
        if let Some((k, v)) = l.split_once(':') {
            let k = k.trim().to_ascii_lowercase();
            let v = v.trim().to_string();
            if k == "transfer-encoding" && v.to_ascii_lowercase().contains("chunked") {
                chunked = true;
            }
            headers.push(serde_json::json!([k, v]));
        }
    }
    let body = if chunked { dechunk(body) } else { body.to_string() };
    serde_json::json!({"status": status, "headers": headers, "body": body})
}

fn dechunk(mut s: &str) -> String {
    let mut out = String::new();
    loop {
        let Some(i) = s.find("\r\n") else { break };
        let Ok(n) = usize::from_str_radix(s[..i].trim(), 16) else { break };
        if n == 0 {
            break;
        }
        let start = i + 2;
        if s.len() < start + n {
            out.push_str(&s[start..]);
            break;
        }
        out.push_str(&s[start..start + n]);
        s = &s[(start + n + 2).min(s.len())..];
    }
    out
}

fn drain() -> String {
    let evs = std::mem::take(&mut *app::LOG.lock().unwrap());
    format!("[{}]", evs.join(","))
}

#[tokio::main]
async fn main() {
    let plan_path = std::env::args().nth(1).expect("plan path");
    let plan: serde_json::Value = serde_json::from_str(&std::fs::read_to_string(plan_path).unwrap()).unwrap();
    let strs = |v: &serde_json::Value| -> Vec<String> {
        v.as_array().map(|a| a.iter().filter_map(|x| x.as_str().map(|s| s.to_string())).collect()).unwrap_or_default()
    };
    // Boot, possibly with boot-time faults.
    app::verif_set_plan(&strs(&plan["boot_fail"]), &[]);
    let listener = std::net::TcpListener::bind("127.0.0.1:0").unwrap();
    let port = listener.local_addr().unwrap().port();
    let incoming: pavex::server::IncomingStream = listener.try_into().unwrap();
    let server = pavex::server::Server::new()
        .set_config(pavex::server::ServerConfiguration::new().set_n_workers(1))
        .listen(incoming);
    let boot = std::panic::AssertUnwindSafe(async { boot::build().await.into_boot() }).await_catch().await;
    let state = match boot {
        Ok(Ok(s)) => {
            println!("{{\"kind\":\"boot\",\"result\":\"ok\",\"events\":{}}}", drain());
            s
        }
        Ok(Err(e)) => {
            println!("{{\"kind\":\"boot\",\"result\":\"err\",\"error\":{},\"events\":{}}}", esc(&e), drain());
            return;
        }
        Err(p) => {
            println!("{{\"kind\":\"boot\",\"result\":\"panic\",\"error\":{},\"events\":{}}}", esc(&p), drain());
            return;
        }
    };
    let handle = std::panic::catch_unwind(std::panic::AssertUnwindSafe(|| sdk::run(server, state)));
    let _handle = match handle {
        Ok(h) => h,
        Err(p) => {
            let msg = p.downcast_ref::<String>().cloned().or_else(|| p.downcast_ref::<&str>().map(|s| s.to_string())).unwrap_or_default();
            println!("{{\"kind\":\"run\",\"result\":\"panic\",\"error\":{}}}", esc(&msg));
            return;
        }
    };
    println!("{{\"kind\":\"run\",\"result\":\"ok\",\"events\":{}}}", drain());
    let reqs = plan["requests"].as_array().cloned().unwrap_or_default();
    for (i, r) in reqs.iter().enumerate() {
        app::verif_set_plan(&strs(&r["fail"]), &strs(&r["early"]));
        let raw = r["raw"].as_str().unwrap_or("").as_bytes().to_vec();
        let res = tokio::task::spawn_blocking(move || send(port, &raw)).await.unwrap();
        // Give the server a moment to finish anything it does after flushing the response.
        tokio::time::sleep(Duration::from_millis(2)).await;
        let events = drain();
        match res {
            Ok(bytes) => {
                let resp = parse_response(&bytes);
                println!("{{\"kind\":\"req\",\"i\":{i},\"resp\":{resp},\"events\":{events}}}");
            }
            Err(e) => println!("{{\"kind\":\"req\",\"i\":{i},\"io_error\":{},\"events\":{events}}}", esc(&e)),
        }
    }
    println!("{{\"kind\":\"done\"}}");
    std::process::exit(0);
}

trait IntoBoot {
    fn into_boot(self) -> Result<sdk::ApplicationState, String>;
}
impl IntoBoot for sdk::ApplicationState {
    fn into_boot(self) -> Result<sdk::ApplicationState, String> {
        Ok(self)
    }
}
impl<E: std::fmt::Debug> IntoBoot for Result<sdk::ApplicationState, E> {
    fn into_boot(self) -> Result<sdk::ApplicationState, String> {
        self.map_err(|e| format!("{e:?}"))
    }
}

trait AwaitCatch: Sized {
    type Out;
    fn await_catch(self) -> impl std::future::Future<Output = Result<Self::Out, String>>;
}
impl<F: std::future::Future> AwaitCatch for std::panic::AssertUnwindSafe<F> {
    type Out = F::Output;
    async fn await_catch(self) -> Result<F::Output, String> {
        use std::task::Poll;
        let mut fut = Box::pin(self.0);
        std::future::poll_fn(move |cx| {
            match std::panic::catch_unwind(std::panic::AssertUnwindSafe(|| fut.as_mut().poll(cx))) {
                Ok(Poll::Ready(v)) => Poll::Ready(Ok(v)),
                Ok(Poll::Pending) => Poll::Pending,
                Err(p) => {
                    let msg = p.downcast_ref::<String>().cloned().or_else(|| p.downcast_ref::<&str>().map(|s| s.to_string())).unwrap_or_default();
                    Poll::Ready(Err(msg))
                }
            }
        })
        .await
    }
}
