"""Reference semantics of a Pavex blueprint, written from the documentation (docs/guide/**, rustdoc of Blueprint).

Only facts the documentation states are encoded:
  * middleware/observer applicability is positional ("registered before the route / before the nest call");
  * execution order follows docs/guide/middleware/execution_order.md;
  * constructors are inherited from parent blueprints, the nearest registration wins, siblings are invisible;
  * error handler = the one attached to the component, else the one registered for the error type, else the
    handler for pavex::Error (user registered, else the framework default);
  * routing: docs/guide/routing/**, fallbacks: rustdoc of Blueprint::fallback.
"""
import re

MW_KINDS = ("pre", "post", "wrap")
STD9 = ["CONNECT", "DELETE", "GET", "HEAD", "OPTIONS", "PATCH", "POST", "PUT", "TRACE"]


def method_matches(methods, method):
    """`allow(any_method)` matches the standard methods; with `non_standard_methods` it matches everything."""
    if methods == "ANY_ALL":
        return True
    if methods == "ANY":
        return method in STD9
    return method in methods


def method_set(methods):
    if methods == "ANY_ALL":
        return "ALL"
    if methods == "ANY":
        return set(STD9)
    return set(methods)


class Model:
    def __init__(self, spec):
        self.spec = spec
        self.bps = {}      # scope(tuple) -> dict
        self.reg = {}      # component id -> (scope, position, item)
        self.ctor_regs = {}  # scope -> [(pos, ctor id, opts)]
        self.eh_regs = {}    # scope -> [(pos, eh id)]
        self.imports_pavex = any(h.get("path_params") is not None for h in spec["handlers"].values())
        self._walk(spec["bp"], (), None, "", None)

    # ------------------------------------------------------------------ structure
    def _walk(self, bp, scope, parent, prefix, domain, nest_pos=None):
        self.bps[scope] = {"parent": parent, "prefix": prefix, "domain": domain, "items": bp["items"], "nest_pos": nest_pos,
                           "own_prefix": None, "fallback": None}
        self.ctor_regs[scope] = []
        self.eh_regs[scope] = []
        n_child = 0
        for pos, it in enumerate(bp["items"]):
            k = it[0]
            if k == "ctor":
                self.ctor_regs[scope].append((pos, it[1], it[2] if len(it) > 2 else {}))
            elif k == "eh":
                self.eh_regs[scope].append((pos, it[1]))
                self.reg[it[1]] = (scope, pos, it)
            elif k == "nest":
                opts = it[1]
                child_scope = scope + (n_child,)
                n_child += 1
                self._walk(it[2], child_scope, scope, prefix + (opts.get("prefix") or ""), opts.get("domain") or domain, pos)
                self.bps[child_scope]["own_prefix"] = opts.get("prefix")
                self.bps[child_scope]["own_domain"] = opts.get("domain")
            else:
                self.reg[it[1]] = (scope, pos, it)
                if k == "fallback":
                    self.bps[scope]["fallback"] = it[1]

    def ancestors(self, scope):
        """scope, parent, ..., root"""
        out = []
        s = scope
        while s is not None:
            out.append(s)
            s = self.bps[s]["parent"]
        return out

    def _positional(self, comp_id, kinds):
        """Items of the given kinds registered before `comp_id` in its own blueprint and, for each enclosing blueprint,
        before the nest call; root first."""
        scope, pos, _ = self.reg[comp_id]
        segs = []
        s, p = scope, pos
        while s is not None:
            items = self.bps[s]["items"]
            segs.append([it[1] for it in items[:p] if it[0] in kinds])
            p = self.bps[s]["nest_pos"]
            s = self.bps[s]["parent"]
        out = []
        for seg in reversed(segs):
            out += seg
        return out

    def chain(self, hid):
        return self._positional(hid, MW_KINDS)

    def observers(self, hid):
        return self._positional(hid, ("obs",))

    def later_or_foreign(self, hid):
        """Middlewares/observers that must never run for this route: registered after it, or in a blueprint that is not
        an ancestor-or-self of the route's blueprint."""
        ok = set(self.chain(hid)) | set(self.observers(hid))
        allm = set(self.spec["mws"]) | set(self.spec["obs"])
        return allm - ok

    # ------------------------------------------------------------------ constructors
    def resolve(self, scope, t):
        """Nearest enclosing registration of a constructor for type `t`; within one blueprint the latest one."""
        for s in self.ancestors(scope):
            cands = [cid for (_, cid, _) in self.ctor_regs[s] if self.ctor_out_matches(cid, t)]
            if cands:
                return cands[-1]
        return None

    def visible(self, scope, t):
        out = []
        for s in self.ancestors(scope):
            out += [cid for (_, cid, _) in self.ctor_regs[s] if self.ctor_out_matches(cid, t)]
        return out

    def ctor_out_matches(self, cid, t):
        c = self.spec["ctors"][cid]
        if c.get("generic_param"):
            # W<T> template vs W<Tk>
            return t.split("<")[0] == c["out"].split("<")[0] and "<" in t
        return c["out"] == t

    def ctor_inputs(self, cid, t):
        """Inputs of ctor `cid` when building concrete type `t` (substituting the generic parameter)."""
        c = self.spec["ctors"][cid]
        g = c.get("generic_param")
        if not g:
            return c["ins"]
        arg = t[t.index("<") + 1:-1]
        return [(arg if it == g else it, m) for (it, m) in c["ins"]]

    def comp(self, cid):
        for k in ("mws", "handlers", "fallbacks", "ehs", "obs"):
            if cid in self.spec[k]:
                return k, self.spec[k][cid]
        raise KeyError(cid)

    def closure(self, comp_id, scope=None):
        """Constructor registrations (as (ctor id, concrete type)) reachable from a root component, resolving every type
        in the scope the root component was registered in."""
        if scope is None:
            scope = self.reg[comp_id][0]
        _, c = self.comp(comp_id)
        seen = set()
        stack = [t for (t, _) in c.get("ins", [])]
        while stack:
            t = stack.pop()
            cid = self.resolve(scope, t)
            if cid is None or (cid, t) in seen:
                continue
            seen.add((cid, t))
            stack += [it for (it, _) in self.ctor_inputs(cid, t)]
        return seen

    # ------------------------------------------------------------------ errors
    def error_type_of(self, fid):
        if fid in self.spec["ctors"]:
            return self.spec["ctors"][fid].get("fallible")
        return self.comp(fid)[1].get("fallible")

    def designated_eh(self, fid, use_scope):
        """Error handler for failing component `fid`:
           attached at registration, else registered for the error type in the failing component's blueprint or an
           ancestor, else the pavex::Error handler (user registered, else 'DEFAULT').
           Returns a set of acceptable handler ids (a singleton set whenever the documentation is unambiguous)."""
        err = self.error_type_of(fid)
        # attached?
        attached = set()
        if fid in self.spec["ctors"]:
            for s, regs in self.ctor_regs.items():
                for (_, cid, opts) in regs:
                    if cid == fid and opts.get("eh"):
                        attached.add(opts["eh"])
            scopes_f = [s for s, regs in self.ctor_regs.items() if any(cid == fid for (_, cid, _) in regs)]
        else:
            it = self.reg[fid][2]
            opts = it[2] if len(it) > 2 else {}
            if opts.get("eh"):
                attached.add(opts["eh"])
            scopes_f = [self.reg[fid][0]]
        if attached:
            return attached
        res = set()
        for sf in scopes_f:
            found = None
            for s in self.ancestors(sf):
                c = [eh for (_, eh) in self.eh_regs[s] if self.spec["ehs"][eh]["err"] == err]
                if c:
                    found = c[-1]
                    break
            if found is None:
                for s in self.ancestors(sf):
                    c = [eh for (_, eh) in self.eh_regs[s] if self.spec["ehs"][eh]["err"] == "pavex"]
                    if c:
                        found = c[-1]
                        break
            res.add(found or "DEFAULT")
            if found and self.spec["ehs"][found]["err"] == "pavex" and self.imports_pavex:
                # `bp.import(from![pavex])` (needed for PathParams) also brings in the framework's own handler for
                # pavex::Error; the documentation does not say which of the two registrations wins
                res.add("DEFAULT")
        return res

    # ------------------------------------------------------------------ execution order
    def expected_sequence(self, hid, fail=(), early=()):
        """Expected enter/exit/early/fail sequence over middlewares and the handler for a request in which no
        *constructor* fails. Returns (events, response) where response = {"by":..., "posts":[...]}."""
        fail = set(fail)
        early = set(early)
        mws = self.spec["mws"]
        ev = []

        def errresp(x):
            return {"by": ("EH", x), "posts": []}

        def stage(chain):
            w_idx = next((i for i, m in enumerate(chain) if mws[m]["kind"] == "wrap"), None)
            if w_idx is None:
                a, w, b = chain, None, []
            else:
                a, w, b = chain[:w_idx], chain[w_idx], chain[w_idx + 1:]
            pres = [m for m in a if mws[m]["kind"] == "pre"]
            posts = [m for m in a if mws[m]["kind"] == "post"]
            resp = None
            for p in pres:
                ev.append(("enter", p))
                if p in fail:
                    ev.append(("fail", p))
                    resp = errresp(p)
                    break
                if p in early:
                    ev.append(("early", p))
                    resp = {"by": ("EARLY", p), "posts": []}
                    break
                ev.append(("exit", p))
            if resp is None:
                if w is not None:
                    ev.append(("enter", w))
                    if w in fail:
                        ev.append(("fail", w))
                        resp = errresp(w)
                    else:
                        resp = stage(b)
                        ev.append(("exit", w))
                else:
                    ev.append(("enter", hid))
                    if hid in fail:
                        ev.append(("fail", hid))
                        resp = errresp(hid)
                    else:
                        ev.append(("exit", hid))
                        resp = {"by": ("H", hid), "posts": []}
            for q in posts:
                ev.append(("enter", q))
                if q in fail:
                    ev.append(("fail", q))
                    resp = errresp(q)
                else:
                    resp["posts"].append(q)
                    ev.append(("exit", q))
            return resp

        resp = stage(self.chain(hid))
        return ev, resp

    # ------------------------------------------------------------------ routing
    def full_path(self, hid):
        scope = self.reg[hid][0]
        return self.bps[scope]["prefix"] + self.spec["handlers"][hid]["path"]

    def domain_of(self, hid):
        return self.bps[self.reg[hid][0]]["domain"]


# ---------------------------------------------------------------------- reference router (docs/guide/routing)

def match_template(template, path):
    """Does `path` match `template`? Segments: static, {p} = one non-empty segment, trailing {*p} = non-empty rest.
    Returns dict of params or None."""
    tsegs = template.split("/")[1:]
    psegs = path.split("/")[1:]
    params = {}
    i = 0
    for i, ts in enumerate(tsegs):
        if ts.startswith("{*") and ts.endswith("}"):
            rest = "/".join(psegs[i:])
            if i >= len(psegs) or rest == "":
                return None
            params[ts[2:-1]] = rest
            return params
        if i >= len(psegs):
            return None
        if ts.startswith("{") and ts.endswith("}"):
            if psegs[i] == "":
                return None
            params[ts[1:-1]] = psegs[i]
        elif "{" in ts:
            # mixed static/param segment, e.g. `a{p}b`: not generated
            m = re.fullmatch(re.escape(ts).replace(r"\{", "{").replace(r"\}", "}"), psegs[i])
            return None
        else:
            if ts != psegs[i]:
                return None
    if len(psegs) != len(tsegs):
        return None
    return params


def match_domain(guard, host):
    """docs/guide/routing/domain_guards.md: literal labels equal; {p} = (leading part of) one label;
    leading {*p} = one or more labels; one trailing dot ignored on either side; port ignored."""
    if host is None:
        return False
    h = host
    if ":" in h:
        h = h.rsplit(":", 1)[0]  # the port is not part of the domain
    if h.endswith("."):
        h = h[:-1]
    g = guard[:-1] if guard.endswith(".") else guard
    glabels = g.split(".")
    hlabels = h.split(".")
    if any(l == "" for l in hlabels):
        return False
    gi = len(glabels) - 1
    hi = len(hlabels) - 1
    while gi >= 0:
        gl = glabels[gi]
        if gl.startswith("{*"):
            # must be the first label; one or more labels (with optional literal suffix after the parameter)
            suffix = gl[gl.index("}") + 1:]
            if hi < 0:
                return False
            if suffix:
                if not hlabels[hi].endswith(suffix) or len(hlabels[hi]) <= len(suffix) and hi == 0:
                    return False
                return len("".join(hlabels[:hi + 1])) - len(suffix) >= 1
            return hi >= 0
        if hi < 0:
            return False
        hl = hlabels[hi]
        if gl.startswith("{"):
            suffix = gl[gl.index("}") + 1:]
            if suffix:
                if not (hl.endswith(suffix) and len(hl) > len(suffix)):
                    return False
            elif hl == "":
                return False
        elif gl != hl:
            return False
        gi -= 1
        hi -= 1
    return hi < 0


def common_host(g1, g2):
    """A host that both guards match according to the documented semantics, or None (bounded search over hosts
    built from the guards' own labels)."""
    def labels(g):
        return g.rstrip(".").split(".")
    l1, l2 = labels(g1), labels(g2)
    cands = set()
    for (a, b) in ((l1, l2), (l2, l1)):
        # instantiate `a`, borrowing literal labels of `b` (aligned from the right) for a's parameters
        rb = list(reversed(b))
        for fill in ("q7", None):
            host = []
            ra = list(reversed(a))
            for i, lab in enumerate(ra):
                other = rb[i] if i < len(rb) and "{" not in rb[i] else "q7"
                if lab.startswith("{*"):
                    suffix = lab[lab.index("}") + 1:]
                    rest = [x for x in rb[i:] if "{" not in x] or ["q7"]
                    for n in (1, 2, 3):
                        tail = list(reversed((rest + ["q7", "q8"])[:n]))
                        tail[-1] = tail[-1] + suffix if suffix else tail[-1]
                        cands.add(".".join(tail + list(reversed(host))))
                    host.append(("q7" if fill else other) + suffix)
                elif lab.startswith("{"):
                    suffix = lab[lab.index("}") + 1:]
                    v = "q7" if fill else other
                    if suffix and v.endswith(suffix) and len(v) > len(suffix):
                        host.append(v)
                    else:
                        host.append(v + suffix)
                else:
                    host.append(lab)
            cands.add(".".join(reversed(host)))
    for h in sorted(cands):
        if match_domain(g1, h) and match_domain(g2, h):
            return h
    return None
