"""Request plans: which requests (and fault plans) are sent to the generated server of a case."""
import itertools

from e2e.model import Model, match_template, match_domain

STD = ["GET", "POST", "PUT", "PATCH", "DELETE", "OPTIONS"]  # HEAD is never used as a probe (hyper strips HEAD bodies)


def instantiate(template, k=0):
    segs = []
    for s in template.split("/")[1:]:
        if s.startswith("{*"):
            segs.append("r%d/q%d" % (k, k))
        elif s.startswith("{"):
            segs.append("v%d" % k)
        else:
            segs.append(s)
    return "/" + "/".join(segs)


def raw_request(method, path, host="verif.test", extra_headers=()):
    lines = ["%s %s HTTP/1.1" % (method, path)]
    if host is not None:
        lines.append("Host: %s" % host)
    for h in extra_headers:
        lines.append(h)
    if method in ("POST", "PUT", "PATCH"):
        lines.append("Content-Length: 0")
    lines.append("Connection: close")
    return "\r\n".join(lines) + "\r\n\r\n"


def host_for(guard, k=0):
    """A host that matches the domain guard."""
    if guard is None:
        return "verif.test"
    labels = []
    for l in guard.rstrip(".").split("."):
        if l.startswith("{*"):
            labels.append("w%d.x%d" % (k, k) + l[l.index("}") + 1:])
        elif l.startswith("{"):
            labels.append("p%d" % k + l[l.index("}") + 1:])
        else:
            labels.append(l)
    return ".".join(labels)


def fallible_in_pipeline(m, hid):
    """Fallible components and constructors a request to `hid` can reach, per the model."""
    spec = m.spec
    comps = m.chain(hid) + [hid]
    out = []
    for c in comps:
        if m.comp(c)[1].get("fallible"):
            out.append(c)
        for (cid, _t) in sorted(m.closure(c)):
            if spec["ctors"][cid].get("fallible") and spec["ctors"][cid]["lc"] != "singleton" and cid not in out:
                out.append(cid)
    return out


def build_plan(spec, rng, max_per_route=10):
    m = Model(spec)
    reqs = []
    k = 0
    handlers = list(spec["handlers"].items())
    for hid, h in handlers:
        path = instantiate(m.full_path(hid), k)
        k += 1
        host = host_for(m.domain_of(hid), k)
        methods = ["GET", "TRACE", "DELETE"] if h["methods"] == "ANY" else (["POST", "PURGE", "OPTIONS"] if h["methods"] == "ANY_ALL" else h["methods"])
        meth = methods[0] if methods[0] != "HEAD" or len(methods) == 1 else methods[1]
        base = {"hid": hid, "method": meth, "path": path, "host": host}
        n0 = len(reqs)
        reqs.append(dict(base, kind="route", fail=[], early=[]))
        for mm in methods[1:3]:
            reqs.append(dict(base, method=mm, kind="route", fail=[], early=[]))
        fall = fallible_in_pipeline(m, hid)
        pres = [x for x in m.chain(hid) if spec["mws"][x]["kind"] == "pre"]
        singles = [dict(base, kind="route", fail=[f], early=[]) for f in fall]
        earlies = [dict(base, kind="route", fail=[], early=[p]) for p in pres]
        pairs = []
        for a, b in itertools.combinations(fall, 2):
            pairs.append(dict(base, kind="route", fail=[a, b], early=[]))
        for p in pres:
            for f in fall[:3]:
                pairs.append(dict(base, kind="route", fail=[f], early=[p]))
        rng.shuffle(pairs)
        extra = singles + earlies
        rng.shuffle(extra)
        room = max_per_route - (len(reqs) - n0)
        reqs += extra[:max(room, 3)]
        reqs += pairs[:2]
        # repeat the plain request: cross-request sharing must only happen for singletons
        reqs.append(dict(base, kind="route", fail=[], early=[]))
    reqs += routing_probes(spec, m, rng)
    for r in reqs:
        r["raw"] = raw_request(r["method"], r["path"], r.get("host", "verif.test"))
    return reqs


def host_probes(spec, m, rng):
    """Requests aimed at domain guards: for one route per guard, hosts derived from the guard by instantiation and by
    single edits (extra / missing label, one and two trailing dots, port, other literal, no Host header)."""
    out = []
    seen = set()
    k = 500
    for hid, h in spec["handlers"].items():
        g = m.domain_of(hid)
        if g is None or g in seen:
            continue
        seen.add(g)
        path = instantiate(m.full_path(hid), k)
        meth = "GET" if h["methods"] in ("ANY", "ANY_ALL") else h["methods"][0]
        if meth == "HEAD":
            continue
        k += 1
        good = host_for(g, k)
        labels = good.split(".")
        hosts = [good, good + ".", good + "..", good + ":8080", good + ".:443", "extra." + good, ".".join(labels[1:]),
                 "zz" + good, good.rsplit(".", 1)[0] + ".zz", None]
        if "{*" in g:
            hosts += ["a.b.c." + good]
        for host in hosts:
            r = {"kind": "probe", "sub": "host", "method": meth, "path": path, "host": host, "fail": [], "early": [], "guard": g}
            if host is None:
                r["no_host"] = True
            out.append(r)
    return out


def routing_probes(spec, m, rng):
    """Requests aimed at the router: wrong methods, near-miss paths, prefix-only paths, unknown paths."""
    out = []
    seen_paths = set()
    k = 100
    for hid, h in spec["handlers"].items():
        templ = m.full_path(hid)
        path = instantiate(templ, k)
        k += 1
        host = host_for(m.domain_of(hid), k)
        if templ not in seen_paths:
            seen_paths.add(templ)
            registered = set()
            any_method = False
            for h2id, h2 in spec["handlers"].items():
                if m.full_path(h2id) == templ and m.domain_of(h2id) == m.domain_of(hid):
                    if h2["methods"] in ("ANY", "ANY_ALL"):
                        any_method = True
                        registered |= set(STD)
                    else:
                        registered |= set(h2["methods"])
            unreg = [x for x in STD if x not in registered]
            for mm in unreg[:2]:
                out.append({"kind": "probe", "method": mm, "path": path, "host": host, "fail": [], "early": []})
            out.append({"kind": "probe", "method": "FROB", "path": path, "host": host, "fail": [], "early": []})
            # near misses
            meth = "GET"
            cands = [path + "/zz", path + "/"] if not path.endswith("/") else [path + "zz", path[:-1]]
            if path.count("/") > 1:
                cands.append(path.rsplit("/", 1)[0])
            for p in cands[:3]:
                if p:
                    out.append({"kind": "probe", "method": meth, "path": p, "host": host, "fail": [], "early": []})
    for scope, b in m.bps.items():
        if b.get("own_prefix"):
            pfx = instantiate(b["prefix"], k)
            k += 1
            host = host_for(b["domain"], k)
            for p in (pfx, pfx + "/", pfx + "/zz%d" % k, pfx + "/zz/yy"):
                out.append({"kind": "probe", "method": rng.choice(["GET", "POST"]), "path": p, "host": host, "fail": [], "early": []})
    out += host_probes(spec, m, rng)
    out.append({"kind": "probe", "method": "GET", "path": "/zz-unknown", "host": "verif.test", "fail": [], "early": []})
    out.append({"kind": "probe", "method": "GET", "path": "/", "host": "verif.test", "fail": [], "early": []})
    return out
