"""Planted mode (C08): an in-class spec + exactly one violation of a rule Pavex documents as compile-time checked."""
import copy
import random

from e2e.model import Model
from e2e import gen
from e2e.gen import STD as STD_METHODS


def _registered_components(spec, m, kinds=("handlers", "mws", "fallbacks")):
    """Components that are registered *and* take part in some pipeline: a middleware or an observer registered after
    every route and fallback it could apply to is never analysed by the compiler, so a rule broken there breaks nothing."""
    applied = set()
    for k in ("handlers", "fallbacks"):
        for xid in spec[k]:
            if xid in m.reg:
                applied |= set(m.chain(xid)) | set(m.observers(xid))
    out = []
    for k in kinds:
        for xid in spec[k]:
            if xid in m.reg and (k not in ("mws", "obs") or xid in applied):
                out.append((k, xid, spec[k][xid]))
    return out


def _used_types(spec, m):
    """type -> list of (root component id, depth) that reach it."""
    used = {}
    for k, xid, x in _registered_components(spec, m, ("handlers", "mws", "fallbacks", "obs")):
        scope = m.reg[xid][0]
        frontier = [(t, 0) for (t, _) in x.get("ins", [])]
        seen = set()
        while frontier:
            t, d = frontier.pop()
            if t in seen:
                continue
            seen.add(t)
            used.setdefault(t, []).append((xid, d))
            cid = m.resolve(scope, t)
            if cid:
                frontier += [(u, d + 1) for (u, _) in m.ctor_inputs(cid, t)]
    return used


def _bp_items(bp, path=()):
    for i, it in enumerate(bp["items"]):
        yield bp, i, it
        if it[0] == "nest":
            yield from _bp_items(it[2], path + (i,))


def _remove_ctor_regs(spec, pred):
    for bp, i, it in list(_bp_items(spec["bp"])):
        if it[0] == "ctor" and pred(it[1]):
            bp["items"].remove(it)
    # a constructor that lives in a module imported as a whole (`module_import`) has no registration item of its own: it is
    # taken out of that module, otherwise the import still registers it and nothing was removed
    for cid, c in spec["ctors"].items():
        if pred(cid):
            c.pop("module_import", None)


def _nested_bps(spec):
    return [it[2] for (_bp, _i, it) in _bp_items(spec["bp"]) if it[0] == "nest"]


# ---------------------------------------------------------------------------------------------- operators
# each returns a dict describing what was planted, or None when not applicable to this spec

def _used_ctors(spec, m):
    """Constructor registrations that some registered request-time component actually resolves to (an override that
    nothing below it needs is merely an unused constructor: the compiler never looks at its inputs)."""
    out = set()
    for k, xid, x in _registered_components(spec, m, ("handlers", "mws", "fallbacks", "obs")):
        scope = m.reg[xid][0]
        frontier = [t for (t, _) in x.get("ins", [])]
        seen = set()
        while frontier:
            t = frontier.pop()
            if t in seen:
                continue
            seen.add(t)
            cid = m.resolve(scope, t)
            if cid:
                out.add(cid)
                frontier += [u for (u, _) in m.ctor_inputs(cid, t)]
    return out


def op_missing_constructor(rng, spec, m):
    used = _used_types(spec, m)
    cands = [t for t in used if t in spec["types"]]
    if not cands:
        return None
    t = rng.choice(cands)
    _remove_ctor_regs(spec, lambda cid: spec["ctors"][cid]["out"] == t)
    return {"type": t, "depth": max(d for (_, d) in used[t])}


def op_constructor_only_in_sibling(rng, spec, m):
    """The only registration of a used type moves into a nested blueprint that does not contain (all of) its users."""
    used = _used_types(spec, m)
    nests = _nested_bps(spec)
    if not nests:
        return None
    # (singletons, prebuilt types and configuration entries included: a registration in a nested blueprint is invisible
    # to the parent and to the siblings whatever the lifecycle)
    cands = [t for t in used if t in spec["types"] and any(m.reg[x][0] == () for (x, _) in used[t])]
    if not cands:
        return None
    t = rng.choice(cands)
    regs = [cid for cid, c in spec["ctors"].items() if c["out"] == t]
    _remove_ctor_regs(spec, lambda cid: cid in regs)
    rng.choice(nests)["items"].insert(0, ["ctor", regs[0]])
    return {"type": t}


def op_cycle(rng, spec, m):
    used = _used_types(spec, m)
    names = [t for t in spec["types"] if t in used]
    rng.shuffle(names)
    for t in names:
        cid = m.resolve((), t)
        if cid is None:
            continue
        lc = spec["ctors"][cid]["lc"]
        # find a (transitive) dependency u of t with a compatible lifecycle, then make u depend on t
        chain = [t]
        cur = t
        for _ in range(rng.choice([0, 1, 2, 3])):
            c = m.resolve((), cur)
            nxt = [u for (u, _) in spec["ctors"][c]["ins"] if m.resolve((), u)] if c else []
            if not nxt:
                break
            cur = rng.choice(nxt)
            chain.append(cur)
        last = chain[-1]
        clast = m.resolve((), last)
        if clast is None:
            continue
        if spec["ctors"][clast]["lc"] == "singleton" and lc != "singleton":
            continue
        spec["ctors"][clast]["ins"].append([t, "ref"])
        return {"cycle": chain, "length": len(chain)}
    return None


def op_singleton_depends_on_request_scoped(rng, spec, m):
    used = _used_types(spec, m)
    singles = [cid for cid, c in spec["ctors"].items() if c["lc"] == "singleton" and c["out"] in used]
    reqs = [t for t, ty in spec["types"].items() if ty["lc"] == "request" and m.resolve((), t)]
    if not singles or not reqs:
        return None
    cid = rng.choice(singles)
    t = rng.choice(reqs)
    spec["ctors"][cid]["ins"].append([t, "ref"])
    return {"singleton": cid, "request_scoped": t}


def op_singleton_registered_twice(rng, spec, m):
    used = _used_types(spec, m)
    nests = _nested_bps(spec)
    singles = [cid for cid, c in spec["ctors"].items() if c["lc"] == "singleton" and c["out"] in used]
    # a generic singleton constructor and, in a nested blueprint, a concrete constructor for one of its specialisations: the
    # specialisation `G<A>` then has constructors in two blueprints as well
    gen_single = [cid for cid, c in spec["ctors"].items() if c["lc"] == "singleton" and c.get("generic_param")]
    spec_types = sorted(set(t for k in ("handlers", "mws", "fallbacks") for x in spec[k].values() for (t, _mo) in x.get("ins", [])
                            if "<" in t and any(t.split("<")[0] == spec["ctors"][g]["out"].split("<")[0] for g in gen_single)))
    if nests and gen_single and spec_types and rng.random() < 0.5:
        t = rng.choice(spec_types)
        target = rng.choice(nests)
        routes = [it[1] for (_bp, _i, it) in _bp_items(target) if it[0] == "route"]
        # the specialisation must be needed outside the nested blueprint too (a route registered directly at the root),
        # otherwise the generic constructor is never specialised for it and the concrete one is its only constructor
        root_routes = [it[1] for it in spec["bp"]["items"] if it[0] == "route"]
        if routes and root_routes:
            new = gen_single[0] + "_cdup"
            spec["ctors"][new] = {"out": t, "ins": [], "lc": "singleton"}
            target["items"].insert(0, ["ctor", new])
            for hid in (routes[0], root_routes[0]):
                h = spec["handlers"][hid]
                if all(tt != t for (tt, _) in h["ins"]):
                    h["ins"].append([t, "ref"])
            return {"singleton": new, "variant": "concrete_next_to_generic"}
    if not nests or not singles:
        return None
    cid = rng.choice(singles)
    variant = rng.choice(["same_fn", "other_fn"])
    target = rng.choice(nests)
    if variant == "same_fn":
        target["items"].insert(0, ["ctor", cid])
    else:
        new = cid + "_dup"
        spec["ctors"][new] = dict(copy.deepcopy(spec["ctors"][cid]))
        target["items"].insert(0, ["ctor", new])
    # make sure the duplicate is used: a route in that nested blueprint (or below) must need the type
    t = spec["ctors"][cid]["out"]
    routes = [it[1] for (_bp, _i, it) in _bp_items(target) if it[0] == "route"]
    if not routes:
        return None
    h = spec["handlers"][routes[0]]
    if all(tt != t for (tt, _) in h["ins"]):
        h["ins"].append([t, "ref"])
    return {"singleton": cid, "variant": variant}


def _request_time_singletons(spec, m):
    out = set()
    for k, xid, x in _registered_components(spec, m):
        for (t, mode) in x.get("ins", []):
            if t in spec["types"] and spec["types"][t]["lc"] == "singleton":
                out.add(t)
    return sorted(out)


def op_singleton_not_send_sync(rng, spec, m):
    ts = _request_time_singletons(spec, m)
    if not ts:
        return None
    t = rng.choice(ts)
    which = rng.choice(["not_send", "not_sync"])
    spec["types"][t][which] = True
    spec["types"][t]["copy"] = False
    return {"type": t, "which": which}


def op_singleton_by_value_never_clone(rng, spec, m, only_derived=False):
    """A never-clone, non-Copy singleton taken by value at request time: by a handler, a middleware (wrapping ones
    included), a request-scoped/transient constructor or a generic constructor. The type does implement Clone half of the
    time, so that a compiler that wrongly accepts still produces code that builds."""
    singles = [t for t, ty in spec["types"].items() if ty["lc"] == "singleton" and not ty.get("copy") and not ty.get("generic") and m.resolve((), t)
               and all(c.get("cloning") != "cin" for c in spec["ctors"].values() if c["out"] == t)]
    if not singles:
        return None
    t = rng.choice(singles)
    if rng.random() < 0.5:
        spec["types"][t]["clone"] = True
    used = _used_types(spec, m)
    consumers = [("handler", xid, x) for (k, xid, x) in _registered_components(spec, m, ("handlers",))]
    consumers += [(x["kind"], xid, x) for (k, xid, x) in _registered_components(spec, m, ("mws",))]
    used_ctors = _used_ctors(spec, m)
    consumers += [("ctor:" + c["lc"] + (":generic" if c.get("generic_param") else ""), cid, c) for cid, c in spec["ctors"].items()
                  if c["lc"] != "singleton" and cid in used_ctors]
    if only_derived:
        # consumers whose component is derived by the compiler (a wrapping middleware once its Next<C> is bound, a
        # specialisation of a generic constructor)
        consumers = [c for c in consumers if c[0] == "wrap" or c[0].endswith(":generic")]
        spec["types"][t]["clone"] = True
    if not consumers:
        return None
    kind, xid, x = rng.choice(consumers)
    x["ins"] = [i for i in x["ins"] if i[0] != t] + [[t, "val"]]
    return {"type": t, "variant": kind, "consumer": xid}


def op_singleton_by_value_never_clone_derived(rng, spec, m):
    return op_singleton_by_value_never_clone(rng, spec, m, only_derived=True)


def op_mut_ref(rng, spec, m):
    """&mut of a singleton / a transient / a clone-if-necessary request-scoped value."""
    kinds = {
        "singleton": [t for t, ty in spec["types"].items() if ty["lc"] == "singleton" and m.resolve((), t)],
        "transient": [t for t, ty in spec["types"].items() if ty["lc"] == "transient" and m.resolve((), t)],
        "cin_request": [t for t, ty in spec["types"].items() if ty["lc"] == "request" and m.resolve((), t)
                        and all(c.get("cloning") == "cin" for c in spec["ctors"].values() if c["out"] == t)],
    }
    kinds = {k: v for k, v in kinds.items() if v}
    comps = [(xid, x) for (k, xid, x) in _registered_components(spec, m) if not (k == "mws" and x["kind"] == "wrap")]
    if not kinds or not comps:
        return None
    kind = rng.choice(sorted(kinds))
    t = rng.choice(kinds[kind])
    xid, x = rng.choice(comps)
    x["ins"] = [i for i in x["ins"] if i[0] != t] + [[t, "mut"]]
    return {"kind": kind, "type": t, "component": xid}


def op_mut_on_constructor_or_wrap(rng, spec, m):
    used = _used_types(spec, m)
    pool = []
    for cid, c in spec["ctors"].items():
        if c["out"] in used and c["ins"] and c["lc"] != "singleton":
            pool.append(("ctor", cid, c))
    for k, xid, x in _registered_components(spec, m, ("mws",)):
        if x["kind"] == "wrap" and x["ins"]:
            pool.append(("wrap", xid, x))
    # the input must be a request-scoped never-clone value, so that only the "no &mut here" rule is violated
    rng.shuffle(pool)
    for kind, xid, x in pool:
        idx = [j for j, (t, _) in enumerate(x["ins"]) if t in spec["types"] and spec["types"][t]["lc"] == "request"
               and spec["types"][t]["disc"] in ("shared",)]
        if idx:
            j = rng.choice(idx)
            x["ins"][j] = [x["ins"][j][0], "mut"]
            return {"kind": kind, "component": xid}
    return None


def op_cin_not_clone(rng, spec, m):
    used = _used_types(spec, m)
    cands = [cid for cid, c in spec["ctors"].items() if c["out"] in used and c["out"] in spec["types"]]
    if not cands:
        return None
    cid = rng.choice(cands)
    t = spec["ctors"][cid]["out"]
    ty = spec["types"][t]
    ty["clone"] = False
    ty["copy"] = False
    for cid2, c in spec["ctors"].items():
        if c["out"] == t:
            c["cloning"] = "cin"
            c.pop("ann_cloning", None)
            # the attribute must be what is in effect: drop any registration-level override
            for bp, _i, it in _bp_items(spec["bp"]):
                if it[0] == "ctor" and it[1] == cid2 and len(it) > 2:
                    it[2].pop("cloning", None)
    variant = "infallible"
    if spec["errors"] and rng.random() < 0.5:
        # the Clone requirement must also be checked when the constructor returns a Result
        for cid2, c in spec["ctors"].items():
            if c["out"] == t and c["lc"] != "singleton":
                c["fallible"] = rng.choice(spec["errors"])
                variant = "fallible"
    # nobody may take it by value any more (that would need Clone for other reasons)
    for k in ("handlers", "mws", "fallbacks", "ctors"):
        for x in spec[k].values():
            x["ins"] = [[tt, ("ref" if tt == t and mo == "val" else mo)] for (tt, mo) in x.get("ins", [])]
    # observers / error handlers must not depend on something fallible: drop the type from their inputs
    if variant == "fallible":
        for k in ("obs", "ehs"):
            for x in spec[k].values():
                x["ins"] = [i for i in x.get("ins", []) if i[0] != t]
    return {"type": t, "variant": variant}


def op_observer_needs_fallible(rng, spec, m):
    obs = [(oid, o) for (_k, oid, o) in _registered_components(spec, m, ("obs",))]
    if not obs:
        return None
    oid, o = rng.choice(obs)
    depth = rng.choice([1, 2, 3])
    # pick a request-scoped/transient type and make its constructor fallible at the requested depth
    cands = [t for t, ty in spec["types"].items() if ty["lc"] != "singleton" and ty["disc"] != "moved" and m.resolve((), t)]
    if not cands or not spec["errors"]:
        return None
    t = rng.choice(cands)
    o["ins"] = [i for i in o["ins"] if i[0] != t] + [[t, "ref"]]
    placement = "last"
    singles = [u for u, ty in spec["types"].items() if ty["lc"] == "singleton" and not ty.get("generic") and m.resolve((), u)
               and u not in (spec.get("dep") or {}).get("types", [])]
    if singles and rng.random() < 0.6:
        # the offending input comes first and a singleton (exempt from the rule) after it: every input has to be examined
        s1 = rng.choice(singles)
        o["ins"] = [[t, "ref"]] + [i for i in o["ins"] if i[0] not in (t, s1)] + [[s1, "ref"]]
        placement = "first_then_singleton"
    cur = t
    for _ in range(depth - 1):
        c = m.resolve((), cur)
        nxt = [u for (u, _) in spec["ctors"][c]["ins"] if spec["types"][u]["lc"] != "singleton"]
        if not nxt:
            break
        cur = rng.choice(nxt)
    for c in spec["ctors"].values():
        if c["out"] == cur:
            c["fallible"] = rng.choice(spec["errors"])
    return {"observer": oid, "fallible_type": cur, "depth": depth, "placement": placement}


def op_route_overlap(rng, spec, m):
    hs = [(hid, h) for hid, h in spec["handlers"].items() if hid in m.reg]
    if not hs:
        return None
    hid, h = rng.choice(hs)
    variant = rng.choice(["same_path_method", "any_vs_specific", "catchall_vs_param", "param_renamed"])
    new = hid + "_dup"
    nh = {"ins": [], "path": h["path"], "methods": h["methods"]}
    if variant == "any_vs_specific":
        if h["methods"] in ("ANY", "ANY_ALL"):
            nh["methods"] = ["GET"]
        elif all(mm not in STD_METHODS for mm in h["methods"]):
            # `allow(any_method)` alone covers the standard methods only: it does not overlap with `PURGE`
            nh["methods"] = "ANY_ALL"
        else:
            nh["methods"] = rng.choice(["ANY", "ANY_ALL"])
    elif variant == "catchall_vs_param":
        if "{" not in h["path"] or "{*" in h["path"]:
            return None
        # `/a/{p}` vs `/a/{*rest}`: both can match `/a/x`
        nh["path"] = h["path"][:h["path"].index("{")] + "{*rest}"
    elif variant == "param_renamed":
        if "{" not in h["path"]:
            return None
        # `/a/{p}` vs `/a/{p_other}`: the same requests match both
        import re as _re
        nh["path"] = _re.sub(r"\{(\*?)(\w+)\}", r"{\1\2_other}", h["path"])
        if isinstance(h["methods"], list):
            nh["methods"] = [h["methods"][0]]
    spec["handlers"][new] = nh
    scope = m.reg[hid][0]
    bp = spec["bp"]
    for i in scope:
        bp = [it for it in bp["items"] if it[0] == "nest"][i][2]
    bp["items"].append(["route", new])
    return {"route": hid, "variant": variant}


def op_path_param_not_in_template(rng, spec, m):
    """A `PathParams<T>` field that is not in the route template; the extractor sits in the handler or in a middleware
    that covers the route."""
    hs = [(hid, h) for hid, h in spec["handlers"].items() if hid in m.reg and not h.get("raw_params")]
    if not hs:
        return None
    covering = sorted(set(x for (hid, _h) in hs for x in m.chain(hid)))
    if covering and rng.random() < 0.5:
        mid = rng.choice(covering)
        spec["mws"][mid]["path_params"] = ["missing_field"]
        return {"variant": "middleware:" + spec["mws"][mid]["kind"], "component": mid, "fields": ["missing_field"]}
    hid, h = rng.choice(hs)
    fields = list(h.get("path_params") or [])
    fields.append("missing_field")
    h["path_params"] = fields
    return {"variant": "handler", "route": hid, "fields": fields}


OPERATORS = {
    "missing_constructor": op_missing_constructor,
    "constructor_only_in_sibling": op_constructor_only_in_sibling,
    "dependency_cycle": op_cycle,
    "singleton_depends_on_request_scoped": op_singleton_depends_on_request_scoped,
    "singleton_registered_in_two_blueprints": op_singleton_registered_twice,
    "singleton_not_send_or_sync": op_singleton_not_send_sync,
    "singleton_by_value_never_clone": op_singleton_by_value_never_clone,
    "singleton_by_value_never_clone_into_derived_component": op_singleton_by_value_never_clone_derived,
    "mut_ref_of_singleton_transient_or_cin": op_mut_ref,
    "mut_ref_on_constructor_or_wrap": op_mut_on_constructor_or_wrap,
    "clone_if_necessary_without_clone": op_cin_not_clone,
    "observer_needs_fallible_constructor": op_observer_needs_fallible,
    "overlapping_routes": op_route_overlap,
    "path_param_field_not_in_template": op_path_param_not_in_template,
}


# operators that edit constructors (inputs, fallibility, registrations): a state input (prebuilt type / configuration entry)
# has none of those, so the planted twin turns every state input back into a plain singleton constructor first
DEMOTE_INPUTS = {"dependency_cycle", "singleton_depends_on_request_scoped", "singleton_registered_in_two_blueprints",
                 "clone_if_necessary_without_clone"}


def demote_state_inputs(spec):
    for c in spec["ctors"].values():
        if c.pop("input", None):
            c.pop("key", None)
            c.pop("include_if_unused", None)
            if "ann_cloning" in c and c["ann_cloning"] is None and c.get("cloning") == "cin":
                # (the default of configuration entries is not the default of constructors)
                c.pop("ann_cloning")


def plain_lifecycles(spec):
    """Operators add and move registrations: the lifecycle in effect goes back into the attribute, so that every registration
    of a constructor means the same."""
    for c in spec["ctors"].values():
        c.pop("ann_lc", None)
    for bp, _i, it in _bp_items(spec["bp"]):
        if it[0] == "ctor" and len(it) > 2 and isinstance(it[2], dict):
            it[2].pop("lc", None)


def plant(rng, base_spec, op_name):
    spec = copy.deepcopy(base_spec)
    plain_lifecycles(spec)
    if op_name in DEMOTE_INPUTS:
        demote_state_inputs(spec)
    m = Model(spec)
    info = OPERATORS[op_name](rng, spec, m)
    if info is None:
        return None
    spec["mode"] = "planted"
    spec["planted"] = dict(info, operator=op_name)
    return spec
