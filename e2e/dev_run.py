#!/usr/bin/env python3
"""Developer driver: run N in-class cases and print what the oracles say."""
import json, os, sys, time, random
sys.path.insert(0, os.path.dirname(os.path.dirname(os.path.abspath(__file__))))
from lib import vlib, e2e_env
from e2e import engine, gen, oracle as oraclemod, evaluate

def main():
    seed = int(sys.argv[1]); n = int(sys.argv[2]); nslots = int(sys.argv[3]) if len(sys.argv) > 3 else 1
    start = int(sys.argv[4]) if len(sys.argv) > 4 else 0
    cases = engine.make_inclass_cases(seed, n, start=start)
    e2e_env.build_pavexc()
    results = engine.run_corpus(cases, nslots, label="dev")
    os.makedirs("/verif/build/dev", exist_ok=True)
    json.dump({"cases": cases, "results": results}, open("/verif/build/dev/last.json", "w"))
    evaluate.report(cases, results)

if __name__ == "__main__":
    main()
