#!/usr/bin/env python3
"""Developer driver: run N in-class cases with knob overrides. usage: dev_knobs.py <seed> <n> <slots> [knob=value ...]"""
import json, os, sys
sys.path.insert(0, os.path.dirname(os.path.dirname(os.path.abspath(__file__))))
from lib import e2e_env
from e2e import engine, gen, evaluate

seed, n, nslots = int(sys.argv[1]), int(sys.argv[2]), int(sys.argv[3])
over = {k: float(v) for k, v in (a.split("=") for a in sys.argv[4:])}
cases = []
for i in range(n):
    kn = gen.Knobs(flavour={1: "routing", 2: "observers", 3: "errors", 4: "ownership"}.get(i % 5), domains=(i % 6 == 5), **over)
    cases += engine.make_inclass_cases(seed, 1, start=i, knobs=kn)
print("method components:", sum(1 for c in cases for g in ("ctors", "handlers", "mws", "fallbacks", "obs", "ehs") for x in c["spec"][g].values() if x.get("method")),
      "cases with a dependency crate:", sum(1 for c in cases if c["spec"].get("dep")))
e2e_env.build_pavexc()
results = engine.run_corpus(cases, nslots, label="dev")
os.makedirs("/verif/build/dev", exist_ok=True)
json.dump({"cases": cases, "results": results}, open("/verif/build/dev/last.json", "w"))
evaluate.report(cases, results)
