"""Turn case results into per-property violations (shared by the C01-C07, C09 checks and the dev driver)."""
import json
from e2e import oracle as oraclemod


def input_id(spec):
    """Identity of one generated application: known findings recorded for one specific failing input carry it."""
    import hashlib
    return hashlib.sha256(json.dumps(spec, sort_keys=True).encode()).hexdigest()[:12]


def evaluate_case(case, res):
    """Returns (violations list, stats dict, status string). Every signature carries the identity of the input (`input`), so
    that a finding can be recorded for exactly the application that fails (entries without that key match as before)."""
    out, stats, status = _evaluate_case(case, res)
    iid = input_id(case["spec"])
    for v in out:
        v["sig"]["input"] = iid
    return out, stats, status


def _evaluate_case(case, res):
    out = []
    st = res.get("stages", {})
    if res.get("verdict", "").startswith("inconclusive") or not st.get("app_build", {}).get("ok", False):
        return out, None, "inconclusive_generator"
    pv = st["pavexc"]
    cls = pv["class"]
    V = oraclemod.V
    accepted = pv["rc"] == 0 and not pv["timeout"]
    # ---- C09 on every execution
    if pv["timeout"]:
        out.append(V("C09", "timeout", {"wall": pv["wall"]}))
    elif cls["panicked"] or pv["rc"] not in (0, 1):
        from e2e import patterns
        pat = patterns.pattern_for_panic(case["spec"], cls["panic_loc"], cls["panic_msg"])
        extra = {"pattern": pat} if pat is not None else {}
        out.append(V("C09", "panic", {"rc": pv["rc"], "msg": cls["panic_msg"], "loc": cls["panic_loc"], "stderr": pv["stderr"][-2500:]},
                     loc=norm_loc(cls["panic_loc"]), msg=norm_msg(cls["panic_msg"]), **extra))
    elif pv["rc"] != 0 and cls["n_error"] == 0:
        out.append(V("C09", "failure_without_diagnostic", {"rc": pv["rc"], "stderr": pv["stderr"][-2500:]}))
    if pv["rc"] != 0 and pv["sdk_changed"]:
        out.append(V("C09", "sdk_modified_on_failure", {"changed": pv["sdk_changed"], "rc": pv["rc"]}))
    if accepted and not all(pv["files_exist"]):
        out.append(V("C09", "accepted_but_files_missing", {"files": pv["files_exist"]}))
    # ---- C20 (compile-time part): two guards that can match the same host must be rejected as conflicting
    doms = case["spec"].get("domains") or []
    if accepted and len(doms) >= 2:
        from e2e.model import common_host
        for i in range(len(doms)):
            for j in range(i + 1, len(doms)):
                h = common_host(doms[i], doms[j])
                if h is not None:
                    kinds = sorted(("catch_all" if "{*" in g else "param" if "{" in g else "static") for g in (doms[i], doms[j]))
                    out.append(V("C20", "overlapping_guards_accepted", {"guards": [doms[i], doms[j]], "common_host": h}, part="conflict", kinds="_vs_".join(kinds)))
    # ---- C02
    if case["mode"] == "inclass" and not accepted and not pv["timeout"]:
        from e2e import patterns
        pat = patterns.pattern_for_panic(case["spec"], cls["panic_loc"], cls["panic_msg"]) if cls["panicked"] else None
        extra = {"pattern": pat} if pat is not None else {}
        out.append(V("C02", "inclass_rejected", {"rc": pv["rc"], "first_lines": cls["first_lines"], "panic": cls["panic_msg"], "stderr": pv["stderr"][-3000:]},
                     diag=norm_msg(cls["first_lines"][0] if cls["first_lines"] else (cls["panic_msg"] or "")), panic=bool(cls["panicked"]), **extra))
    if not accepted:
        return out, None, "rejected"
    # ---- C01
    b = st.get("build")
    if b is None:
        return out, None, "accepted_not_built"
    if b["rc"] != 0:
        sdk_errs = [e for e in b["errors"] if (e.get("file") or "").startswith("sdk/") or e.get("target") == "sdk"]
        app_errs = [e for e in b["errors"] if e.get("target") == "app"]
        if sdk_errs:
            e0 = sdk_errs[0]
            out.append(V("C01", "sdk_does_not_compile", {"errors": sdk_errs[:4], "sdk_lib_rs_tail": b.get("sdk_lib_rs", "")[-6000:]}, code=e0.get("code"), msg=norm_msg(e0.get("message")),
                         **c01_features(case["spec"], e0)))
            return out, None, "sdk_compile_error"
        return out, None, "inconclusive_build"
    # ---- runtime oracles
    orc = oraclemod.CaseOracle(case["spec"])
    runs = st.get("runs", [])
    for run in runs:
        recs = run["records"]
        boot = next((r for r in recs if r.get("kind") == "boot"), None)
        if boot is None:
            out.append(V("C07", "driver_no_boot_record", {"stderr": run["stderr"][-1500:], "rc": run["rc"]}))
            continue
        o = oraclemod.CaseOracle(case["spec"]) if run["boot_fail"] else orc
        out += o.check_boot(boot, run["boot_fail"])
        if run["boot_fail"]:
            if boot.get("result") == "ok":
                failed = [e for e in boot.get("events", []) if e["k"] == "fail"]
                if failed:
                    out.append(V("C06", "boot_failure_swallowed", {"boot": boot}))
            continue
        runrec = next((r for r in recs if r.get("kind") == "run"), None)
        if boot.get("result") != "ok":
            out.append(V("C07", "boot_failed", {"boot": {k: v for k, v in boot.items() if k != "events"}}))
            continue
        if runrec is None or runrec.get("result") != "ok":
            out.append(V("C07", "server_start_panic", {"run": runrec, "stderr": run["stderr"][-1500:]}))
            continue
        reqrecs = {r["i"]: r for r in recs if r.get("kind") == "req"}
        if len(reqrecs) != len(case["plan"]):
            # the driver died half-way: report what was observed, the rest is inconclusive
            if run["rc"] != 0:
                out.append(V("C07", "server_crashed_while_serving", {"answered": len(reqrecs), "planned": len(case["plan"]), "stderr": run["stderr"][-2000:]}))
        for i, req in enumerate(case["plan"]):
            if i in reqrecs:
                out += orc.check_request(req, reqrecs[i])
    stats = dict(orc.stats)
    stats["exercised"] = sorted(stats["exercised"])
    stats["diag"] = st.get("diag")
    return out, stats, "ran"


def c01_features(spec, err):
    """Structural features of a rustc error in the SDK, so that known findings are keyed on the failing pattern."""
    import re
    r = err.get("rendered") or ""
    feats = {}
    m = re.search(r"\|\s+(v\d+): &?(?:mut )?app::(\w+)[^\n]*\n[^\n]*binding `v\d+` declared here", r)
    if m and m.group(2) in spec["types"]:
        t = m.group(2)
        feats["value_lc"] = spec["types"][t]["lc"]
        pol = set(str(c.get("cloning")) for c in spec["ctors"].values() if c["out"] == t)
        feats["value_policy"] = "/".join(sorted(pol))
    feats["borrowed_in_next_state"] = bool(re.search(r"s_\d+: &v\d+", r))
    return feats


def norm_loc(loc):
    import re
    return re.sub(r"^.*/registry/src/[^/]+/", "", (loc or "").split(":")[0])


def norm_msg(s):
    import re
    if not s:
        return ""
    s = re.sub(r"`[^`]*`", "`_`", s)
    s = re.sub(r"[0-9]+", "N", s)
    s = re.sub(r"N(,\s*N)+", "N", s)
    return s[:160]


def report(cases, results):
    by_prop = {}
    statuses = {}
    for c in cases:
        r = results.get(c["id"])
        if r is None:
            continue
        vs, stats, status = evaluate_case(c, r)
        statuses[status] = statuses.get(status, 0) + 1
        for v in vs:
            by_prop.setdefault(v["prop"], []).append((c["id"], v))
        if status == "inconclusive_generator":
            print("GENERATOR-BUG", c["id"], r["stages"].get("app_build", {}).get("err", "")[-1500:])
    print("statuses:", statuses)
    for p in sorted(by_prop):
        print("=== %s: %d violations" % (p, len(by_prop[p])))
        seen = set()
        for cid, v in by_prop[p]:
            key = json.dumps(v["sig"], sort_keys=True)
            if key in seen:
                continue
            seen.add(key)
            print("  ", cid, key)
            print("      ", json.dumps(v["detail"], default=str)[:1800])
