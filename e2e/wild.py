"""Wild mode: applications whose ownership demands are unconstrained. pavexc may accept or reject; an accepted one must
build (C01) and behave (C03-C07); every execution must end with a verdict (C09)."""
import copy
import random

from e2e import gen, plan as planmod
from lib import vlib


def comps(spec, kinds=("handlers", "mws", "fallbacks")):
    for k in kinds:
        for xid, x in spec[k].items():
            yield k, xid, x


def wild_edit(rng, spec):
    """Apply one random edit that may take the spec outside C02's class. Returns a label."""
    ops = ["mut_input", "ref_to_val", "val_twice", "drop_cin", "mut_and_ref", "generic_wrapper", "never_clone_with_clone_impl_twice",
           "mut_on_wrap_or_ctor", "val_in_two_mws", "never_clone_override_moved_twice"]
    op = rng.choice(ops)
    cl = [(k, xid, x) for (k, xid, x) in comps(spec) if x.get("ins")]
    types = [t for t, ty in spec["types"].items() if not ty.get("generic")]
    if op == "mut_input" and cl:
        k, xid, x = rng.choice(cl)
        if k == "mws" and x["kind"] == "wrap":
            return None
        j = rng.randrange(len(x["ins"]))
        x["ins"][j] = [x["ins"][j][0], "mut"]
        return op
    if op == "ref_to_val" and cl:
        k, xid, x = rng.choice(cl)
        j = rng.randrange(len(x["ins"]))
        x["ins"][j] = [x["ins"][j][0], "val"]
        return op
    if op == "val_twice":
        hs = list(spec["handlers"].items())
        ms = list(spec["mws"].items())
        if hs and ms and types:
            t = rng.choice(types)
            h = rng.choice(hs)[1]
            m = rng.choice(ms)[1]
            if all(tt != t for tt, _ in h["ins"]):
                h["ins"].append([t, "val"])
            if all(tt != t for tt, _ in m["ins"]):
                m["ins"].append([t, "val"])
            return op
    if op == "drop_cin":
        cs = [cid for cid, c in spec["ctors"].items() if c.get("cloning") == "cin"]
        if cs:
            gen.set_effective_cloning(spec, rng.choice(cs), rng.choice([None, "never"]))
            return op
    if op == "mut_and_ref":
        reqs = [t for t, ty in spec["types"].items() if ty["lc"] == "request" and not ty.get("generic")]
        hs = list(spec["handlers"].values())
        ms = [m for m in spec["mws"].values() if m["kind"] != "wrap"]
        if reqs and hs:
            t = rng.choice(reqs)
            h = rng.choice(hs)
            h["ins"] = [i for i in h["ins"] if i[0] != t] + [[t, "mut"]]
            if ms:
                m = rng.choice(ms)
                m["ins"] = [i for i in m["ins"] if i[0] != t] + [[t, rng.choice(["ref", "mut"])]]
            return op
    if op == "generic_wrapper" and types and "GW0" not in spec["types"]:
        # a generic constructor `fn cw<T>(t: &T) -> GW0<T>` specialised at two types
        lc = rng.choice(["request", "transient"])
        spec["types"]["GW0"] = {"lc": lc, "disc": "shared", "generic": True, "clone": rng.random() < 0.5}
        spec["ctors"]["CW0"] = {"out": "GW0<T>", "ins": [["T", rng.choice(["ref", "ref", "val"])]], "lc": lc, "generic_param": "T"}
        spec["bp"]["items"].insert(0, ["ctor", "CW0"])
        cands = [t for t in types if not spec["types"][t].get("generic") and spec["types"][t]["lc"] != "singleton" or lc != "singleton"]
        users = [x for (_k, _id, x) in comps(spec)]
        for t in rng.sample(cands, min(2, len(cands))):
            if users:
                rng.choice(users).setdefault("ins", []).append(["GW0<%s>" % t, "ref"])
        return op
    if op == "never_clone_with_clone_impl_twice" and types:
        t = rng.choice(types)
        ty = spec["types"][t]
        if ty["lc"] == "request" and not ty.get("copy"):
            ty["clone"] = True
            for cid2, c in list(spec["ctors"].items()):
                if c["out"] == t:
                    gen.set_effective_cloning(spec, cid2, None)
            hs = list(spec["handlers"].values())
            ms = list(spec["mws"].values())
            for x in rng.sample(hs, min(2, len(hs))) + rng.sample(ms, min(1, len(ms))):
                x["ins"] = [i for i in x["ins"] if i[0] != t] + [[t, "val"]]
            return op
    if op == "never_clone_override_moved_twice" and types:
        # attribute says clone_if_necessary, the registration overrides it with .never_clone(); the value is then needed twice
        cands = [t for t in types if spec["types"][t]["lc"] == "request" and not spec["types"][t].get("copy")]
        regs = {}
        for (bp, _d) in gen._bp_nodes(spec["bp"]):
            for it in bp["items"]:
                if it[0] == "ctor":
                    regs.setdefault(it[1], []).append(it)
        rng.shuffle(cands)
        for t in cands:
            cids = [cid for cid, c in spec["ctors"].items() if c["out"] == t]
            if len(cids) != 1 or len(regs.get(cids[0], [])) != 1:
                continue
            c = spec["ctors"][cids[0]]
            spec["types"][t]["clone"] = True
            c["cloning"] = "never"
            c["ann_cloning"] = "cin"
            it = regs[cids[0]][0]
            if len(it) < 3:
                it.append({})
            it[2]["cloning"] = "never"
            # (a registration-level override needs an explicit registration: a constructor that came in through
            # `bp.import(..)` is registered by hand instead)
            it[2].pop("import", None)
            c.pop("module_import", None)
            hs = list(spec["handlers"].values())
            ms = list(spec["mws"].values())
            for x in rng.sample(hs, min(2, len(hs))) + rng.sample(ms, min(1, len(ms))):
                x["ins"] = [i for i in x["ins"] if i[0] != t] + [[t, "val"]]
            return op
    if op == "mut_on_wrap_or_ctor":
        ws = [m for m in spec["mws"].values() if m["kind"] == "wrap" and m["ins"]]
        cs = [c for c in spec["ctors"].values() if c["ins"] and not c.get("generic_param")]
        pool = ws + cs
        if pool:
            x = rng.choice(pool)
            j = rng.randrange(len(x["ins"]))
            x["ins"][j] = [x["ins"][j][0], "mut"]
            return op
    if op == "val_in_two_mws":
        ms = list(spec["mws"].values())
        reqs = [t for t, ty in spec["types"].items() if ty["lc"] == "request" and not ty.get("generic")]
        if len(ms) >= 2 and reqs:
            t = rng.choice(reqs)
            for m in rng.sample(ms, 2):
                m["ins"] = [i for i in m["ins"] if i[0] != t] + [[t, "val"]]
            return op
    return None


def gen_wild(rng):
    kn = gen.Knobs(avoid_known=False, n_types=(4, 9), n_handlers=(3, 6), n_mws=(1, 5))
    spec = gen.gen_inclass(rng, kn)
    spec["mode"] = "wild"
    edits = []
    for _ in range(rng.choice([1, 1, 2, 3, 4])):
        e = wild_edit(rng, spec)
        if e:
            edits.append(e)
    spec["wild_edits"] = edits
    return spec


def make_wild_cases(seed, n):
    cases = []
    for i in range(n):
        rng = random.Random("wild-%d-%d" % (seed, i))
        spec = gen_wild(rng)
        try:
            pl = planmod.build_plan(spec, random.Random("wplan-%d-%d" % (seed, i)), max_per_route=6)
        except Exception as e:  # plan building relies on the model; a spec it cannot digest is skipped, not judged
            vlib.log("[wild] skipping spec %d: %r" % (i, e))
            continue
        cases.append({"id": "wd-%d-%d" % (seed, i), "mode": "wild", "spec": spec, "plan": pl, "boot_fail_runs": [],
                      "shape": gen.shape_signature(spec) + "-" + "+".join(spec["wild_edits"])})
    return cases
