#!/usr/bin/env python3
import json, os, sys
sys.path.insert(0, os.path.dirname(os.path.dirname(os.path.abspath(__file__))))
from e2e import engine, evaluate, wild
seed=int(sys.argv[1]); n=int(sys.argv[2])
cases=wild.make_wild_cases(seed,n)
results=engine.run_corpus(cases, 6, label="wild")
json.dump({"cases":cases,"results":results},open('/verif/build/dev/wild.json','w'))
evaluate.report(cases, results)
for c in cases:
    r=results[c['id']]; pv=r['stages'].get('pavexc',{})
    print(c['id'], c['spec']['wild_edits'], 'rc', pv.get('rc'), (pv.get('class',{}).get('first_lines') or [''])[0][:100])
