#!/usr/bin/env python3
import json, os, sys, glob
sys.path.insert(0, os.path.dirname(os.path.dirname(os.path.abspath(__file__))))
from e2e import engine, evaluate, plan as planmod
import random
cases=[]
for p in sorted(glob.glob('/verif/e2e/regress/*.json')):
    r=json.load(open(p))
    pl=planmod.build_plan(r['spec'], random.Random(1))
    cases.append({"id":"rg-"+r['name'],"mode":"inclass" if r.get('inclass') else "wild","spec":r['spec'],"plan":pl,"boot_fail_runs":[]})
results=engine.run_corpus(cases, 6, label="regress")
json.dump({"cases":cases,"results":results},open('/verif/build/dev/regress.json','w'))
evaluate.report(cases, results)
