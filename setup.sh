#!/bin/bash
# Builds everything the checks need, offline, from files on disk only.
set -e
cd "$(dirname "$0")"
export CARGO_NET_OFFLINE=true
python3 lib/setup.py "$@"
