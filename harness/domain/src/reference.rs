//! Independent reference for property C20, written from the documentation
//! (`/repo/docs/guide/routing/domain_guards.md`) and the DNS name rules it relies on (labels of
//! letters/digits/hyphens, 1..=63 characters, no leading/trailing hyphen, at most 253 characters in
//! total, one optional trailing dot). Nothing in here calls into, or is derived from, `pavexc`.
//!
//! Both the grammar and the matcher are three-valued: whenever the documentation is silent the answer
//! is `Unspec` and the monitor records what the implementation did without judging it.

#[derive(Debug, Clone, Copy, PartialEq, Eq)]
pub enum Verdict {
    Accept,
    /// The guard breaks a documented rule (the first one found, used as part of the signature).
    Reject(&'static str),
    /// Every documented rule is respected, but the guard is in an area the documentation does not cover.
    Unspec(&'static str),
}

#[derive(Debug, Clone, PartialEq, Eq)]
pub struct GLabel {
    pub catch_all: bool,
    /// Parameter name, if the label starts with `{name}` / `{*name}`.
    pub param: Option<String>,
    /// Literal part of the label (what follows the parameter, or the whole label).
    pub lit: String,
}

pub const MAX_LABEL: usize = 63;
pub const MAX_TOTAL: usize = 253;

enum NameClass {
    Valid,
    Invalid(&'static str),
    Unspec(&'static str),
}

/// Keywords in every edition (strict + reserved): never valid identifiers.
const KEYWORDS: &[&str] = &[
    "as", "break", "const", "continue", "crate", "else", "enum", "extern", "false", "fn", "for", "if",
    "impl", "in", "let", "loop", "match", "mod", "move", "mut", "pub", "ref", "return", "self", "Self",
    "static", "struct", "super", "trait", "true", "type", "unsafe", "use", "where", "while", "abstract",
    "become", "box", "do", "final", "macro", "override", "priv", "typeof", "unsized", "virtual", "yield",
];
/// Keywords only in some editions (or weak keywords): not judged.
const EDITION_KEYWORDS: &[&str] = &["async", "await", "dyn", "try", "gen", "union", "macro_rules", "raw", "safe", "auto"];

fn is_plain_ascii_ident(s: &str) -> bool {
    let mut cs = s.chars();
    match cs.next() {
        Some(c) if c.is_ascii_alphabetic() || c == '_' => {}
        _ => return false,
    }
    cs.all(|c| c.is_ascii_alphanumeric() || c == '_')
}

/// Parameter names: the documentation only shows examples (`sub`, `any`); the implementation's own
/// unit tests and diagnostics pin "a valid Rust identifier". `lenient_is_invalid` selects whether a
/// name that only becomes an identifier after stripping whitespace/comments counts as invalid.
fn name_class(name: &str, lenient_is_invalid: bool) -> NameClass {
    if name.is_empty() {
        return NameClass::Invalid("unnamed_parameter");
    }
    // `syn::parse_str::<Ident>` style leniency: whitespace and comments around the identifier.
    let lenient = if name.contains('/') {
        Some("parameter_name_with_comment_syntax")
    } else if name.chars().any(|c| matches!(c, ' ' | '\t' | '\n' | '\r' | '\x0b' | '\x0c')) {
        Some("parameter_name_with_whitespace")
    } else {
        None
    };
    if let Some(r) = lenient {
        return if lenient_is_invalid { NameClass::Invalid(r) } else { NameClass::Unspec(r) };
    }
    if !name.is_ascii() {
        return NameClass::Unspec("non_ascii_parameter_name");
    }
    if let Some(raw) = name.strip_prefix("r#") {
        return if is_plain_ascii_ident(raw) {
            NameClass::Unspec("raw_identifier_parameter_name")
        } else {
            NameClass::Invalid("parameter_name_not_an_identifier")
        };
    }
    if !is_plain_ascii_ident(name) {
        return NameClass::Invalid("parameter_name_not_an_identifier");
    }
    if name == "_" {
        return NameClass::Invalid("parameter_name_is_underscore");
    }
    if KEYWORDS.contains(&name) {
        return NameClass::Invalid("parameter_name_is_keyword");
    }
    if EDITION_KEYWORDS.contains(&name) {
        return NameClass::Unspec("parameter_name_edition_dependent_keyword");
    }
    NameClass::Valid
}

/// The documented grammar. Returns the verdict and, unless the guard is rejected, its labels.
pub fn classify(s: &str, lenient_is_invalid: bool) -> (Verdict, Option<Vec<GLabel>>) {
    macro_rules! reject {
        ($r:expr) => {
            return (Verdict::Reject($r), None)
        };
    }
    if s.is_empty() {
        reject!("empty");
    }
    // "If there a single trailing `.` at the end of a domain name, it will be stripped."
    let body = s.strip_suffix('.').unwrap_or(s);
    let mut unspec: Option<&'static str> = None;
    let mut labels = Vec::new();
    let mut min_total = 0usize;
    let mut templated = false;
    for (idx, label) in body.split('.').enumerate() {
        if label.is_empty() {
            reject!("empty_label");
        }
        // A parameter, if any, opens the label: "multiple domain parameters [...] as long as they are
        // separated by a `.`" => at most one per label; `{p}` matches "everything before" what follows.
        let (param, rest) = match label.strip_prefix('{') {
            Some(after) => {
                let Some(close) = after.find('}') else { reject!("unclosed_parameter") };
                let inner = &after[..close];
                let (catch_all, name) = match inner.strip_prefix('*') {
                    Some(n) => (true, n),
                    None => (false, inner),
                };
                match name_class(name, lenient_is_invalid) {
                    NameClass::Valid => {}
                    NameClass::Invalid(r) => reject!(r),
                    NameClass::Unspec(r) => {
                        unspec.get_or_insert(r);
                    }
                }
                // "at most one catch-all parameter [...] at the very beginning of the domain"
                if catch_all && idx != 0 {
                    reject!("catch_all_not_leading");
                }
                (Some((catch_all, name.to_string())), &after[close + 1..])
            }
            None => (None, label),
        };
        for c in rest.chars() {
            if c.is_ascii_alphanumeric() || c == '-' {
                continue;
            }
            reject!(match c {
                '{' if param.is_some() => "second_parameter_in_label",
                '{' => "parameter_not_at_label_start",
                '}' => "stray_closing_brace",
                '_' => "underscore_in_label",
                '*' => "star_outside_parameter",
                c if !c.is_ascii() => "non_ascii_in_label",
                c if c.is_ascii_whitespace() || c.is_ascii_control() => "whitespace_or_control_in_label",
                _ => "punctuation_in_label",
            });
        }
        if param.is_none() && !rest.chars().next().unwrap().is_ascii_alphanumeric() {
            reject!("label_starts_with_hyphen");
        }
        if let Some(last) = rest.chars().last() {
            if !last.is_ascii_alphanumeric() {
                reject!("label_ends_with_hyphen");
            }
        }
        let lit_len = rest.chars().count();
        match &param {
            None => {
                if lit_len > MAX_LABEL {
                    reject!("label_longer_than_63");
                }
                min_total += lit_len;
            }
            Some(_) => {
                templated = true;
                // The documentation says nothing about how parameters count towards the limits.
                if lit_len + 1 > MAX_LABEL {
                    unspec.get_or_insert("templated_label_min_length_over_63");
                }
                min_total += lit_len + 1;
            }
        }
        labels.push(GLabel {
            catch_all: param.as_ref().map(|p| p.0).unwrap_or(false),
            param: param.map(|p| p.1),
            lit: rest.to_string(),
        });
    }
    min_total += labels.len() - 1;
    if min_total > MAX_TOTAL {
        if templated {
            unspec.get_or_insert("templated_name_min_length_over_253");
        } else {
            reject!("name_longer_than_253");
        }
    }
    match unspec {
        Some(r) => (Verdict::Unspec(r), Some(labels)),
        None => (Verdict::Accept, Some(labels)),
    }
}

#[derive(Debug, Clone, Copy, PartialEq, Eq)]
pub enum Tri {
    Yes,
    No,
    Unspec,
}

fn and(a: Tri, b: Tri) -> Tri {
    match (a, b) {
        (Tri::No, _) | (_, Tri::No) => Tri::No,
        (Tri::Unspec, _) | (_, Tri::Unspec) => Tri::Unspec,
        _ => Tri::Yes,
    }
}

/// One ordinary (non catch-all) guard label against one host label.
fn label_match(g: &GLabel, h: &str) -> Tri {
    match &g.param {
        None => {
            if h == g.lit { Tri::Yes } else { Tri::No }
        }
        Some(_) => {
            if h.is_empty() || !h.ends_with(g.lit.as_str()) {
                Tri::No
            } else if h.len() == g.lit.len() {
                // `{p}sfx` against the label `sfx`: may the "leading part" be empty? Not documented.
                Tri::Unspec
            } else {
                Tri::Yes
            }
        }
    }
}

/// Does `host` (no port) fit the guard? Documented semantics: literal labels compare equal, `{p}`
/// stands for (the leading part of) one non-empty label, a leading `{*p}` for one or more labels, one
/// trailing dot is ignored.
pub fn ref_match(guard: &[GLabel], host: &str) -> Tri {
    let h = host.strip_suffix('.').unwrap_or(host);
    if h.is_empty() {
        return Tri::No;
    }
    let hl: Vec<&str> = h.split('.').collect();
    let n = guard.len();
    let m = hl.len();
    if !guard[0].catch_all {
        if m != n {
            return Tri::No;
        }
        return guard.iter().zip(&hl).fold(Tri::Yes, |acc, (g, h)| and(acc, label_match(g, h)));
    }
    if m < n {
        return Tri::No;
    }
    let mut res = Tri::Yes;
    for j in 1..n {
        res = and(res, label_match(&guard[j], hl[m - n + j]));
    }
    // `{*p}sfx`: host labels 0..=k are covered by the catch-all, label k must end with `sfx`.
    let k = m - n;
    let sfx = guard[0].lit.as_str();
    if !hl[k].ends_with(sfx) {
        return Tri::No;
    }
    let tail = &hl[k][..hl[k].len() - sfx.len()];
    let covered_len: usize = hl[..k].iter().map(|l| l.len() + 1).sum::<usize>() + tail.len();
    if covered_len == 0 {
        // Nothing left for the catch-all. With a suffix this is the same undocumented corner as `{p}sfx`.
        return and(res, if sfx.is_empty() { Tri::No } else { Tri::Unspec });
    }
    // "matches everything before `example.dev`, even if it contains `.` separators [...] regardless of
    // its contents" versus "one or more labels": empty labels inside the covered part are not judged.
    if hl[..k].iter().any(|l| l.is_empty()) || tail.is_empty() {
        return and(res, Tri::Unspec);
    }
    res
}
