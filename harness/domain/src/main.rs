//! C20 in-process harness: "Domain guards accept exactly the hosts the documentation says".
//!
//! Code under test (real code from /repo):
//!   * `pavexc::verif_domain_guard` = `DomainGuard::new(..)` + `DomainGuard::matchit_pattern()`
//!     (compiler/pavexc/src/compiler/analyses/domain.rs);
//!   * `matchit` 0.9.0 (the version pinned by /repo for both pavexc and the generated code) and
//!     `http::uri::Authority` 1.4.0 (what `pavex::http` re-exports), driven exactly like the generated
//!     `route` function drives them (see `normalise_like_generated`).
//! Oracle: `reference.rs` (grammar + matcher written from the documentation).
//!
//! Parts: (i) validator — exhaustive over an 8 symbol alphabet up to a length bound + random long /
//! exotic guards; (ii) matching — per accepted guard, hosts derived by instantiation and single edits;
//! (iii) pairs — conflict detection replica (advisory) and two-guard routing.

mod reference;

use reference::{GLabel, Tri, Verdict, classify, ref_match};
use serde_json::{Value, json};
use std::cell::RefCell;
use std::collections::{BTreeMap, HashSet};
use std::panic::{AssertUnwindSafe, catch_unwind};
use std::sync::Mutex;
use std::sync::atomic::{AtomicBool, AtomicUsize, Ordering};
use std::time::{Duration, Instant};

// ------------------------------------------------------------------------------------------ utils

#[derive(Clone)]
struct Rng(u64);
impl Rng {
    fn new(seed: u64) -> Self {
        Rng(seed.wrapping_mul(0x9E3779B97F4A7C15) ^ 0xD1B54A32D192ED03)
    }
    fn next(&mut self) -> u64 {
        // SplitMix64
        self.0 = self.0.wrapping_add(0x9E3779B97F4A7C15);
        let mut z = self.0;
        z = (z ^ (z >> 30)).wrapping_mul(0xBF58476D1CE4E5B9);
        z = (z ^ (z >> 27)).wrapping_mul(0x94D049BB133111EB);
        z ^ (z >> 31)
    }
    fn below(&mut self, n: usize) -> usize {
        (self.next() % n as u64) as usize
    }
    fn chance(&mut self, num: u64, den: u64) -> bool {
        self.next() % den < num
    }
    fn pick<'a, T: ?Sized>(&mut self, xs: &[&'a T]) -> &'a T {
        xs[self.below(xs.len())]
    }
}

fn fnv(s: &str) -> u64 {
    let mut h: u64 = 0xcbf29ce484222325;
    for b in s.bytes() {
        h ^= b as u64;
        h = h.wrapping_mul(0x100000001b3);
    }
    h
}

thread_local! {
    static LAST_PANIC: RefCell<Option<(String, String)>> = const { RefCell::new(None) };
}

fn install_silent_panic_hook() {
    std::panic::set_hook(Box::new(|info| {
        let msg = if let Some(s) = info.payload().downcast_ref::<&str>() {
            s.to_string()
        } else if let Some(s) = info.payload().downcast_ref::<String>() {
            s.clone()
        } else {
            "<non-string panic payload>".to_string()
        };
        let loc = info.location().map(|l| format!("{}:{}", l.file(), l.line())).unwrap_or_default();
        LAST_PANIC.with(|p| *p.borrow_mut() = Some((msg, loc)));
    }));
}

fn take_panic() -> (String, String) {
    LAST_PANIC.with(|p| p.borrow_mut().take()).unwrap_or_default()
}

fn truncate(s: &str, n: usize) -> String {
    if s.chars().count() <= n { s.to_string() } else { format!("{}…[{} chars]", s.chars().take(n).collect::<String>(), s.chars().count()) }
}

// ------------------------------------------------------------------------------------------ stats

#[derive(Default)]
struct Agg {
    count: u64,
    /// (witness length, witness) of the smallest witness: deterministic whatever the thread schedule.
    best: Option<(usize, String)>,
    sig: Value,
    detail: Value,
}

#[derive(Default)]
struct Stats {
    counters: BTreeMap<String, u64>,
    violations: BTreeMap<String, Agg>,
    observations: BTreeMap<String, Agg>,
    inconclusive: BTreeMap<String, Agg>,
    shapes: HashSet<u64>,
    accepted: Vec<String>,
    /// class -> ((len, guard, host) of the smallest case seen, the case)
    samples: BTreeMap<String, ((usize, String, String), Value)>,
}

impl Stats {
    fn inc(&mut self, k: &str) {
        self.add(k, 1);
    }
    fn add(&mut self, k: &str, n: u64) {
        if let Some(v) = self.counters.get_mut(k) {
            *v += n;
        } else {
            self.counters.insert(k.to_string(), n);
        }
    }
    fn record(map: &mut BTreeMap<String, Agg>, sig: Value, witness: &str, detail: impl FnOnce() -> Value) {
        let key = sig.to_string();
        let e = map.entry(key).or_default();
        e.count += 1;
        let cand = (witness.chars().count(), witness.to_string());
        if e.best.as_ref().map(|b| cand < *b).unwrap_or(true) {
            e.best = Some(cand);
            e.sig = sig;
            e.detail = detail();
        }
    }
    fn violation(&mut self, sig: Value, witness: &str, detail: impl FnOnce() -> Value) {
        Self::record(&mut self.violations, sig, witness, detail);
    }
    fn observation(&mut self, sig: Value, witness: &str, detail: impl FnOnce() -> Value) {
        Self::record(&mut self.observations, sig, witness, detail);
    }
    fn inconclusive(&mut self, sig: Value, witness: &str, detail: impl FnOnce() -> Value) {
        Self::record(&mut self.inconclusive, sig, witness, detail);
    }
    /// Keep, per class, the smallest case (by length, then text): independent of the thread schedule.
    fn sample(&mut self, class: &str, a: &str, b: &str, v: impl FnOnce() -> Value) {
        let len = a.len() + b.len();
        if let Some(((l, oa, ob), _)) = self.samples.get(class) {
            if (*l, oa.as_str(), ob.as_str()) <= (len, a, b) {
                return;
            }
        }
        self.samples.insert(class.to_string(), ((len, a.to_string(), b.to_string()), v()));
    }
    fn merge(&mut self, o: Stats) {
        for (k, v) in o.counters {
            self.add(&k, v);
        }
        for (dst, src) in [
            (&mut self.violations, o.violations),
            (&mut self.observations, o.observations),
            (&mut self.inconclusive, o.inconclusive),
        ] {
            for (k, a) in src {
                let e = dst.entry(k).or_default();
                e.count += a.count;
                if e.best.is_none() || a.best < e.best {
                    e.best = a.best;
                    e.sig = a.sig;
                    e.detail = a.detail;
                }
            }
        }
        self.shapes.extend(o.shapes);
        self.accepted.extend(o.accepted);
        for (k, v) in o.samples {
            match self.samples.get(&k) {
                Some(old) if old.0 <= v.0 => {}
                _ => {
                    self.samples.insert(k, v);
                }
            }
        }
    }
}

// ------------------------------------------------------------------------- the code under test

/// `Ok(Ok(pattern))` accepted, `Ok(Err(msg))` rejected, `Err((msg, loc))` panicked.
fn call_hook(s: &str) -> Result<Result<String, String>, (String, String)> {
    catch_unwind(AssertUnwindSafe(|| pavexc::verif_domain_guard(s))).map_err(|_| take_panic())
}

/// Replica of the host normalisation in the generated `route` function:
/// /repo/compiler/pavexc/src/compiler/codegen/router.rs, `domain_router`, lines 327-339:
///
/// ```ignore
/// let host: Option<String> = request.headers().get(pavex::http::header::HOST)
///     .map(|h| pavex::http::uri::Authority::try_from(h.as_bytes()).ok())
///     .flatten()
///     .map(|a| a.host())
///     .map(|h| h.strip_suffix('.').unwrap_or(h)   // (one trailing dot; `trim_end_matches` before the fix)
///         .replace('.', "/")          // line 336
///         .chars().rev().collect()    // line 338
///     );
/// ```
/// followed (lines 341-342) by `self.domain_router.at(host.as_str())`; `None`/`Err` => fallback.
/// `pavex::http` is a re-export of the `http` crate (1.4.0 in /repo/Cargo.lock).
fn normalise_like_generated(host_header: &str) -> Option<String> {
    http::uri::Authority::try_from(host_header.as_bytes())
        .ok()
        .map(|a| {
            let h = a.host();
            h.strip_suffix('.').unwrap_or(h).replace('.', "/").chars().rev().collect()
        })
}

/// Category of the validator's diagnostic (for signatures/counters only).
fn impl_error_kind(msg: &str) -> &'static str {
    const KINDS: &[(&str, &str)] = &[
        ("Catch-all parameters must appear", "CatchAllNotAtStart"),
        ("can't be empty", "Empty"),
        ("is too long to be a valid domain constraint", "TooLongTemplated"),
        ("is too long to be a valid domain.", "TooLong"),
        ("empty DNS label", "EmptyDnsLabel"),
        ("must start with an alphanumeric", "InvalidStart"),
        ("must end with an alphanumeric", "InvalidEnd"),
        ("must only contain alphanumeric", "InvalidChars"),
        ("would only match labels that are at least", "LabelTooLongTemplated"),
        ("DNS labels must be at most 63", "LabelTooLong"),
        ("must appear at the beginning of the DNS label", "ParameterNotAtStart"),
        ("at most one domain parameter", "TooManyParameters"),
        ("not a valid Rust identifier", "InvalidParameterName"),
        ("must be named", "EmptyParameterName"),
        ("unclosed domain parameter", "UnclosedParameter"),
    ];
    for (needle, kind) in KINDS {
        if msg.contains(needle) {
            return kind;
        }
    }
    "Other"
}

// ------------------------------------------------------------------------- part (i): validator

struct Opts {
    lenient_is_invalid: bool,
}

fn guard_shape(labels: &[GLabel]) -> String {
    // literal letters/digits collapse to 'a', hyphens stay, parameter names collapse to p / *p
    let mut s = String::new();
    for (i, l) in labels.iter().enumerate() {
        if i > 0 {
            s.push('.');
        }
        if l.param.is_some() {
            s.push_str(if l.catch_all { "{*p}" } else { "{p}" });
        }
        for c in l.lit.chars() {
            s.push(if c == '-' { '-' } else { 'a' });
        }
    }
    s
}

/// Classify one string with both the reference and the hook. Returns the pattern when both sides agree
/// that the guard is usable (or the documentation does not cover it but the implementation accepted it).
fn check_validator(s: &str, origin: &str, opts: &Opts, st: &mut Stats) -> Option<(Vec<GLabel>, String, bool)> {
    let (verdict, labels) = classify(s, opts.lenient_is_invalid);
    st.inc("strings_classified");
    let observed = match call_hook(s) {
        Ok(r) => r,
        Err((msg, loc)) => {
            st.violation(json!({"part": "validator", "kind": "panic", "location": short_location(&loc)}), s, || {
                json!({"guard": s, "panic_message": truncate(&msg, 300), "location": loc, "origin": origin})
            });
            return None;
        }
    };
    match (&verdict, &observed) {
        (Verdict::Accept, Ok(_)) => st.inc("agree_accept"),
        (Verdict::Reject(r), Err(_)) => {
            st.inc("agree_reject");
            st.inc(&format!("reject_rule.{r}"));
        }
        (Verdict::Unspec(r), obs) => {
            st.inc("not_judged");
            st.inc(&format!("not_judged.{r}.{}", if obs.is_ok() { "accepted" } else { "rejected" }));
            st.observation(json!({"part": "validator", "unspecified": r, "observed": if obs.is_ok() { "accepted" } else { "rejected" }}), s, || {
                json!({"guard": truncate(s, 400), "impl": match obs { Ok(p) => json!({"pattern": truncate(p, 400)}), Err(e) => json!({"error_kind": impl_error_kind(e)}) }})
            });
        }
        (Verdict::Accept, Err(e)) => {
            let kind = impl_error_kind(e);
            st.violation(json!({"part": "validator", "cause": "rejected_but_valid", "impl_error": kind}), s, || {
                json!({"guard": s, "reference": "accept", "impl_error": truncate(e, 600), "origin": origin})
            });
        }
        (Verdict::Reject(r), Ok(p)) => {
            st.violation(json!({"part": "validator", "cause": "accepted_but_invalid", "rule": r}), s, || {
                json!({"guard": s, "reference": format!("reject: {r}"), "impl_pattern": p, "origin": origin})
            });
        }
    }
    if let Ok(p) = &observed {
        // "We don't accept anything that `matchit` would later reject" (domain.rs, `mod tests`): otherwise
        // `detect_domain_conflicts` hits its `unreachable!` and the generated `insert(..).unwrap()` panics.
        let mut router = matchit::Router::new();
        match insert(&mut router, p, 0) {
            Ok(Ok(())) => st.inc("patterns_inserted_alone"),
            Ok(Err(e)) => {
                let err = format!("{e:?}");
                let class = match verdict {
                    _ if p.contains("//") || p.contains("/*") => "parameter_name_with_comment_syntax",
                    Verdict::Reject(r) | Verdict::Unspec(r) => r,
                    Verdict::Accept => "documented_grammar",
                };
                st.violation(json!({"part": "pattern", "cause": "matchit_rejects_pattern_of_accepted_guard", "error": err, "guard_class": class}), s, || {
                    json!({"guard": s, "pattern": p, "matchit_error": err, "origin": origin})
                });
            }
            Err((msg, loc)) => {
                st.violation(json!({"part": "pattern", "kind": "panic", "location": short_location(&loc)}), s, || json!({"guard": s, "pattern": p, "panic_message": msg, "location": loc}));
            }
        }
    }
    match (observed, labels) {
        (Ok(p), Some(l)) => {
            st.inc("accepted");
            Some((l, p, matches!(verdict, Verdict::Accept)))
        }
        (Ok(_), None) => {
            st.inc("accepted");
            None
        }
        (Err(e), _) => {
            st.inc("rejected");
            st.inc(&format!("impl_error.{}", impl_error_kind(&e)));
            None
        }
    }
}

const ALPHABET: [char; 8] = ['a', '1', '-', '.', '{', '}', '*', '_'];

fn nth_string(len: usize, mut idx: u64) -> String {
    let mut s = String::with_capacity(len);
    for _ in 0..len {
        s.push(ALPHABET[(idx & 7) as usize]);
        idx >>= 3;
    }
    s
}

// ------------------------------------------------------------------------- part (ii): matching

/// Fill the guard's parameters. `fill(i)` gives the value for the parameter of label `i`.
fn instantiate(guard: &[GLabel], fill: &dyn Fn(usize) -> String) -> Vec<String> {
    guard
        .iter()
        .enumerate()
        .map(|(i, l)| if l.param.is_some() { format!("{}{}", fill(i), l.lit) } else { l.lit.clone() })
        .collect()
}

fn change_last_char(s: &str) -> String {
    let mut cs: Vec<char> = s.chars().collect();
    let last = cs.len() - 1;
    cs[last] = if cs[last] == 'z' { 'y' } else { 'z' };
    cs.into_iter().collect()
}

/// Hosts derived from a guard: (Host header value without port, port, edit kind).
fn hosts_for(guard: &[GLabel], rng: &mut Rng) -> Vec<(String, Option<&'static str>, &'static str)> {
    const VALUES: &[&str] = &["x", "ab", "a-b", "0", "xn--p1ai", "w3", "q"];
    let n = guard.len();
    let mut out: Vec<(String, Option<&'static str>, &'static str)> = Vec::new();
    let has_catch_all = guard[0].catch_all;
    let r0 = rng.below(VALUES.len());
    let fills: [Box<dyn Fn(usize) -> String>; 3] = [
        Box::new(|_| "x".to_string()),
        Box::new(move |i| VALUES[(i + r0) % VALUES.len()].to_string()),
        Box::new(|i| format!("v{i}-{}", "m".repeat(i + 1))),
    ];
    let catch_fills: &[(&str, &'static str)] =
        &[("c1", "catchall_1_label"), ("c1.c2", "catchall_2_labels"), ("c1.c2.c3", "catchall_3_labels"), ("a-b.0.xn--p1ai.q", "catchall_4_labels")];
    let mut bases: Vec<Vec<String>> = Vec::new();
    for f in fills.iter() {
        if has_catch_all {
            for (cf, kind) in catch_fills {
                let b = instantiate(guard, &|i| if i == 0 { cf.to_string() } else { f(i) });
                out.push((b.join("."), None, kind));
                bases.push(b);
            }
        } else {
            let b = instantiate(guard, &|i| f(i));
            out.push((b.join("."), None, "instantiation"));
            bases.push(b);
        }
    }
    bases.truncate(if has_catch_all { 5 } else { 2 });
    for b in &bases {
        let h = b.join(".");
        out.push((format!("{h}."), None, "one_trailing_dot"));
        out.push((format!("{h}.."), None, "two_trailing_dots"));
        out.push((format!("{h}..."), None, "three_trailing_dots"));
        out.push((h.clone(), Some("8080"), "port"));
        out.push((format!("{h}."), Some("443"), "one_trailing_dot_and_port"));
        out.push((format!("zz.{h}"), None, "extra_label_left"));
        out.push((format!("{h}.zz"), None, "extra_label_right"));
        out.push((format!(".{h}"), None, "empty_label_left"));
        if n > 1 {
            out.push((b[1..].join("."), None, "missing_label_left"));
            out.push((b[..b.len() - 1].join("."), None, "missing_label_right"));
            out.push((h.replacen('.', "..", 1), None, "empty_label_inside"));
            let mut sw = b.clone();
            sw.swap(0, b.len() - 1);
            out.push((sw.join("."), None, "labels_swapped"));
        }
    }
    // per-label edits on the first base
    let b = &bases[0];
    for (i, l) in guard.iter().enumerate().take(6) {
        let with = |new_label: String| {
            let mut v = b.clone();
            v[i] = new_label;
            v.join(".")
        };
        if !l.lit.is_empty() {
            // a different literal: last char changed, one char appended, one char prepended/inserted
            let val = if l.param.is_some() { if l.catch_all { "c1" } else { "x" } } else { "" };
            out.push((with(format!("{val}{}", change_last_char(&l.lit))), None, "literal_last_char_changed"));
            out.push((with(format!("{val}{}z", l.lit)), None, "literal_char_appended"));
            if l.param.is_none() {
                out.push((with(format!("z{}", l.lit)), None, "literal_char_prepended"));
                if l.lit.chars().count() > 1 {
                    let shorter: String = l.lit.chars().skip(1).collect();
                    out.push((with(shorter), None, "literal_first_char_dropped"));
                }
            }
        }
        if l.param.is_some() && !l.catch_all {
            out.push((with(format!("x.y{}", l.lit)), None, "param_filled_with_two_labels"));
            out.push((with(l.lit.clone()), None, "param_filled_with_nothing"));
            out.push((with(format!("{}{}", "k".repeat(40), l.lit)), None, "param_filled_long"));
        }
        if l.catch_all {
            out.push((with(l.lit.clone()), None, "catchall_filled_with_nothing"));
            out.push((with(format!("c1.{}", l.lit)), None, "catchall_filled_with_label_and_dot"));
            out.push((with(format!("c1..c2{}", l.lit)), None, "catchall_filled_with_empty_label_inside"));
            if n > 1 {
                out.push((b[1..].join("."), None, "catchall_label_absent"));
            }
        }
    }
    out
}

struct Lookup {
    matched: Option<u32>,
    params: Vec<(String, String)>,
    normalised: Option<String>,
}

fn lookup(router: &matchit::Router<u32>, header: &str) -> Result<Lookup, (String, String)> {
    catch_unwind(AssertUnwindSafe(|| {
        let normalised = normalise_like_generated(header);
        let mut matched = None;
        let mut params = Vec::new();
        if let Some(h) = &normalised {
            if let Ok(m) = router.at(h.as_str()) {
                matched = Some(*m.value);
                params = m.params.iter().map(|(k, v)| (k.to_string(), v.to_string())).collect();
            }
        }
        Lookup { matched, params, normalised }
    }))
    .map_err(|_| take_panic())
}

fn insert(router: &mut matchit::Router<u32>, pattern: &str, id: u32) -> Result<Result<(), matchit::InsertError>, (String, String)> {
    catch_unwind(AssertUnwindSafe(|| router.insert(pattern.to_string(), id))).map_err(|_| take_panic())
}

fn guard_kind(guard: &[GLabel]) -> &'static str {
    let ca = guard[0].catch_all;
    let sfx = guard.iter().any(|l| l.param.is_some() && !l.lit.is_empty());
    let par = guard.iter().any(|l| l.param.is_some());
    match (ca, sfx, par) {
        (true, true, _) => "catchall+suffix",
        (true, false, _) => "catchall",
        (false, true, _) => "suffix_param",
        (false, false, true) => "param",
        _ => "static",
    }
}

fn check_matching(guard_str: &str, guard: &[GLabel], pattern: &str, rng: &mut Rng, st: &mut Stats) {
    st.inc("guards_matched");
    let shape = guard_shape(guard);
    st.shapes.insert(fnv(&shape));
    let mut router = matchit::Router::new();
    if !matches!(insert(&mut router, pattern, 0), Ok(Ok(()))) {
        return; // reported by check_validator
    }
    // parameter names, right to left, as the user wrote them
    let expected_names: Vec<&str> = guard.iter().rev().filter_map(|l| l.param.as_deref()).collect();
    let kind = guard_kind(guard);
    for (host, port, edit) in hosts_for(guard, rng) {
        let header = match port {
            Some(p) => format!("{host}:{p}"),
            None => host.clone(),
        };
        let expected = ref_match(guard, &host);
        let l = match lookup(&router, &header) {
            Ok(l) => l,
            Err((msg, loc)) => {
                st.violation(json!({"part": "match", "kind": "panic", "location": short_location(&loc)}), &format!("{guard_str} {header}"), || {
                    json!({"guard": guard_str, "pattern": pattern, "host_header": header, "panic_message": msg})
                });
                continue;
            }
        };
        st.inc("hosts_tried");
        st.inc(&format!("edit.{edit}"));
        let observed = l.matched.is_some();
        match expected {
            Tri::Unspec => {
                st.inc("hosts_not_judged");
                st.observation(json!({"part": "match", "unspecified_host": edit, "observed": if observed { "match" } else { "no_match" }}), &format!("{guard_str} {header}"), || {
                    json!({"guard": guard_str, "host_header": header, "normalised": l.normalised})
                });
            }
            Tri::Yes | Tri::No => {
                let exp = expected == Tri::Yes;
                st.inc(if exp { "expected_match" } else { "expected_no_match" });
                if exp != observed {
                    let sig = if matches!(edit, "two_trailing_dots" | "three_trailing_dots") && !exp {
                        json!({"part": "match", "cause": "host_with_several_trailing_dots", "expected": "no_match"})
                    } else {
                        json!({"part": "match", "cause": edit, "expected": if exp { "match" } else { "no_match" }, "guard_kind": kind})
                    };
                    st.violation(
                        sig,
                        &format!("{guard_str} {header}"),
                        || json!({"guard": guard_str, "pattern": pattern, "host_header": header, "normalised_host": l.normalised,
                                  "reference": if exp { "host fits the guard" } else { "host does not fit the guard" },
                                  "observed": if observed { "router matched" } else { "router did not match (fallback)" }}),
                    );
                } else if exp {
                    let got: Vec<&str> = l.params.iter().map(|(k, _)| k.as_str()).collect();
                    if got != expected_names {
                        st.violation(json!({"part": "match", "cause": "param_name_not_preserved"}), guard_str, || {
                            json!({"guard": guard_str, "pattern": pattern, "host_header": header, "expected_param_names": expected_names, "captured": l.params})
                        });
                    }
                    st.sample(&format!("match.{kind}.{edit}"), guard_str, &header, || json!({"guard": guard_str, "pattern": pattern, "host": header, "verdict": "match", "captured": l.params}));
                } else {
                    st.sample(&format!("nomatch.{kind}.{edit}"), guard_str, &header, || json!({"guard": guard_str, "pattern": pattern, "host": header, "verdict": "no match"}));
                }
            }
        }
    }
}

// ------------------------------------------------------------------------- part (iii): pairs

fn normalised_guard(s: &str) -> &str {
    s.strip_suffix('.').unwrap_or(s)
}

/// A host built from `ga` whose free choices are aligned (from the right) with `gb`.
fn aligned_host(ga: &[GLabel], gb: &[GLabel]) -> String {
    let (na, nb) = (ga.len(), gb.len());
    let mut labels: Vec<String> = Vec::new();
    for j in 0..na {
        // j = distance from the right
        let a = &ga[na - 1 - j];
        let b = if j < nb { Some(&gb[nb - 1 - j]) } else { None };
        let fill_plain = |b: Option<&GLabel>| -> String {
            match b {
                Some(b) if b.param.is_none() && b.lit.len() > a.lit.len() && b.lit.ends_with(&a.lit) => b.lit.clone(),
                Some(b) if b.param.is_some() && b.lit.len() > a.lit.len() && b.lit.ends_with(&a.lit) => format!("x{}", b.lit),
                _ => format!("x{}", a.lit),
            }
        };
        if a.param.is_none() {
            labels.push(a.lit.clone());
        } else if !a.catch_all {
            labels.push(fill_plain(b));
        } else {
            // leading catch-all: cover whatever `gb` still has on the left
            labels.push(fill_plain(b));
            for jj in (j + 1)..nb {
                let bl = &gb[nb - 1 - jj];
                labels.push(if bl.param.is_some() { format!("x{}", bl.lit) } else { bl.lit.clone() });
            }
        }
    }
    labels.reverse();
    labels.join(".")
}

fn provably_disjoint(ga: &[GLabel], gb: &[GLabel]) -> Option<&'static str> {
    let ca = ga[0].catch_all || gb[0].catch_all;
    if !ca && ga.len() != gb.len() {
        return Some("different_label_counts_no_catch_all");
    }
    // positions from the right that are covered by an ordinary label in both guards
    let fixed = |g: &[GLabel]| if g[0].catch_all { g.len() - 1 } else { g.len() };
    let common = fixed(ga).min(fixed(gb));
    for j in 0..common {
        let a = &ga[ga.len() - 1 - j];
        let b = &gb[gb.len() - 1 - j];
        if !a.lit.ends_with(&b.lit) && !b.lit.ends_with(&a.lit) {
            return Some("incompatible_literals_at_same_position");
        }
        if a.param.is_none() && b.param.is_none() && a.lit != b.lit {
            return Some("incompatible_literals_at_same_position");
        }
    }
    if ga[0].catch_all != gb[0].catch_all {
        // the guard without catch-all has fewer labels than the catch-all one needs
        let (c, o) = if ga[0].catch_all { (ga, gb) } else { (gb, ga) };
        if o.len() < c.len() {
            return Some("too_few_labels_for_catch_all");
        }
    }
    None
}

fn check_pair(sa: &str, sb: &str, opts: &Opts, rng: &mut Rng, st: &mut Stats) {
    if normalised_guard(sa) == normalised_guard(sb) {
        return; // same `DomainGuard` key in pavexc: merged, not a pair
    }
    // `sorted` = order of the generated `domain_router()` (BTreeMap<DomainGuard, _>, i.e. by normalised string).
    // `detect_domain_conflicts` iterates an IndexMap in registration order, so both orders can occur there.
    let (sa, sb) = if normalised_guard(sa) <= normalised_guard(sb) { (sa, sb) } else { (sb, sa) };
    let (Some((ga, pa, _)), Some((gb, pb, _))) = (check_validator(sa, "pair", opts, st), check_validator(sb, "pair", opts, st)) else {
        return;
    };
    st.inc("pairs_checked");
    // candidate hosts (several trailing dots are left to part (ii))
    let mut hosts: Vec<String> = vec![aligned_host(&ga, &gb), aligned_host(&gb, &ga)];
    hosts.extend(hosts_for(&ga, rng).into_iter().filter(|h| h.1.is_none()).map(|h| h.0));
    hosts.extend(hosts_for(&gb, rng).into_iter().filter(|h| h.1.is_none()).map(|h| h.0));
    hosts.retain(|h| !h.ends_with(".."));
    let witness = hosts.iter().find(|h| ref_match(&ga, h) == Tri::Yes && ref_match(&gb, h) == Tri::Yes).cloned();
    let disjoint = if witness.is_none() { provably_disjoint(&ga, &gb) } else { None };
    let pair_kind = format!("{}|{}", guard_kind(&ga), guard_kind(&gb));
    let mut sorted_router: Option<matchit::Router<u32>> = None;
    for order in ["sorted", "reverse"] {
        // ids: 0 = sa, 1 = sb whatever the order
        let (first, second) = if order == "sorted" { ((&pa, 0u32), (&pb, 1u32)) } else { ((&pb, 1u32), (&pa, 0u32)) };
        let (g1, g2) = if order == "sorted" { (sa, sb) } else { (sb, sa) };
        let mut router = matchit::Router::new();
        match insert(&mut router, first.0, first.1) {
            Ok(Ok(())) => {}
            _ => return, // reported by part (ii)
        }
        st.inc(&format!("pair_inserts.{order}"));
        let second_res = match insert(&mut router, second.0, second.1) {
            Ok(r) => r,
            Err((msg, loc)) => {
                // The same two calls as in `detect_domain_conflicts` (router.rs:291-299) / the generated `domain_router()`.
                st.inc(&format!("pair_panics.{order}.{pair_kind}"));
                let relation = if witness.is_some() { "overlapping" } else if disjoint.is_some() { "disjoint" } else { "unclassified" };
                st.violation(json!({"part": "pair", "kind": "panic", "location": short_location(&loc), "guards_are": relation}), &format!("{g1} {g2}"), || {
                    json!({"guards_in_insertion_order": [g1, g2], "patterns_in_insertion_order": [first.0, second.0], "panic_message": msg, "location": loc,
                           "common_host_by_reference": witness, "provably_disjoint": disjoint})
                });
                continue;
            }
        };
        let outcome = match (&second_res, &witness, disjoint) {
            (Err(matchit::InsertError::Conflict { .. }), Some(_), _) => "overlap_and_conflict_reported",
            (Ok(()), Some(_), _) => "overlap_but_both_inserted",
            (Err(matchit::InsertError::Conflict { .. }), None, Some(_)) => "disjoint_but_conflict_reported",
            (Ok(()), None, Some(_)) => "disjoint_and_both_inserted",
            (Ok(()), None, None) => "unclassified_both_inserted",
            (Err(matchit::InsertError::Conflict { .. }), None, None) => "unclassified_conflict_reported",
            (Err(_), _, _) => "second_insert_other_error",
        };
        st.inc(&format!("pairs.{order}.{outcome}"));
        match outcome {
            "overlap_and_conflict_reported" => st.sample("pair.conflict", g1, g2, || json!({"guards": [g1, g2], "common_host": witness, "second_insert": "Conflict"})),
            "overlap_but_both_inserted" => {
                // Advisory: the property says overlapping guards are rejected; matchit lets static / prefixed /
                // plain parameters coexist with priorities. The lead's end-to-end part runs the real CLI.
                st.inc(&format!("overlap_not_reported.{order}.{pair_kind}"));
                let w = witness.clone().unwrap();
                let winner = lookup(&router, &w).ok().and_then(|l| l.matched);
                st.observation(json!({"part": "pair", "advisory": "overlap_not_reported_as_conflict", "order": order}), &format!("{g1} {g2}"), || {
                    json!({"guards_in_insertion_order": [g1, g2], "patterns": [first.0, second.0], "common_host": w, "router_picks": winner.map(|i| if i == 0 { sa } else { sb })})
                });
            }
            "disjoint_but_conflict_reported" => {
                st.inc(&format!("spurious_conflict.{order}.{pair_kind}"));
                let with = match &second_res {
                    Err(matchit::InsertError::Conflict { with }) => with.clone(),
                    _ => String::new(),
                };
                st.observation(json!({"part": "pair", "advisory": "conflict_reported_for_disjoint_guards", "why_disjoint": disjoint, "order": order}), &format!("{g1} {g2}"), || {
                    json!({"guards_in_insertion_order": [g1, g2], "patterns": [first.0, second.0], "conflict_with": with})
                });
            }
            "second_insert_other_error" => {
                // would be the `unreachable!` in detect_domain_conflicts
                let err = format!("{:?}", second_res);
                st.inconclusive(json!({"part": "pair", "what": "second_insert_fails_with_non_conflict_error", "error": err}), &format!("{g1} {g2}"), || json!({"guards_in_insertion_order": [g1, g2], "patterns": [first.0, second.0]}));
            }
            _ => {}
        }
        if order == "sorted" && second_res.is_ok() {
            sorted_router = Some(router);
        }
    }
    // Two-guard routing: when both patterns are in the router (as in the generated `domain_router()`),
    // a host that fits exactly one of the guards must be routed to it, one that fits none to nobody.
    if let Some(router) = sorted_router {
        for h in &hosts {
            let (ma, mb) = (ref_match(&ga, h), ref_match(&gb, h));
            if ma == Tri::Unspec || mb == Tri::Unspec {
                continue;
            }
            let Ok(l) = lookup(&router, h) else { continue };
            st.inc("pair_hosts_tried");
            let expected: Option<Option<u32>> = match (ma, mb) {
                (Tri::Yes, Tri::No) => Some(Some(0)),
                (Tri::No, Tri::Yes) => Some(Some(1)),
                (Tri::No, Tri::No) => Some(None),
                _ => None, // both: overlap, covered above
            };
            if let Some(exp) = expected {
                if exp != l.matched {
                    let name = |o: Option<u32>| match o {
                        Some(0) => sa,
                        Some(_) => sb,
                        None => "<none>",
                    };
                    st.violation(
                        json!({"part": "match_two_guards", "expected": if exp.is_some() { "the_only_fitting_guard" } else { "none" }, "observed": if l.matched.is_some() { "other_guard" } else { "none" }, "pair_kind": pair_kind}),
                        &format!("{sa} {sb} {h}"),
                        || json!({"guards": [sa, sb], "patterns": [pa, pb], "host": h, "normalised_host": l.normalised, "reference_picks": name(exp), "router_picks": name(l.matched)}),
                    );
                }
            }
        }
    }
}

/// Machine independent form of a panic location.
fn short_location(loc: &str) -> String {
    if let Some(i) = loc.find("/registry/src/") {
        let rest = &loc[i + "/registry/src/".len()..];
        return rest.split_once('/').map(|x| x.1.to_string()).unwrap_or_else(|| rest.to_string());
    }
    if let Some(i) = loc.find("/compiler/pavexc/") {
        return loc[i + 1..].to_string();
    }
    loc.to_string()
}

// ------------------------------------------------------------------------- random generators

fn ldh_label(rng: &mut Rng, len: usize) -> String {
    const AL: &[u8] = b"abcdefghijklmnopqrstuvwxyz0123456789";
    let mut s = String::with_capacity(len);
    for i in 0..len {
        if i > 0 && i + 1 < len && rng.chance(1, 8) {
            s.push('-');
        } else {
            s.push(AL[rng.below(AL.len())] as char);
        }
    }
    s
}

const GOOD_NAMES: &[&str] = &["p", "sub", "_x", "x_1", "A9", "__", "tenant_id", "a1", "ab"];
const ODD_NAMES: &[&str] = &[
    "_", "9a", "a-b", "fn", "self", "type", "match", "r#x", "r#fn", "é", "a b", " a", "a ", "a\t", "a/**/", "/**/a", "a//x", "*", "", "a*", "ａ", "a.b", "a{", "a!", "gen", "dyn",
    "async", "a\u{a0}", "a\u{200b}", "日本", "a'", "'a", "a#", "$a", "a::b", "1", "-", "a\n", "crate", "Self", "union",
];
const PUNCT: &[char] = &['!', '"', '#', '$', '%', '&', '\'', '(', ')', '+', ',', '/', ':', ';', '<', '=', '>', '?', '@', '[', '\\', ']', '^', '`', '|', '~', ' ', '\t', '_', '*'];
const NON_ASCII: &[char] = &['é', 'ß', '中', 'ａ', '\u{a0}', '\u{200b}', '𝒜', '\u{301}', 'İ', 'K'];

/// Random long / exotic guard aimed at the 63 and 253 limits and at the character classes.
fn random_long_guard(rng: &mut Rng) -> String {
    let mode = rng.below(10);
    let mut labels: Vec<String> = Vec::new();
    let param = |rng: &mut Rng, catch_allowed: bool, den: u64| {
        let catch = catch_allowed && den > 0 && rng.chance(1, den);
        let name = if rng.chance(1, 6) { rng.pick(ODD_NAMES) } else { rng.pick(GOOD_NAMES) };
        format!("{{{}{}}}", if catch { "*" } else { "" }, name)
    };
    match mode {
        0..=2 => {
            // label length boundary
            let n = 1 + rng.below(4);
            let hot = rng.below(n);
            for i in 0..n {
                let len = if i == hot { [61, 62, 63, 64, 65, 63, 64][rng.below(7)] } else { 1 + rng.below(12) };
                let mut l = ldh_label(rng, len);
                if rng.chance(1, 3) {
                    l = format!("{}{}", param(rng, i == 0, 3), l);
                }
                labels.push(l);
            }
        }
        3..=6 => {
            // total length boundary: pick a target and fill with labels
            let target = [250, 251, 252, 253, 254, 255, 253, 254][rng.below(8)];
            let templated = rng.chance(1, 2);
            let mut total = 0usize; // counted as the implementation's comment says: parameter = 1
            while total < target {
                let remaining = target - total - if labels.is_empty() { 0 } else { 1 };
                if remaining == 0 {
                    // cannot add "." + nothing: extend the previous label instead
                    let last = labels.last_mut().unwrap();
                    last.push('a');
                    total += 1;
                    continue;
                }
                let with_param = templated && rng.chance(1, 3);
                let max = remaining.min(63);
                let mut len = 1 + rng.below(max);
                if remaining - len == 1 {
                    // do not leave room for just a dot
                    len = if len < max { len + 1 } else { len - 1 }.max(1);
                }
                let l = if with_param {
                    format!("{}{}", param(rng, labels.is_empty(), 3), ldh_label(rng, len - 1))
                } else {
                    ldh_label(rng, len)
                };
                total += len + if labels.is_empty() { 0 } else { 1 };
                labels.push(l);
            }
        }
        _ => {
            // short, exotic
            let n = 1 + rng.below(4);
            for i in 0..n {
                let len = 1 + rng.below(6);
                let mut l = ldh_label(rng, len);
                match rng.below(6) {
                    0 => l = format!("{}{}", param(rng, i == 0, 2), l),
                    1 => l = param(rng, i == 0, 2),
                    2 => l = format!("{}{}", param(rng, true, 4), param(rng, false, 0)),
                    3 => l = format!("{}{}", l, param(rng, false, 0)),
                    _ => {}
                }
                labels.push(l);
            }
        }
    }
    let mut s = labels.join(".");
    // mutations
    let muts = match rng.below(10) {
        0..=4 => 0,
        5..=8 => 1,
        _ => 2,
    };
    for _ in 0..muts {
        let mut cs: Vec<char> = s.chars().collect();
        if cs.is_empty() {
            break;
        }
        let pos = rng.below(cs.len());
        match rng.below(9) {
            0 => cs[pos] = cs[pos].to_ascii_uppercase(),
            1 => cs[pos] = PUNCT[rng.below(PUNCT.len())],
            2 => cs.insert(pos, PUNCT[rng.below(PUNCT.len())]),
            3 => cs[pos] = NON_ASCII[rng.below(NON_ASCII.len())],
            4 => cs.insert(pos, NON_ASCII[rng.below(NON_ASCII.len())]),
            5 => cs[pos] = '-',
            6 => cs.insert(pos, '.'),
            7 => {
                cs.remove(pos);
            }
            _ => cs.insert(pos, ALPHABET[rng.below(8)]),
        }
        s = cs.into_iter().collect();
    }
    match rng.below(8) {
        0 | 1 | 2 => s.push('.'),
        3 => s.push_str(".."),
        _ => {}
    }
    s
}

/// Random "rich" guard inside the documented grammar, over a small vocabulary (so that pairs overlap).
fn random_rich_guard(rng: &mut Rng) -> String {
    const LITS: &[&str] = &["a", "b", "ab", "ba", "com", "dev", "api", "x-y", "a1", "1", "www", "pavex", "b-a"];
    const SFX: &[&str] = &["a", "b", "ab", "-a", "api", "1", "x-y", "ba"];
    let n = 1 + rng.below(4);
    let mut labels = Vec::new();
    for i in 0..n {
        let name = rng.pick(GOOD_NAMES);
        let l = match rng.below(if i == 0 { 12 } else { 9 }) {
            0..=4 => rng.pick(LITS).to_string(),
            5 | 6 => format!("{{{name}}}"),
            7 | 8 => format!("{{{name}}}{}", rng.pick(SFX)),
            9 | 10 => format!("{{*{name}}}"),
            _ => format!("{{*{name}}}{}", rng.pick(SFX)),
        };
        labels.push(l);
    }
    let mut s = labels.join(".");
    if rng.chance(1, 6) {
        s.push('.');
    }
    s
}

// ------------------------------------------------------------------------- driver

fn run_parallel<F: Fn(usize, &mut Stats) + Sync>(threads: usize, shards: usize, deadline: Instant, timed_out: &AtomicBool, f: F) -> Stats {
    let next = AtomicUsize::new(0);
    let global = Mutex::new(Stats::default());
    std::thread::scope(|sc| {
        for _ in 0..threads {
            sc.spawn(|| {
                let mut local = Stats::default();
                loop {
                    let i = next.fetch_add(1, Ordering::Relaxed);
                    if i >= shards {
                        break;
                    }
                    if Instant::now() > deadline {
                        timed_out.store(true, Ordering::Relaxed);
                        break;
                    }
                    f(i, &mut local);
                }
                global.lock().unwrap().merge(local);
            });
        }
    });
    global.into_inner().unwrap()
}

fn emit(kind: &str, map: &BTreeMap<String, Agg>) {
    for a in map.values() {
        let mut detail = a.detail.clone();
        if let Value::Object(o) = &mut detail {
            o.insert("occurrences".into(), json!(a.count));
        }
        match kind {
            "violation" => println!("{}", json!({"kind": "violation", "sig": a.sig, "detail": detail})),
            _ => println!("{}", json!({"kind": "inconclusive", "what": a.sig.to_string(), "detail": detail})),
        }
    }
}

fn main() {
    let args: Vec<String> = std::env::args().collect();
    let get = |name: &str| args.iter().position(|a| a == name).and_then(|i| args.get(i + 1)).cloned();
    let seed: u64 = get("--seed").and_then(|s| s.parse().ok()).unwrap_or(1);
    let tier = get("--tier").unwrap_or_else(|| "quick".into());
    let quick = tier != "thorough";
    let threads: usize = get("--threads").and_then(|s| s.parse().ok()).unwrap_or(if quick { 12 } else { 16 });
    let budget_s: u64 = get("--budget-s").and_then(|s| s.parse().ok()).unwrap_or(if quick { 50 } else { 540 });
    let max_len: usize = get("--max-len").and_then(|s| s.parse().ok()).unwrap_or(if quick { 7 } else { 9 });
    let n_random: usize = get("--random").and_then(|s| s.parse().ok()).unwrap_or(if quick { 300_000 } else { 20_000_000 });
    let n_rich: usize = get("--rich").and_then(|s| s.parse().ok()).unwrap_or(if quick { 40_000 } else { 2_000_000 });
    let n_pairs: usize = get("--pairs").and_then(|s| s.parse().ok()).unwrap_or(if quick { 60_000 } else { 4_000_000 });
    let opts = Opts { lenient_is_invalid: get("--lenient-names").map(|v| v != "observe").unwrap_or(true) };
    install_silent_panic_hook();
    let t0 = Instant::now();
    let deadline = t0 + Duration::from_secs(budget_s);
    let timed_out = AtomicBool::new(false);

    // Single-case replay: --guard G [--host H] [--guard2 G2]
    if let Some(g) = get("--guard") {
        let mut st = Stats::default();
        let mut rng = Rng::new(seed);
        if let Some(g2) = get("--guard2") {
            check_pair(&g, &g2, &opts, &mut rng, &mut st);
        } else if let Some((labels, pattern, _)) = check_validator(&g, "replay", &opts, &mut st) {
            check_matching(&g, &labels, &pattern, &mut rng, &mut st);
            if let Some(h) = get("--host") {
                let mut router = matchit::Router::new();
                let ins = router.insert(pattern.clone(), 0u32);
                let l = lookup(&router, &h);
                let host_only = h.rsplit_once(':').map(|x| x.0).unwrap_or(&h);
                println!("{}", json!({"kind": "replay", "guard": g, "pattern": pattern, "insert": format!("{ins:?}"), "host_header": h,
                    "reference": format!("{:?}", ref_match(&labels, host_only)),
                    "observed_match": l.as_ref().ok().map(|l| l.matched.is_some()), "normalised": l.ok().and_then(|l| l.normalised)}));
            }
        }
        emit("violation", &st.violations);
        println!("{}", json!({"kind": "summary", "evaluations": st.counters.get("strings_classified").copied().unwrap_or(0) + st.counters.get("hosts_tried").copied().unwrap_or(0), "distinct_keys": [], "samples": [], "replay": true, "counters": st.counters}));
        return;
    }

    // ---- (i) exhaustive validator pass; accepted guards are collected for (ii)
    const CHUNK: u64 = 1 << 15;
    let mut work: Vec<(usize, u64, u64)> = Vec::new();
    for len in 0..=max_len {
        let total = 8u64.pow(len as u32);
        let mut from = 0;
        while from < total {
            let to = (from + CHUNK).min(total);
            work.push((len, from, to));
            from = to;
        }
    }
    // the exhaustive pass may use at most 60% of the budget, so that the other parts always run
    let deadline_exhaustive = t0 + Duration::from_secs(budget_s * 6 / 10);
    let mut total = run_parallel(threads, work.len(), deadline_exhaustive, &timed_out, |i, st| {
        let (len, from, to) = work[i];
        for idx in from..to {
            let s = nth_string(len, idx);
            if let Some((_, _, judged_accept)) = check_validator(&s, "exhaustive", &Opts { lenient_is_invalid: opts.lenient_is_invalid }, st) {
                if judged_accept {
                    st.accepted.push(s);
                }
            }
            st.inc("exhaustive_strings");
        }
    });
    let exhaustive_complete = !timed_out.load(Ordering::Relaxed);
    if !exhaustive_complete {
        println!("{}", json!({"kind": "inconclusive", "what": "exhaustive enumeration cut short by its time budget (not flagged exhaustive)", "detail": {"budget_s": budget_s * 6 / 10, "max_len": max_len}}));
        timed_out.store(false, Ordering::Relaxed);
    }
    let t_exh = t0.elapsed().as_secs_f64();
    let mut accepted = std::mem::take(&mut total.accepted);
    accepted.sort();
    let exhaustive_accepted = accepted.len();

    // ---- (ii) matching over every accepted guard of the exhaustive set
    let per = 256usize;
    let shards = accepted.len().div_ceil(per);
    let m1 = run_parallel(threads, shards, deadline, &timed_out, |i, st| {
        let mut rng = Rng::new(seed ^ 0x11 ^ ((i as u64) << 20));
        for s in &accepted[i * per..((i + 1) * per).min(accepted.len())] {
            let (_, labels) = classify(s, true);
            let Some(labels) = labels else { continue };
            let Ok(Ok(pattern)) = call_hook(s) else { continue };
            check_matching(s, &labels, &pattern, &mut rng, st);
        }
    });
    total.merge(m1);
    let t_m1 = t0.elapsed().as_secs_f64();

    // ---- (i) random long / exotic guards (+ matching when accepted)
    let per = 2000usize;
    let shards = n_random.div_ceil(per);
    let r1 = run_parallel(threads, shards, deadline, &timed_out, |i, st| {
        let mut rng = Rng::new(seed ^ 0x22 ^ ((i as u64) << 20));
        for _ in 0..per {
            let s = random_long_guard(&mut rng);
            st.inc("random_long_strings");
            let n_chars = s.chars().count();
            if n_chars >= 250 {
                st.inc("random_near_253");
            }
            if s.split('.').any(|l| (62..=65).contains(&l.chars().count())) {
                st.inc("random_label_near_63");
            }
            if !s.is_ascii() {
                st.inc("random_non_ascii");
            }
            if s.chars().any(|c| c.is_ascii_uppercase()) {
                st.inc("random_upper_case");
            }
            if let Some((labels, pattern, _)) = check_validator(&s, "random_long", &opts, st) {
                // (host choice and sampling depend on the guard text only, not on earlier verdicts)
                if fnv(&s) % 4 == 0 || n_chars < 40 {
                    check_matching(&s, &labels, &pattern, &mut Rng::new(fnv(&s) ^ seed), st);
                }
            }
        }
    });
    total.merge(r1);
    let t_r1 = t0.elapsed().as_secs_f64();

    // ---- (ii) random rich guards
    let per = 500usize;
    let shards = n_rich.div_ceil(per);
    let r2 = run_parallel(threads, shards, deadline, &timed_out, |i, st| {
        let mut rng = Rng::new(seed ^ 0x33 ^ ((i as u64) << 20));
        for _ in 0..per {
            let s = random_rich_guard(&mut rng);
            st.inc("random_rich_guards");
            if let Some((labels, pattern, _)) = check_validator(&s, "random_rich", &opts, st) {
                check_matching(&s, &labels, &pattern, &mut Rng::new(fnv(&s) ^ seed), st);
            }
        }
    });
    total.merge(r2);
    let t_r2 = t0.elapsed().as_secs_f64();

    // ---- (iii) pairs: all pairs of short accepted guards from the exhaustive set + random rich pairs
    let short: Vec<&String> = accepted.iter().filter(|s| s.chars().count() <= if quick { 4 } else { 5 }).collect();
    let short_pairs_exhaustive = short.len() * short.len() <= 4_000_000;
    let p1 = run_parallel(threads, short.len(), deadline, &timed_out, |i, st| {
        let mut rng = Rng::new(seed ^ 0x44 ^ ((i as u64) << 20));
        for j in (i + 1)..short.len() {
            if !short_pairs_exhaustive && !rng.chance(4_000_000, (short.len() * short.len()) as u64) {
                continue;
            }
            check_pair(short[i], short[j], &opts, &mut Rng::new(fnv(short[i]) ^ fnv(short[j]) ^ seed), st);
        }
    });
    total.merge(p1);
    let per = 500usize;
    let shards = n_pairs.div_ceil(per);
    let p2 = run_parallel(threads, shards, deadline, &timed_out, |i, st| {
        let mut rng = Rng::new(seed ^ 0x55 ^ ((i as u64) << 20));
        for _ in 0..per {
            let a = random_rich_guard(&mut rng);
            let b = random_rich_guard(&mut rng);
            check_pair(&a, &b, &opts, &mut Rng::new(fnv(&a) ^ fnv(&b) ^ seed), st);
        }
    });
    total.merge(p2);
    let t_p = t0.elapsed().as_secs_f64();

    // ---- report
    emit("violation", &total.violations);
    emit("inconclusive", &total.inconclusive);
    if timed_out.load(Ordering::Relaxed) {
        println!("{}", json!({"kind": "inconclusive", "what": "time budget exhausted before the planned workload completed", "detail": {"budget_s": budget_s}}));
    }
    let c = |k: &str| total.counters.get(k).copied().unwrap_or(0);
    let mut keys: Vec<String> = total.shapes.iter().map(|h| format!("{h:016x}")).collect();
    keys.sort();
    keys.truncate(20_000);
    let pick = ["match.param.instantiation", "nomatch.static.two_trailing_dots", "match.catchall.catchall_3_labels", "nomatch.suffix_param.literal_last_char_changed", "match.suffix_param.one_trailing_dot", "pair.conflict", "nomatch.catchall.catchall_filled_with_nothing"];
    let mut samples: Vec<Value> = pick.iter().filter_map(|k| total.samples.get(*k).map(|x| x.1.clone())).collect();
    if samples.len() < 3 {
        samples.extend(total.samples.values().take(6 - samples.len()).map(|x| x.1.clone()));
    }
    let observations: Vec<Value> = total.observations.values().map(|a| json!({"what": a.sig, "count": a.count, "smallest_example": a.detail})).collect();
    let group = |prefix: &str| -> BTreeMap<String, u64> {
        total.counters.iter().filter(|(k, _)| k.starts_with(prefix)).map(|(k, v)| (k[prefix.len()..].to_string(), *v)).collect()
    };
    println!(
        "{}",
        json!({
            "kind": "summary",
            "evaluations": c("strings_classified") + c("hosts_tried") + c("pair_hosts_tried") + c("pairs_checked"),
            "distinct_keys": keys,
            "samples": samples,
            "validator": {
                "strings_classified": c("strings_classified"), "accepted": c("accepted"), "rejected": c("rejected"),
                "agree_accept": c("agree_accept"), "agree_reject": c("agree_reject"), "not_judged": c("not_judged"),
            },
            "exhaustive": {
                "exhaustive": exhaustive_complete, "alphabet": ALPHABET.iter().collect::<String>(), "max_len": max_len,
                "strings": c("exhaustive_strings"), "accepted_guards": exhaustive_accepted,
            },
            "random_validator": {
                "strings": c("random_long_strings"), "total_length_250_plus": c("random_near_253"), "with_label_of_62_to_65": c("random_label_near_63"),
                "non_ascii": c("random_non_ascii"), "upper_case": c("random_upper_case"), "rich_guards": c("random_rich_guards"),
            },
            "reference_reject_rules": group("reject_rule."),
            "impl_error_kinds": group("impl_error."),
            "not_judged_classes": group("not_judged."),
            "matching": {
                "guards": c("guards_matched"), "distinct_guard_shapes": total.shapes.len(), "hosts_tried": c("hosts_tried"),
                "expected_match": c("expected_match"), "expected_no_match": c("expected_no_match"), "hosts_not_judged": c("hosts_not_judged"),
            },
            "host_edit_kinds": group("edit."),
            "pairs": {
                "short_guards_all_pairs": short_pairs_exhaustive, "short_guards": short.len(),
                "pairs_checked": c("pairs_checked"), "pair_hosts_tried": c("pair_hosts_tried"),
                "outcomes_by_insertion_order": group("pairs."),
                "panics_by_order_and_kind": group("pair_panics."),
                "overlap_not_reported_by_order_and_kind": group("overlap_not_reported."),
                "spurious_conflict_by_order_and_kind": group("spurious_conflict."),
            },
            "observations": observations,
            "violation_classes": total.violations.len(),
            "violation_occurrences": total.violations.values().map(|a| a.count).sum::<u64>(),
            "phase_seconds": {"exhaustive": t_exh, "match_exhaustive": t_m1 - t_exh, "random_validator": t_r1 - t_m1, "random_rich": t_r2 - t_r1, "pairs": t_p - t_r2},
            "threads": threads,
        })
    );
}
