//! C10 (part): `persist_if_changed` / `copy_if_changed` are the primitive behind "re-running on unchanged inputs
//! modifies no file" and "the bytes on disk are the bytes that were generated".
//! Monitor: for a history `old content on disk -> persist(new content)` the file must afterwards hold exactly the new
//! content; when old == new the file must not be touched (same inode, same mtime). Sizes straddle the block sizes a
//! streaming checksum would use; same-size contents differ at every interesting offset (first byte, block borders, last
//! partial block, last byte).
use std::io::Write;
use std::os::unix::fs::MetadataExt;
use std::path::Path;

struct Rng(u64);
impl Rng {
    fn next(&mut self) -> u64 {
        self.0 = self.0.wrapping_add(0x9E3779B97F4A7C15);
        let mut z = self.0;
        z = (z ^ (z >> 30)).wrapping_mul(0xBF58476D1CE4E5B9);
        z = (z ^ (z >> 27)).wrapping_mul(0x94D049BB133111EB);
        z ^ (z >> 31)
    }
    fn below(&mut self, n: usize) -> usize {
        (self.next() % (n as u64).max(1)) as usize
    }
}

fn content(rng: &mut Rng, len: usize) -> Vec<u8> {
    (0..len).map(|_| b'a' + (rng.next() % 26) as u8).collect()
}

fn write_raw(p: &Path, c: &[u8]) {
    let mut f = std::fs::File::create(p).unwrap();
    f.write_all(c).unwrap();
    f.sync_all().ok();
}

fn stamp(p: &Path) -> (u64, i64, i64) {
    let m = std::fs::metadata(p).unwrap();
    (m.ino(), m.mtime(), m.mtime_nsec())
}

fn main() {
    let args: Vec<String> = std::env::args().collect();
    let mut seed = 1u64;
    let mut tier = "quick".to_string();
    let mut i = 1;
    while i < args.len() {
        match args[i].as_str() {
            "--seed" => { seed = args[i + 1].parse().unwrap_or(1); i += 1; }
            "--tier" => { tier = args[i + 1].clone(); i += 1; }
            _ => {}
        }
        i += 1;
    }
    let dir = std::env::temp_dir().join(format!("verif-persist-{}-{}", std::process::id(), seed));
    std::fs::create_dir_all(&dir).unwrap();
    let mut rng = Rng(seed ^ 0xC10);
    let blocks = [0usize, 1, 2, 63, 64, 65, 511, 512, 513, 4095, 4096, 4097, 8191, 8192, 8193, 12000, 16383, 16384, 16385, 24576, 40000, 65535, 65536, 65537, 100_000];
    let n_random = if tier == "thorough" { 6000 } else { 600 };
    let mut evaluations = 0u64;
    let mut unchanged_checked = 0u64;
    let mut same_size_changes = 0u64;
    let mut keys: Vec<String> = Vec::new();
    let mut violations = 0u64;
    let mut case = |len_old: usize, new: Vec<u8>, old: Vec<u8>, what: &str, offset: Option<usize>, via_copy: bool, evaluations: &mut u64, violations: &mut u64| {
        let p = dir.join("out.txt");
        let src = dir.join("src.txt");
        write_raw(&p, &old);
        // make sure a rewrite would be visible in the modification time
        let before = stamp(&p);
        std::thread::sleep(std::time::Duration::from_millis(if old == new { 12 } else { 0 }));
        let res = std::panic::catch_unwind(|| {
            if via_copy {
                write_raw(&src, &new);
                persist_if_changed::copy_if_changed(&src, &p).map_err(|e| e.to_string())
            } else {
                persist_if_changed::persist_if_changed(&p, &new).map_err(|e| e.to_string())
            }
        });
        *evaluations += 1;
        let on_disk = std::fs::read(&p).unwrap_or_default();
        let after = stamp(&p);
        let mut bad: Option<&str> = None;
        match res {
            Err(_) => bad = Some("panic"),
            Ok(Err(_)) => bad = Some("error"),
            Ok(Ok(())) => {
                if on_disk != new {
                    bad = Some("stale_content_kept");
                } else if old == new && before != after {
                    bad = Some("unchanged_file_touched");
                }
            }
        }
        if let Some(b) = bad {
            *violations += 1;
            if *violations <= 5 {
                println!("{}", serde_json::json!({"kind": "violation",
                    "sig": {"rule": b, "part": "persist_if_changed", "what": what, "api": if via_copy {"copy_if_changed"} else {"persist_if_changed"}},
                    "detail": {"len_old": len_old, "len_new": new.len(), "first_difference_at": offset, "block_8192_index": offset.map(|o| o / 8192),
                               "in_last_partial_block": offset.map(|o| o / 8192 == new.len() / 8192)}}));
            }
        }
    };
    // --- exhaustive over the size table: unchanged, same size with one byte flipped at every interesting offset, other sizes
    for &len in &blocks {
        for via_copy in [false, true] {
            let old = content(&mut rng, len);
            case(len, old.clone(), old.clone(), "unchanged", None, via_copy, &mut evaluations, &mut violations);
            unchanged_checked += 1;
            let mut offsets = vec![0usize, len / 2, len.saturating_sub(1)];
            for b in [64usize, 512, 4096, 8192, 16384, 65536] {
                for o in [b.wrapping_sub(1), b, b + 1] {
                    if o < len { offsets.push(o); }
                }
                if len > 0 { offsets.push((len / b) * b); offsets.push(((len / b) * b).saturating_sub(1)); }
            }
            offsets.retain(|&o| o < len);
            offsets.sort();
            offsets.dedup();
            for o in offsets {
                let mut new = old.clone();
                new[o] = if new[o] == b'Z' { b'Y' } else { b'Z' };
                case(len, new, old.clone(), "same_size_one_byte", Some(o), via_copy, &mut evaluations, &mut violations);
                same_size_changes += 1;
            }
            let shorter = content(&mut rng, len / 2);
            case(len, shorter, old.clone(), "shorter", None, via_copy, &mut evaluations, &mut violations);
            let mut longer = old.clone();
            longer.extend_from_slice(b"tail");
            case(len, longer, old.clone(), "longer_same_prefix", Some(len), via_copy, &mut evaluations, &mut violations);
            keys.push(format!("len{}-copy{}", len, via_copy));
        }
    }
    // --- random histories
    for k in 0..n_random {
        let len = match rng.below(4) { 0 => rng.below(300), 1 => 8192 * (1 + rng.below(4)) + rng.below(3) - 1, 2 => rng.below(70_000), _ => 4096 * rng.below(20) + rng.below(4096) };
        let old = content(&mut rng, len);
        let via_copy = rng.below(2) == 0;
        match rng.below(3) {
            0 => { case(len, old.clone(), old.clone(), "unchanged", None, via_copy, &mut evaluations, &mut violations); unchanged_checked += 1; }
            1 if len > 0 => {
                let mut new = old.clone();
                let o = if rng.below(2) == 0 { len - 1 - rng.below(len.min(9000)) } else { rng.below(len) };
                let n = 1 + rng.below(4);
                for j in 0..n { let idx = (o + j).min(len - 1); new[idx] = if new[idx] == b'Q' { b'R' } else { b'Q' }; }
                case(len, new, old.clone(), "same_size_random", Some(o), via_copy, &mut evaluations, &mut violations);
                same_size_changes += 1;
            }
            _ => { let l2 = rng.below(70_000); let new = content(&mut rng, l2); case(len, new, old.clone(), "other_content", None, via_copy, &mut evaluations, &mut violations); }
        }
        if k % 50 == 0 { keys.push(format!("rnd{}-{}", len / 4096, via_copy)); }
    }
    keys.sort();
    keys.dedup();
    std::fs::remove_dir_all(&dir).ok();
    println!("{}", serde_json::json!({"kind": "summary", "evaluations": evaluations, "distinct_keys": keys, "unchanged_histories": unchanged_checked,
        "same_size_changes": same_size_changes, "violations_total": violations,
        "samples": [{"sizes": blocks.to_vec()}]}));
}
