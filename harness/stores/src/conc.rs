//! Concurrent histories: T tasks on a multi-thread runtime, calls recorded at the client boundary,
//! each history decided by the linearizability search.

use crate::exec::{Clock, WallGuard, timed_call};
use crate::genr::{ConcPlan, Gap, session_id};
use crate::lin::{Ev, LinOutcome, check, max_concurrency, overlaps};
use crate::model::{Op, Relax, Res};
use crate::report::{Stats, fnv};
use pavex_session::SessionId;
use pavex_session::store::SessionStorageBackend;
use serde_json::{Value, json};
use std::sync::Arc;
use std::time::Duration;

const LIN_BUDGET: u64 = 3_000_000;

fn ev_json(e: &Ev) -> Value {
    json!({"task": e.task, "op": e.op.show(), "t_call_ns": e.t0, "t_return_ns": e.t1, "result": e.res.show()})
}

fn chg_upd_del(op: &Op) -> bool {
    matches!(op, Op::ChangeId { .. } | Op::Update { .. } | Op::Delete { .. })
}

fn id_mutation(op: &Op) -> bool {
    op.is_mutation() && !matches!(op, Op::DeleteExpired { .. })
}

fn share_id(a: &Op, b: &Op) -> bool {
    let ia = a.ids();
    b.ids().iter().any(|x| ia.contains(x))
}

pub async fn run_conc(
    plan: &ConcPlan,
    store: Arc<dyn SessionStorageBackend>,
    store_name: &'static str,
    variant: &str,
    clock: Clock,
    stats: &mut Stats,
    want_sample: bool,
) {
    let k = plan.k;
    let hseed = plan.hseed;
    let guard = WallGuard::new();
    let ids: Arc<Vec<SessionId>> = Arc::new((0..k).map(|i| session_id(hseed, i)).collect());
    let mut evs: Vec<Ev> = Vec::new();
    for op in &plan.setup {
        let (t0, res, t1) = timed_call(&*store, &ids, hseed, op, &clock).await;
        evs.push(Ev { task: -1, op: op.clone(), res, t0, t1 });
    }
    let t = plan.tasks.len();
    let gate = Arc::new((std::sync::atomic::AtomicUsize::new(0), std::sync::atomic::AtomicBool::new(false)));
    let mut handles = Vec::new();
    for (ti, ops) in plan.tasks.iter().enumerate() {
        let ops = ops.clone();
        let store = store.clone();
        let ids = ids.clone();
        let gate = gate.clone();
        handles.push(tokio::spawn(async move {
            // states are built before, results classified after the calls: calls run back to back
            let prepared: Vec<_> = ops.iter().map(|(_, op)| crate::exec::prepare(hseed, op)).collect();
            let mut raws = Vec::new();
            // Line the tasks up so that very short calls can overlap: a task leaves the gate when all
            // tasks of the history are spinning at the same moment, i.e. sit on distinct worker threads
            // (after 300 us: all but one; after 1.5 ms: unconditionally).
            use std::sync::atomic::Ordering::SeqCst;
            let gate_start = std::time::Instant::now();
            'gate: loop {
                gate.0.fetch_add(1, SeqCst);
                let spin_start = std::time::Instant::now();
                while spin_start.elapsed() < Duration::from_micros(40) {
                    let waited = gate_start.elapsed();
                    let need = if waited < Duration::from_micros(300) { t } else { t.saturating_sub(1).max(2) };
                    if gate.0.load(SeqCst) >= need || waited > Duration::from_micros(1500) {
                        gate.1.store(true, SeqCst);
                    }
                    if gate.1.load(SeqCst) {
                        break 'gate;
                    }
                    std::hint::spin_loop();
                }
                gate.0.fetch_sub(1, SeqCst);
                tokio::task::yield_now().await;
            }
            for (i, (gap, op)) in ops.iter().enumerate() {
                match *gap {
                    Gap::None => {}
                    Gap::Yield(n) => {
                        for _ in 0..n {
                            tokio::task::yield_now().await;
                        }
                    }
                    Gap::Spin(us) => {
                        let s0 = std::time::Instant::now();
                        while s0.elapsed() < Duration::from_micros(us as u64) {
                            std::hint::spin_loop();
                        }
                    }
                    Gap::Burn { leave } => {
                        // Start a fresh poll (full cooperative budget of 128 units), then use the budget up
                        // except for `leave` units: the (leave+1)-th tokio resource the store awaits during
                        // the next call reports Pending, so the call is suspended half way while the other
                        // tasks run -- overlapping calls even when all tasks share one worker thread.
                        tokio::task::yield_now().await;
                        for _ in 0..(128 - leave as u32) {
                            if !tokio::task::coop::has_budget_remaining() {
                                break;
                            }
                            tokio::task::coop::consume_budget().await;
                        }
                    }
                    Gap::SleepUs(us) => tokio::time::sleep(Duration::from_micros(us as u64)).await,
                }
                raws.push(crate::exec::raw_timed_call(&*store, &ids, op, prepared[i].as_ref(), &clock).await);
            }
            let mut out = Vec::new();
            for ((_, op), (t0, raw, t1)) in ops.into_iter().zip(raws.into_iter()) {
                out.push(Ev { task: ti as i32, op, res: crate::exec::finish(hseed, raw, &clock), t0, t1 });
            }
            out
        }));
    }
    let mut broken = false;
    for h in handles {
        match h.await {
            Ok(v) => evs.extend(v),
            Err(e) => {
                broken = true;
                stats.inconc("a harness task failed outside a store call", json!({"error": e.to_string(), "hseed": hseed}));
            }
        }
    }
    if broken {
        return;
    }
    for j in 0..k as u8 {
        let op = Op::Load { id: j };
        let (t0, res, t1) = timed_call(&*store, &ids, hseed, &op, &clock).await;
        evs.push(Ev { task: -1, op, res, t0, t1 });
    }
    evs.sort_by_key(|e| (e.t0, e.t1));
    if !guard.steady() {
        stats.add("histories_dropped_wall_clock_unsteady", 1);
        stats.inconc(
            "the wall clock did not advance in step with the monotonic clock during a history; it was not judged",
            json!({"store": store_name, "hseed": hseed}),
        );
        return;
    }

    stats.add(&format!("conc_histories_{}", store_name), 1);
    stats.add(&format!("conc_ops_{}", store_name), evs.len() as u64);
    stats.max("conc_max_history_len", evs.len() as u64);
    let mc = max_concurrency(&evs) as u64;
    stats.max(&format!("conc_max_concurrency_{}", store_name), mc);
    if mc >= 2 {
        stats.add(&format!("conc_histories_with_overlap_{}", store_name), 1);
    }
    let (mut ov_same_id, mut ov_cud, mut ov_chg, mut ov_any_same_id) = (false, false, false, false);
    for a in 0..evs.len() {
        for b in (a + 1)..evs.len() {
            let (x, y) = (&evs[a], &evs[b]);
            if x.task == y.task || !overlaps(x, y) || !share_id(&x.op, &y.op) {
                continue;
            }
            ov_any_same_id = true;
            if id_mutation(&x.op) && id_mutation(&y.op) {
                ov_same_id = true;
                if chg_upd_del(&x.op) && chg_upd_del(&y.op) {
                    ov_cud = true;
                }
                if matches!(x.op, Op::ChangeId { .. }) || matches!(y.op, Op::ChangeId { .. }) {
                    ov_chg = true;
                }
            }
        }
    }
    if ov_any_same_id {
        stats.add(&format!("conc_histories_overlapping_ops_same_id_{}", store_name), 1);
    }
    if ov_same_id {
        stats.add(&format!("conc_histories_overlapping_mutations_same_id_{}", store_name), 1);
    }
    if ov_cud {
        stats.add(&format!("conc_histories_overlapping_changeid_update_delete_same_id_{}", store_name), 1);
    }
    if ov_chg {
        stats.add(&format!("conc_histories_overlapping_change_id_with_mutation_same_id_{}", store_name), 1);
    }
    let mut shapes: Vec<String> = evs.iter().map(|e| e.op.shape()).collect();
    shapes.sort();
    let ms = fnv(&shapes.join(","));
    stats.multisets.insert(ms);
    if ov_any_same_id {
        stats.distinct_key(fnv(&format!("conc|{}|{}", store_name, shapes.join(","))));
    }
    if let Some(e) = evs.iter().find(|e| matches!(&e.res, Res::Loaded(Some(l)) if l.float_only_diff)) {
        stats.add(&format!("histories_with_float_rounding_{}", store_name), 1);
        stats.violation(
            json!({"store": store_name, "op": "load", "cause": "float_value_not_roundtripped_exactly", "mode": "concurrent"}),
            json!({"store": store_name, "variant": variant, "mode": "concurrent", "hseed": hseed, "event": ev_json(e)}),
        );
    }
    for e in &evs {
        stats.transition(store_name, e.op.kind(), "concurrent", e.res.class());
        match &e.res {
            Res::Other(_) => stats.add(&format!("conc_backend_errors_kept_as_maybe_{}", store_name), 1),
            Res::Panic(m) => stats.violation(
                json!({"kind": "panic", "store": store_name, "op": e.op.kind(), "message": m}),
                json!({"store": store_name, "variant": variant, "mode": "concurrent", "hseed": hseed, "event": ev_json(e)}),
            ),
            _ => {}
        }
    }

    let detail = |extra: Value| -> Value {
        json!({
            "store": store_name, "variant": variant, "mode": "concurrent", "hseed": hseed, "ids": k,
            "tasks": t, "events": evs.iter().map(ev_json).collect::<Vec<_>>(), "analysis": extra,
        })
    };
    match check(&evs, k, Relax::default(), LIN_BUDGET) {
        LinOutcome::Linearizable { order } => {
            stats.add(&format!("conc_linearizable_{}", store_name), 1);
            if want_sample {
                let lin: Vec<String> = order.iter().map(|i| format!("t{}:{} -> {}", evs[*i].task, evs[*i].op.show(), evs[*i].res.show())).collect();
                stats.samples.push(json!({"mode": "concurrent", "store": store_name, "variant": variant, "hseed": hseed,
                    "tasks": t, "max_concurrency": mc,
                    "events": evs.iter().map(|e| format!("t{} [{}..{}ns] {}", e.task, e.t0, e.t1, e.op.show())).collect::<Vec<_>>(),
                    "one_linearization": lin}));
            }
        }
        LinOutcome::Timeout => {
            stats.add("conc_checker_timeouts", 1);
            stats.inconc("linearizability search exceeded its node budget", json!({"store": store_name, "hseed": hseed, "ops": evs.len()}));
        }
        LinOutcome::NotLinearizable { deepest, stuck } => {
            stats.add(&format!("conc_not_linearizable_{}", store_name), 1);
            // classification only: which documented relaxation, if any, explains the history?
            let ra = Relax { create_noop_on_expired: true, change_id_dup_on_expired: false };
            let rb = Relax { create_noop_on_expired: false, change_id_dup_on_expired: true };
            let rab = Relax { create_noop_on_expired: true, change_id_dup_on_expired: true };
            let lin = |r: Relax| matches!(check(&evs, k, r, LIN_BUDGET), LinOutcome::Linearizable { .. });
            let extra = json!({"longest_linearizable_prefix": deepest, "first_blocked": stuck});
            let a = ("create", "create_on_expired_present_row_no_effect".to_string());
            let b = ("change_id", "new_id_expired_present_row_duplicate".to_string());
            let causes: Vec<(&str, String)> = if lin(ra) {
                vec![a]
            } else if lin(rb) {
                vec![b]
            } else if lin(rab) {
                // both explanations are needed: report the history under each signature
                vec![a, b]
            } else {
                vec![("history", format!("non_linearizable:{}", stuck))]
            };
            for (op, cause) in causes {
                stats.violation(json!({"store": store_name, "op": op, "cause": cause, "mode": "concurrent"}), detail(extra.clone()));
            }
        }
    }
}
