//! Evidence counters and violation bookkeeping, mergeable across shards.

use serde_json::{Value, json};
use std::collections::{BTreeMap, HashSet};

pub const DISTINCT_CAP: usize = 20_000;
pub const VIOL_PER_SIG: usize = 2;

#[derive(Default)]
pub struct Stats {
    pub counters: BTreeMap<String, u64>,
    pub maxes: BTreeMap<String, u64>,
    /// "store|op|model class of the target|result class" -> times observed
    pub transitions: BTreeMap<String, u64>,
    pub distinct: HashSet<u64>,
    pub multisets: HashSet<u64>,
    pub samples: Vec<Value>,
    pub violations: Vec<(Value, Value)>,
    pub viol_counts: BTreeMap<String, u64>,
    pub inconclusive: Vec<(String, Value)>,
    pub inconclusive_count: u64,
}

pub fn fnv(s: &str) -> u64 {
    let mut h: u64 = 0xcbf2_9ce4_8422_2325;
    for b in s.as_bytes() {
        h ^= *b as u64;
        h = h.wrapping_mul(0x1000_0000_01b3);
    }
    h
}

impl Stats {
    pub fn add(&mut self, name: &str, n: u64) {
        *self.counters.entry(name.to_string()).or_insert(0) += n;
    }
    pub fn max(&mut self, name: &str, n: u64) {
        let e = self.maxes.entry(name.to_string()).or_insert(0);
        if n > *e {
            *e = n;
        }
    }
    pub fn transition(&mut self, store: &str, op: &str, class: &str, res: &str) {
        *self.transitions.entry(format!("{}|{}|{}|{}", store, op, class, res)).or_insert(0) += 1;
    }
    pub fn distinct_key(&mut self, key: u64) {
        if self.distinct.len() < DISTINCT_CAP {
            self.distinct.insert(key);
        }
    }
    pub fn violation(&mut self, sig: Value, detail: Value) {
        let key = sig.to_string();
        let c = self.viol_counts.entry(key).or_insert(0);
        *c += 1;
        if (*c as usize) <= VIOL_PER_SIG {
            self.violations.push((sig, detail));
        }
    }
    pub fn inconc(&mut self, what: &str, detail: Value) {
        self.inconclusive_count += 1;
        if self.inconclusive.len() < 5 {
            self.inconclusive.push((what.to_string(), detail));
        }
    }
    pub fn merge(&mut self, o: Stats) {
        for (k, v) in o.counters {
            *self.counters.entry(k).or_insert(0) += v;
        }
        for (k, v) in o.maxes {
            let e = self.maxes.entry(k).or_insert(0);
            if v > *e {
                *e = v;
            }
        }
        for (k, v) in o.transitions {
            *self.transitions.entry(k).or_insert(0) += v;
        }
        for k in o.distinct {
            if self.distinct.len() < DISTINCT_CAP {
                self.distinct.insert(k);
            }
        }
        self.multisets.extend(o.multisets);
        for s in o.samples {
            if self.samples.len() < 6 {
                self.samples.push(s);
            }
        }
        for (sig, detail) in o.violations {
            let key = sig.to_string();
            let already = self.violations.iter().filter(|(s, _)| s.to_string() == key).count();
            if already < VIOL_PER_SIG {
                self.violations.push((sig, detail));
            }
        }
        for (k, v) in o.viol_counts {
            *self.viol_counts.entry(k).or_insert(0) += v;
        }
        self.inconclusive_count += o.inconclusive_count;
        for i in o.inconclusive {
            if self.inconclusive.len() < 5 {
                self.inconclusive.push(i);
            }
        }
    }

    pub fn emit(&self) {
        for (sig, detail) in &self.violations {
            println!("{}", json!({"kind": "violation", "sig": sig, "detail": detail}));
        }
        for (what, detail) in &self.inconclusive {
            println!("{}", json!({"kind": "inconclusive", "what": what, "detail": detail}));
        }
        let mut s = serde_json::Map::new();
        s.insert("kind".into(), json!("summary"));
        let g = |k: &str| self.counters.get(k).copied().unwrap_or(0);
        let evaluations = g("seq_histories_memory") + g("seq_histories_sqlite") + g("conc_histories_memory") + g("conc_histories_sqlite");
        s.insert("evaluations".into(), json!(evaluations));
        let mut keys: Vec<String> = self.distinct.iter().map(|k| format!("{:016x}", k)).collect();
        keys.sort();
        s.insert("distinct_keys".into(), json!(keys));
        s.insert("samples".into(), json!(self.samples));
        for (k, v) in &self.counters {
            s.insert(k.clone(), json!(v));
        }
        for (k, v) in &self.maxes {
            s.insert(k.clone(), json!(v));
        }
        s.insert("conc_distinct_op_multisets".into(), json!(self.multisets.len()));
        s.insert("abstract_transitions_observed".into(), json!(self.transitions.len()));
        s.insert("abstract_transitions".into(), json!(self.transitions));
        s.insert("violations_by_sig".into(), json!(self.viol_counts));
        s.insert("inconclusive_total".into(), json!(self.inconclusive_count));
        println!("{}", Value::Object(s));
    }
}
