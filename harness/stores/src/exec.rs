//! Calling the real stores through `SessionStorageBackend`, catching panics, classifying results.

use crate::genr::{TOKEN_KEY, state_for};
use crate::model::{Loaded, Op, Res};
use pavex_session::SessionId;
use pavex_session::store::errors::{ChangeIdError, CreateError, DeleteError, LoadError, UpdateError, UpdateTtlError};
use pavex_session::store::{SessionRecord, SessionRecordRef, SessionStorageBackend};
use serde_json::Value;
use std::borrow::Cow;
use std::cell::RefCell;
use std::collections::HashMap;
use std::future::Future;
use std::num::NonZeroUsize;
use std::panic::{AssertUnwindSafe, catch_unwind};
use std::pin::Pin;
use std::task::{Context, Poll};
use std::time::{Instant, SystemTime};

thread_local! {
    static LAST_PANIC: RefCell<Option<String>> = const { RefCell::new(None) };
    static IN_STORE_CALL: std::cell::Cell<bool> = const { std::cell::Cell::new(false) };
}

pub fn install_silent_panic_hook() {
    std::panic::set_hook(Box::new(|info| {
        let msg = if let Some(s) = info.payload().downcast_ref::<&str>() {
            (*s).to_string()
        } else if let Some(s) = info.payload().downcast_ref::<String>() {
            s.clone()
        } else {
            "<non-string panic payload>".to_string()
        };
        let loc = info.location().map(|l| format!("{}:{}", l.file(), l.line())).unwrap_or_default();
        if !IN_STORE_CALL.with(|c| c.get()) {
            // a bug of the harness itself: do not hide it
            eprintln!("harness panic: {} @ {}", msg, loc);
        }
        LAST_PANIC.with(|p| *p.borrow_mut() = Some(format!("{} @ {}", msg, loc)));
    }));
}

fn take_panic() -> String {
    LAST_PANIC.with(|p| p.borrow_mut().take()).unwrap_or_else(|| "<unknown panic>".into())
}

struct CatchUnwind<'a, T>(Pin<Box<dyn Future<Output = T> + Send + 'a>>);

impl<T> Future for CatchUnwind<'_, T> {
    type Output = Result<T, String>;
    fn poll(mut self: Pin<&mut Self>, cx: &mut Context<'_>) -> Poll<Self::Output> {
        let fut = self.0.as_mut();
        IN_STORE_CALL.with(|c| c.set(true));
        let r = catch_unwind(AssertUnwindSafe(|| fut.poll(cx)));
        IN_STORE_CALL.with(|c| c.set(false));
        match r {
            Ok(Poll::Pending) => Poll::Pending,
            Ok(Poll::Ready(v)) => Poll::Ready(Ok(v)),
            Err(_) => Poll::Ready(Err(take_panic())),
        }
    }
}

#[derive(Clone, Copy)]
pub struct Clock {
    base_i: Instant,
    base_w: SystemTime,
}

impl Clock {
    pub fn new() -> Self {
        Clock { base_i: Instant::now(), base_w: SystemTime::now() }
    }
    pub fn now_ns(&self) -> u64 {
        self.base_i.elapsed().as_nanos() as u64
    }
    /// Wall clock and monotonic clock still agree (within 30 s): TTL windows may be asserted.
    pub fn wall_sane(&self) -> bool {
        let mono = self.base_i.elapsed().as_secs_f64();
        match SystemTime::now().duration_since(self.base_w) {
            Ok(w) => (w.as_secs_f64() - mono).abs() < 30.0,
            Err(_) => false,
        }
    }
}

/// Verdicts of a history are only kept when the wall clock (which both stores use for expiry) advanced
/// in step with the monotonic clock while it ran.
pub struct WallGuard {
    i0: Instant,
    w0: SystemTime,
}

impl WallGuard {
    pub fn new() -> Self {
        WallGuard { i0: Instant::now(), w0: SystemTime::now() }
    }
    pub fn steady(&self) -> bool {
        let mono = self.i0.elapsed().as_secs_f64();
        match SystemTime::now().duration_since(self.w0) {
            Ok(w) => (w.as_secs_f64() - mono).abs() < 0.25,
            Err(_) => false,
        }
    }
}

pub type State = HashMap<Cow<'static, str>, Value>;

pub enum Raw {
    Res(Res),
    Loaded(Option<SessionRecord>),
}

fn chain(e: &(dyn std::error::Error + 'static)) -> String {
    let mut s = e.to_string();
    let mut cur = e.source();
    while let Some(c) = cur {
        s.push_str(" <- ");
        s.push_str(&c.to_string());
        cur = c.source();
    }
    if s.len() > 300 {
        let mut cut = 300;
        while !s.is_char_boundary(cut) {
            cut -= 1;
        }
        s.truncate(cut);
    }
    s
}

async fn call_raw(store: &dyn SessionStorageBackend, ids: &[SessionId], op: &Op, state: Option<&State>) -> Raw {
    match op {
        Op::Create { id, ttl, .. } => {
            let rec = SessionRecordRef { state: Cow::Borrowed(state.expect("state")), ttl: ttl.dur() };
            Raw::Res(match store.create(&ids[*id as usize], rec).await {
                Ok(()) => Res::Ok,
                Err(CreateError::DuplicateId(_)) => Res::Dup,
                Err(CreateError::SerializationError(e)) => Res::Bad(chain(&e)),
                Err(e) => Res::Other(chain(&e)),
            })
        }
        Op::Update { id, ttl, .. } => {
            let rec = SessionRecordRef { state: Cow::Borrowed(state.expect("state")), ttl: ttl.dur() };
            Raw::Res(match store.update(&ids[*id as usize], rec).await {
                Ok(()) => Res::Ok,
                Err(UpdateError::UnknownIdError(_)) => Res::Unknown,
                Err(UpdateError::SerializationError(e)) => Res::Bad(chain(&e)),
                Err(e) => Res::Other(chain(&e)),
            })
        }
        Op::UpdateTtl { id, ttl } => Raw::Res(match store.update_ttl(&ids[*id as usize], ttl.dur()).await {
            Ok(()) => Res::Ok,
            Err(UpdateTtlError::UnknownId(_)) => Res::Unknown,
            Err(e) => Res::Other(chain(&e)),
        }),
        Op::Load { id } => match store.load(&ids[*id as usize]).await {
            Ok(r) => Raw::Loaded(r),
            Err(LoadError::DeserializationError(e)) => Raw::Res(Res::Bad(format!("{:#}", e))),
            Err(e) => Raw::Res(Res::Other(chain(&e))),
        },
        Op::Delete { id } => Raw::Res(match store.delete(&ids[*id as usize]).await {
            Ok(()) => Res::Ok,
            Err(DeleteError::UnknownId(_)) => Res::Unknown,
            Err(e) => Res::Other(chain(&e)),
        }),
        Op::ChangeId { old, new } => Raw::Res(match store.change_id(&ids[*old as usize], &ids[*new as usize]).await {
            Ok(()) => Res::Ok,
            Err(ChangeIdError::UnknownId(_)) => Res::Unknown,
            Err(ChangeIdError::DuplicateId(_)) => Res::Dup,
            Err(e) => Res::Other(chain(&e)),
        }),
        Op::DeleteExpired { batch } => {
            let b = batch.and_then(|b| NonZeroUsize::new(b as usize));
            Raw::Res(match store.delete_expired(b).await {
                Ok(n) => Res::Count(n as u64),
                Err(e) => Res::Other(chain(&e)),
            })
        }
    }
}

pub fn prepare(hseed: u64, op: &Op) -> Option<State> {
    match op {
        Op::Create { tok, .. } | Op::Update { tok, .. } => Some(state_for(hseed, *tok)),
        _ => None,
    }
}

pub fn finish(hseed: u64, raw: Result<Raw, String>, clock: &Clock) -> Res {
    match raw {
        Err(p) => Res::Panic(p),
        Ok(Raw::Res(r)) => r,
        Ok(Raw::Loaded(None)) => Res::Loaded(None),
        Ok(Raw::Loaded(Some(rec))) => {
            let tok = rec.state.get(TOKEN_KEY).and_then(|v| v.as_u64()).and_then(|t| u32::try_from(t).ok());
            let (exact, float_only_diff, diff) = match tok {
                Some(t) => {
                    let want = state_for(hseed, t);
                    if rec.state == want {
                        (true, false, None)
                    } else {
                        (false, states_equal_modulo_float_rounding(&want, &rec.state), Some(first_diff(&want, &rec.state)))
                    }
                }
                None => (false, false, Some("the reserved token key is missing or not a number".to_string())),
            };
            Res::Loaded(Some(Loaded {
                tok,
                exact,
                float_only_diff,
                diff,
                ttl_ms: rec.ttl.as_millis().min(u64::MAX as u128) as u64,
                ttl_checkable: clock.wall_sane(),
            }))
        }
    }
}

/// One call at the client boundary: (t_call, raw outcome, t_return) on the harness' monotonic clock.
/// Argument preparation and result classification are kept outside the timed interval.
pub async fn raw_timed_call(
    store: &dyn SessionStorageBackend,
    ids: &[SessionId],
    op: &Op,
    state: Option<&State>,
    clock: &Clock,
) -> (u64, Result<Raw, String>, u64) {
    let t0 = clock.now_ns();
    let raw = CatchUnwind(Box::pin(call_raw(store, ids, op, state))).await;
    let t1 = clock.now_ns();
    (t0, raw, t1)
}

pub async fn timed_call(
    store: &dyn SessionStorageBackend,
    ids: &[SessionId],
    hseed: u64,
    op: &Op,
    clock: &Clock,
) -> (u64, Res, u64) {
    let state = prepare(hseed, op);
    let (t0, raw, t1) = raw_timed_call(store, ids, op, state.as_ref(), clock).await;
    (t0, finish(hseed, raw, clock), t1)
}

fn clip(v: &Value) -> String {
    let s = v.to_string();
    if s.chars().count() > 160 { format!("{}...", s.chars().take(160).collect::<String>()) } else { s }
}

fn value_diff(path: &str, want: &Value, got: &Value) -> Option<String> {
    if want == got {
        return None;
    }
    match (want, got) {
        (Value::Object(a), Value::Object(b)) => {
            for (k, va) in a {
                match b.get(k) {
                    None => return Some(format!("{}: key {:?} written but not loaded", path, k)),
                    Some(vb) => {
                        if let Some(d) = value_diff(&format!("{}.{:?}", path, k), va, vb) {
                            return Some(d);
                        }
                    }
                }
            }
            for k in b.keys() {
                if !a.contains_key(k) {
                    return Some(format!("{}: key {:?} loaded but never written", path, k));
                }
            }
            Some(format!("{}: objects differ", path))
        }
        (Value::Array(a), Value::Array(b)) => {
            if a.len() != b.len() {
                return Some(format!("{}: array length written {} loaded {}", path, a.len(), b.len()));
            }
            for (i, (va, vb)) in a.iter().zip(b.iter()).enumerate() {
                if let Some(d) = value_diff(&format!("{}[{}]", path, i), va, vb) {
                    return Some(d);
                }
            }
            Some(format!("{}: arrays differ", path))
        }
        _ => Some(format!("{}: written {} loaded {}", path, clip(want), clip(got))),
    }
}

/// First difference between the state a write supplied and the state a load returned.
pub fn first_diff(want: &State, got: &State) -> String {
    for (k, va) in want {
        match got.get(k) {
            None => return format!("key {:?} written but not loaded", k),
            Some(vb) => {
                if let Some(d) = value_diff(&format!("{:?}", k), va, vb) {
                    return d;
                }
            }
        }
    }
    for k in got.keys() {
        if !want.contains_key(k) {
            return format!("key {:?} loaded but never written", k);
        }
    }
    "states differ".to_string()
}

fn values_equal_modulo_float_rounding(a: &Value, b: &Value) -> bool {
    match (a, b) {
        (Value::Number(x), Value::Number(y)) => {
            if x == y {
                return true;
            }
            // only genuine floating point numbers (not integers) may differ, and only by rounding
            if x.is_f64() && y.is_f64() {
                let (x, y) = (x.as_f64().unwrap_or(f64::NAN), y.as_f64().unwrap_or(f64::NAN));
                let scale = x.abs().max(y.abs());
                return (x - y).abs() <= scale * 8.0 * f64::EPSILON;
            }
            false
        }
        (Value::Array(x), Value::Array(y)) => x.len() == y.len() && x.iter().zip(y.iter()).all(|(p, q)| values_equal_modulo_float_rounding(p, q)),
        (Value::Object(x), Value::Object(y)) => {
            x.len() == y.len() && x.iter().all(|(k, p)| y.get(k).map(|q| values_equal_modulo_float_rounding(p, q)).unwrap_or(false))
        }
        _ => a == b,
    }
}

/// Same keys, same structure, same strings/integers/bools; floating point numbers within a few ULPs.
pub fn states_equal_modulo_float_rounding(want: &State, got: &State) -> bool {
    want.len() == got.len() && want.iter().all(|(k, p)| got.get(k).map(|q| values_equal_modulo_float_rounding(p, q)).unwrap_or(false))
}
