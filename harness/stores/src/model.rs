//! The reference model: a map from id to (state token, long TTL class) with expiry, written from the
//! *statement* of property C13 only. It never looks at the implementation.
//!
//! A slot is `Absent` (never written / deleted while live / renamed away / known to be reaped),
//! `Expired` (written with TTL 0 or expired through `update_ttl(0)`; the physical row may still be
//! there) or `Live`. `Absent` and `Expired` are observationally the same for every operation but
//! `delete_expired` (whose count is bounded by the number of `Expired` slots); the distinction is also
//! used to *classify* a divergence (never to decide one).
//!
//! `step` is the nondeterministic transition relation: given a model state, an operation and the
//! result observed at the client boundary it returns every model state the statement allows
//! afterwards. An empty vector means: this observation is not allowed in this state.

use std::time::Duration;

pub const MAX_IDS: usize = 4;

#[derive(Clone, Copy, PartialEq, Eq, Hash, Debug, PartialOrd, Ord)]
pub enum Ttl {
    Zero,
    H1,
    H2,
}

impl Ttl {
    pub fn secs(self) -> u64 {
        match self {
            Ttl::Zero => 0,
            Ttl::H1 => 3600,
            Ttl::H2 => 7200,
        }
    }
    pub fn dur(self) -> Duration {
        Duration::from_secs(self.secs())
    }
    pub fn name(self) -> &'static str {
        match self {
            Ttl::Zero => "0",
            Ttl::H1 => "1h",
            Ttl::H2 => "2h",
        }
    }
    /// Is a TTL reported by `load` (milliseconds) compatible with a record whose deadline was set
    /// from this TTL at most a few minutes ago? Generous on purpose: one second of slack above
    /// (second granularity), ten minutes below.
    pub fn window_ok(self, ttl_ms: u64) -> bool {
        let l = self.secs() * 1000;
        ttl_ms <= l + 1000 && ttl_ms + 600_000 >= l
    }
}

#[derive(Clone, Copy, PartialEq, Eq, Hash, Debug)]
pub enum Slot {
    Absent,
    Expired,
    Live { tok: u32, ttl: Ttl },
}

impl Slot {
    pub fn is_live(self) -> bool {
        matches!(self, Slot::Live { .. })
    }
    fn written(tok: u32, ttl: Ttl) -> Slot {
        if ttl == Ttl::Zero {
            Slot::Expired
        } else {
            Slot::Live { tok, ttl }
        }
    }
    pub fn show(self) -> String {
        match self {
            Slot::Absent => "absent".into(),
            Slot::Expired => "expired".into(),
            Slot::Live { tok, ttl } => format!("live(tok={},ttl={})", tok, ttl.name()),
        }
    }
}

#[derive(Clone, PartialEq, Eq, Hash, Debug)]
pub struct MState(pub [Slot; MAX_IDS]);

impl MState {
    pub fn new() -> Self {
        MState([Slot::Absent; MAX_IDS])
    }
    pub fn show(&self, k: usize) -> String {
        let v: Vec<String> = (0..k).map(|i| format!("{}:{}", i, self.0[i].show())).collect();
        v.join(" ")
    }
}

#[derive(Clone, Debug, PartialEq, Eq, Hash)]
pub enum Op {
    Create { id: u8, tok: u32, ttl: Ttl },
    Update { id: u8, tok: u32, ttl: Ttl },
    UpdateTtl { id: u8, ttl: Ttl },
    Load { id: u8 },
    Delete { id: u8 },
    ChangeId { old: u8, new: u8 },
    DeleteExpired { batch: Option<u32> },
}

impl Op {
    pub fn kind(&self) -> &'static str {
        match self {
            Op::Create { .. } => "create",
            Op::Update { .. } => "update",
            Op::UpdateTtl { .. } => "update_ttl",
            Op::Load { .. } => "load",
            Op::Delete { .. } => "delete",
            Op::ChangeId { .. } => "change_id",
            Op::DeleteExpired { .. } => "delete_expired",
        }
    }
    pub fn show(&self) -> String {
        match self {
            Op::Create { id, tok, ttl } => format!("create(id{}, tok={}, ttl={})", id, tok, ttl.name()),
            Op::Update { id, tok, ttl } => format!("update(id{}, tok={}, ttl={})", id, tok, ttl.name()),
            Op::UpdateTtl { id, ttl } => format!("update_ttl(id{}, ttl={})", id, ttl.name()),
            Op::Load { id } => format!("load(id{})", id),
            Op::Delete { id } => format!("delete(id{})", id),
            Op::ChangeId { old, new } => format!("change_id(id{} -> id{})", old, new),
            Op::DeleteExpired { batch } => match batch {
                Some(b) => format!("delete_expired(batch={})", b),
                None => "delete_expired(None)".into(),
            },
        }
    }
    /// Ids this operation names.
    pub fn ids(&self) -> Vec<u8> {
        match self {
            Op::Create { id, .. } | Op::Update { id, .. } | Op::UpdateTtl { id, .. } | Op::Load { id } | Op::Delete { id } => {
                vec![*id]
            }
            Op::ChangeId { old, new } => {
                if old == new {
                    vec![*old]
                } else {
                    vec![*old, *new]
                }
            }
            Op::DeleteExpired { .. } => vec![],
        }
    }
    pub fn is_mutation(&self) -> bool {
        !matches!(self, Op::Load { .. })
    }
    /// Shape of the op without tokens (for op-multiset hashing).
    pub fn shape(&self) -> String {
        match self {
            Op::Create { id, ttl, .. } => format!("c{}{}", id, ttl.name()),
            Op::Update { id, ttl, .. } => format!("u{}{}", id, ttl.name()),
            Op::UpdateTtl { id, ttl } => format!("t{}{}", id, ttl.name()),
            Op::Load { id } => format!("l{}", id),
            Op::Delete { id } => format!("d{}", id),
            Op::ChangeId { old, new } => format!("x{}{}", old, new),
            Op::DeleteExpired { batch } => format!("e{:?}", batch),
        }
    }
}

#[derive(Clone, Debug, PartialEq)]
pub struct Loaded {
    /// The write this state identifies (value under the reserved key), if any.
    pub tok: Option<u32>,
    /// The loaded state is exactly (JSON equality) the state that write stored.
    pub exact: bool,
    /// not exact, but the only differences are floating point numbers off by a rounding error;
    /// reported under its own signature and otherwise treated like the exact state
    pub float_only_diff: bool,
    /// first difference between written and loaded state when not exact
    pub diff: Option<String>,
    pub ttl_ms: u64,
    /// false when wall clock and monotonic clock drifted apart: the TTL window is then not asserted.
    pub ttl_checkable: bool,
}

#[derive(Clone, Debug, PartialEq)]
pub enum Res {
    Ok,
    Dup,
    Unknown,
    /// Backend error (`Other`, `DeleteExpiredError`, `LoadError::Other`): may or may not have taken effect.
    Other(String),
    /// (De)serialization errors: never allowed by the model.
    Bad(String),
    Loaded(Option<Loaded>),
    Count(u64),
    /// The call panicked (reported separately); for the model: may or may not have taken effect.
    Panic(String),
}

impl Res {
    pub fn class(&self) -> &'static str {
        match self {
            Res::Ok => "ok",
            Res::Dup => "duplicate_id",
            Res::Unknown => "unknown_id",
            Res::Other(_) => "other_error",
            Res::Bad(_) => "serde_error",
            Res::Loaded(None) => "none",
            Res::Loaded(Some(_)) => "some",
            Res::Count(0) => "count0",
            Res::Count(_) => "count_pos",
            Res::Panic(_) => "panic",
        }
    }
    pub fn show(&self) -> String {
        match self {
            Res::Ok => "Ok".into(),
            Res::Dup => "Err(DuplicateId)".into(),
            Res::Unknown => "Err(UnknownId)".into(),
            Res::Other(m) => format!("Err(Other: {})", m),
            Res::Bad(m) => format!("Err(Serde: {})", m),
            Res::Loaded(None) => "Ok(None)".into(),
            Res::Loaded(Some(l)) => match &l.diff {
                None => format!("Ok(Some(tok={:?}, exact={}, ttl_ms={}))", l.tok, l.exact, l.ttl_ms),
                Some(d) => format!("Ok(Some(tok={:?}, exact={}, ttl_ms={}, diff: {}))", l.tok, l.exact, l.ttl_ms, d),
            },
            Res::Count(n) => format!("Ok({})", n),
            Res::Panic(m) => format!("PANIC: {}", m),
        }
    }
    fn maybe(&self) -> bool {
        matches!(self, Res::Other(_) | Res::Panic(_))
    }
}

/// Relaxations used only to *classify* an already established violation (never to accept one).
#[derive(Clone, Copy, Debug, Default, PartialEq, Eq)]
pub struct Relax {
    /// create on an expired-but-possibly-present row may return Ok without effect
    pub create_noop_on_expired: bool,
    /// change_id onto an expired-but-possibly-present row may fail with duplicate id
    pub change_id_dup_on_expired: bool,
}

fn with(s: &MState, i: u8, slot: Slot) -> MState {
    let mut n = s.clone();
    n.0[i as usize] = slot;
    n
}

fn push(v: &mut Vec<MState>, s: MState) {
    if !v.contains(&s) {
        v.push(s);
    }
}

/// Why is this load result not the one the model demands? (used for classification only)
pub fn load_mismatch(slot: Slot, res: &Res) -> Option<&'static str> {
    match (slot, res) {
        (_, Res::Other(_)) | (_, Res::Panic(_)) => None,
        (_, Res::Bad(_)) => Some("deserialization_error"),
        (Slot::Live { .. }, Res::Loaded(None)) => Some("none_expected_some"),
        (Slot::Live { tok, ttl }, Res::Loaded(Some(l))) => {
            if l.tok != Some(tok) {
                Some("state_of_another_write")
            } else if !l.exact && !l.float_only_diff {
                Some("state_altered")
            } else if l.ttl_checkable && !ttl.window_ok(l.ttl_ms) {
                Some("wrong_ttl")
            } else {
                None
            }
        }
        (_, Res::Loaded(Some(_))) => Some("some_expected_none"),
        (_, Res::Loaded(None)) => None,
        _ => Some("unexpected_result_type"),
    }
}

pub fn step(s: &MState, op: &Op, res: &Res, k: usize, relax: Relax) -> Vec<MState> {
    let mut out = Vec::new();
    match op {
        Op::Create { id, tok, ttl } => {
            let cur = s.0[*id as usize];
            let applied = with(s, *id, Slot::written(*tok, *ttl));
            if cur.is_live() {
                // may fail with duplicate id or succeed without effect; never changes the record
                if matches!(res, Res::Ok | Res::Dup) || res.maybe() {
                    push(&mut out, s.clone());
                }
            } else {
                match res {
                    Res::Ok => {
                        push(&mut out, applied);
                        if relax.create_noop_on_expired && cur == Slot::Expired {
                            push(&mut out, s.clone());
                        }
                    }
                    r if r.maybe() => {
                        push(&mut out, s.clone());
                        push(&mut out, applied);
                    }
                    _ => {}
                }
            }
        }
        Op::Update { id, tok, ttl } => {
            let cur = s.0[*id as usize];
            let applied = with(s, *id, Slot::written(*tok, *ttl));
            if cur.is_live() {
                match res {
                    Res::Ok => push(&mut out, applied),
                    r if r.maybe() => {
                        push(&mut out, s.clone());
                        push(&mut out, applied);
                    }
                    _ => {}
                }
            } else if matches!(res, Res::Unknown) || res.maybe() {
                push(&mut out, s.clone());
            }
        }
        Op::UpdateTtl { id, ttl } => {
            let cur = s.0[*id as usize];
            if let Slot::Live { tok, .. } = cur {
                let applied = with(s, *id, Slot::written(tok, *ttl));
                match res {
                    Res::Ok => push(&mut out, applied),
                    r if r.maybe() => {
                        push(&mut out, s.clone());
                        push(&mut out, applied);
                    }
                    _ => {}
                }
            } else if matches!(res, Res::Unknown) || res.maybe() {
                push(&mut out, s.clone());
            }
        }
        Op::Load { id } => {
            let cur = s.0[*id as usize];
            let type_ok = matches!(res, Res::Loaded(_) | Res::Other(_) | Res::Panic(_));
            if type_ok && load_mismatch(cur, res).is_none() {
                push(&mut out, s.clone());
            }
        }
        Op::Delete { id } => {
            let cur = s.0[*id as usize];
            if cur.is_live() {
                let applied = with(s, *id, Slot::Absent);
                match res {
                    Res::Ok => push(&mut out, applied),
                    r if r.maybe() => {
                        push(&mut out, s.clone());
                        push(&mut out, applied);
                    }
                    _ => {}
                }
            } else if matches!(res, Res::Unknown) || res.maybe() {
                push(&mut out, s.clone());
            }
        }
        Op::ChangeId { old, new } => {
            let o = s.0[*old as usize];
            let n = s.0[*new as usize];
            if old == new {
                // The statement is silent about renaming a record onto itself: nothing may change;
                // on a live record both Ok and duplicate-id are accepted.
                if o.is_live() {
                    if matches!(res, Res::Ok | Res::Dup) || res.maybe() {
                        push(&mut out, s.clone());
                    }
                } else if matches!(res, Res::Unknown) || res.maybe() {
                    push(&mut out, s.clone());
                }
            } else if !o.is_live() {
                // old is absent/expired => unknown id. If `new` is live as well, the statement also
                // demands duplicate-id: either error is accepted.
                let ok = matches!(res, Res::Unknown) || res.maybe() || (n.is_live() && matches!(res, Res::Dup));
                if ok {
                    push(&mut out, s.clone());
                }
            } else if n.is_live() {
                if matches!(res, Res::Dup) || res.maybe() {
                    push(&mut out, s.clone());
                }
            } else {
                let mut applied = s.clone();
                applied.0[*new as usize] = o;
                applied.0[*old as usize] = Slot::Absent;
                match res {
                    Res::Ok => push(&mut out, applied),
                    Res::Dup if relax.change_id_dup_on_expired && n == Slot::Expired => push(&mut out, s.clone()),
                    r if r.maybe() => {
                        push(&mut out, s.clone());
                        push(&mut out, applied);
                    }
                    _ => {}
                }
            }
        }
        Op::DeleteExpired { batch } => {
            let expired: Vec<usize> = (0..k).filter(|i| s.0[*i] == Slot::Expired).collect();
            let e = expired.len();
            // every subset of the expired slots of size n (n given by the result, any n when unknown)
            let sizes: Vec<usize> = match res {
                Res::Count(n) => {
                    let n = *n as usize;
                    let within_batch = batch.map(|b| n <= b as usize).unwrap_or(true);
                    if n <= e && within_batch { vec![n] } else { vec![] }
                }
                r if r.maybe() => (0..=e).collect(),
                _ => vec![],
            };
            for n in sizes {
                for mask in 0u32..(1u32 << e) {
                    if mask.count_ones() as usize != n {
                        continue;
                    }
                    let mut ns = s.clone();
                    for (bit, idx) in expired.iter().enumerate() {
                        if mask & (1 << bit) != 0 {
                            ns.0[*idx] = Slot::Absent;
                        }
                    }
                    push(&mut out, ns);
                }
            }
        }
    }
    out
}

/// Class of slot `i` across a frontier of possible model states (classification only).
pub fn slot_class(frontier: &[MState], i: u8) -> &'static str {
    let i = i as usize;
    let all_live = frontier.iter().all(|s| s.0[i].is_live());
    let none_live = frontier.iter().all(|s| !s.0[i].is_live());
    if all_live {
        "live"
    } else if none_live {
        if frontier.iter().any(|s| s.0[i] == Slot::Expired) {
            "expired_present_row"
        } else {
            "absent"
        }
    } else {
        "ambiguous"
    }
}

pub fn target_class(frontier: &[MState], op: &Op, k: usize) -> String {
    match op {
        Op::Create { id, .. } | Op::Update { id, .. } | Op::UpdateTtl { id, .. } | Op::Load { id } | Op::Delete { id } => {
            slot_class(frontier, *id).to_string()
        }
        Op::ChangeId { old, new } => {
            if old == new {
                format!("same_id_{}", slot_class(frontier, *old))
            } else {
                format!("old_{}__new_{}", slot_class(frontier, *old), slot_class(frontier, *new))
            }
        }
        Op::DeleteExpired { batch } => {
            let e = frontier
                .iter()
                .map(|s| (0..k).filter(|i| s.0[*i] == Slot::Expired).count())
                .max()
                .unwrap_or(0);
            format!("expired{}_batch_{}", e.min(3), if batch.is_some() { "some" } else { "none" })
        }
    }
}

/// Signature cause for an operation whose *result* the model does not allow.
pub fn cause_direct(op: &Op, class: &str, res: &Res) -> String {
    if let (Op::ChangeId { .. }, Res::Dup) = (op, res) {
        if class == "old_live__new_expired_present_row" {
            return "new_id_expired_present_row_duplicate".into();
        }
    }
    format!("{}_on_{}_returned_{}", op.kind(), class, res.class())
}

/// Signature cause for an operation whose result was allowed but whose *effect*, as observed by the
/// loads that follow it, is not.
pub fn cause_probe(op: &Op, class: &str, res: &Res, role: &str, obs: &str) -> String {
    if let (Op::Create { .. }, Res::Ok) = (op, res) {
        if class == "expired_present_row" && role == "target" && obs == "none_expected_some" {
            return "create_on_expired_present_row_no_effect".into();
        }
    }
    format!(
        "{}_on_{}_returned_{}_then_load_of_{}_{}",
        op.kind(),
        class,
        res.class(),
        role,
        obs
    )
}

pub fn role_of(op: &Op, id: u8) -> &'static str {
    match op {
        Op::ChangeId { old, new } => {
            if *old == id {
                "old"
            } else if *new == id {
                "new"
            } else {
                "other"
            }
        }
        Op::DeleteExpired { .. } => "any",
        _ => {
            if op.ids().contains(&id) {
                "target"
            } else {
                "other"
            }
        }
    }
}
