//! Histories in which *time itself* expires records: short TTLs (1 s) written before the round's shared pause
//! (>= 1.1 s), some of them extended (`update_ttl`, `update`), one long TTL shortened, then `delete_expired` and loads
//! after the pause. The random histories only know the TTLs 0 / 1 h / 2 h, for which the deadline never moves across
//! "now" while a history runs; here it does, so whatever a store keeps *besides* the record (an index by deadline, a
//! cached liveness bit) is put to the test.
//!
//! Expected, from the property as stated (map from id to (state, deadline)):
//!   * a record whose TTL was extended before it ran out is live after the pause, with the state last written;
//!   * a record whose TTL ran out, or was shortened and ran out, is gone (`load` = None, `update_ttl` = unknown id);
//!   * `delete_expired` removes nothing that is live (its count never exceeds the number of expired records).
//! Every scenario has its own store instance. A failing phase-A call more than 300 ms after the scenario began is
//! inconclusive (the machine stalled long enough for a 1 s TTL to run out), never a violation.
use crate::genr::{mix, session_id, state_for};
use crate::report::Stats;
use pavex_session::SessionId;
use pavex_session::store::{SessionRecordRef, SessionStorageBackend};
use serde_json::json;
use std::borrow::Cow;
use std::num::NonZeroUsize;
use std::sync::Arc;
use std::time::{Duration, Instant};

const SHORT: Duration = Duration::from_secs(1);
const LONG: Duration = Duration::from_secs(3600);

pub struct Scenario {
    pub store_name: &'static str,
    store: Arc<dyn SessionStorageBackend>,
    hseed: u64,
    ids: Vec<SessionId>,
    /// per id: Some(token) = must be live after the pause with that state; None = must be gone
    expect: Vec<(&'static str, Option<u32>)>,
    started: Instant,
    pub last_write: Instant,
    ok: bool,
    _pool: Option<sqlx::SqlitePool>,
}

fn rec(hseed: u64, tok: u32, ttl: Duration) -> SessionRecordRef<'static> {
    SessionRecordRef { state: Cow::Owned(state_for(hseed, tok)), ttl }
}

impl Scenario {
    /// Phase A: all writes, in a seeded order of the independent groups.
    pub async fn phase_a(store: Arc<dyn SessionStorageBackend>, store_name: &'static str, pool: Option<sqlx::SqlitePool>, hseed: u64, stats: &mut Stats) -> Scenario {
        let ids: Vec<SessionId> = (0..6).map(|i| session_id(hseed, i)).collect();
        if store_name == "sqlite" {
            // second granularity: a deadline is the floor of now + ttl, so a 1 s record written at the very end of a second
            // is gone a few milliseconds later. Phase A (a few ms of writes) starts in the first 600 ms of a second.
            let sub = std::time::SystemTime::now().duration_since(std::time::UNIX_EPOCH).map(|d| d.subsec_millis()).unwrap_or(0);
            if sub > 600 {
                tokio::time::sleep(Duration::from_millis((1005 - sub) as u64)).await;
            }
        }
        let mut sc = Scenario {
            store_name,
            store,
            hseed,
            ids,
            expect: vec![
                ("short_ttl_extended_by_update_ttl", Some(1)),
                ("short_ttl_left_alone", None),
                ("long_ttl", Some(3)),
                ("short_ttl_extended_by_update", Some(14)),
                ("long_ttl_shortened_by_update_ttl", None),
                ("short_ttl_extended_twice", Some(6)),
            ],
            started: Instant::now(),
            last_write: Instant::now(),
            ok: true,
            _pool: pool,
        };
        // creates first (seeded rotation), then the extensions (seeded rotation)
        let rot = (mix(hseed, 0x77) % 6) as usize;
        let ttl_of = [SHORT, SHORT, LONG, SHORT, LONG, SHORT];
        for k in 0..6 {
            let i = (k + rot) % 6;
            let r = sc.store.create(&sc.ids[i], rec(hseed, (i + 1) as u32, ttl_of[i])).await.map_err(|e| e.to_string());
            sc.note_a("create", i, r, stats);
        }
        let mut steps: Vec<usize> = vec![0, 3, 4, 5, 5];
        let rot2 = (mix(hseed, 0x78) % 5) as usize;
        steps.rotate_left(rot2);
        let mut second_five = false;
        for s in steps {
            match s {
                0 => {
                    let r = sc.store.update_ttl(&sc.ids[0], LONG).await.map_err(|e| e.to_string());
                    sc.note_a("update_ttl(extend)", 0, r, stats);
                }
                3 => {
                    let r = sc.store.update(&sc.ids[3], rec(hseed, 14, LONG)).await.map_err(|e| e.to_string());
                    sc.note_a("update(extend)", 3, r, stats);
                }
                4 => {
                    let r = sc.store.update_ttl(&sc.ids[4], SHORT).await.map_err(|e| e.to_string());
                    sc.note_a("update_ttl(shorten)", 4, r, stats);
                }
                _ => {
                    let ttl = if second_five { Duration::from_secs(7200) } else { LONG };
                    second_five = true;
                    let r = sc.store.update_ttl(&sc.ids[5], ttl).await.map_err(|e| e.to_string());
                    sc.note_a("update_ttl(extend again)", 5, r, stats);
                }
            }
        }
        sc.last_write = Instant::now();
        sc
    }

    fn note_a(&mut self, op: &str, i: usize, r: Result<(), String>, stats: &mut Stats) {
        if let Err(e) = r {
            self.ok = false;
            let late = self.started.elapsed() > Duration::from_millis(300);
            let detail = json!({"store": self.store_name, "op": op, "record": self.expect[i].0, "error": e, "hseed": self.hseed,
                                 "ms_since_scenario_began": self.started.elapsed().as_millis() as u64});
            if late {
                stats.inconc("a write of a TTL scenario failed on a stalled machine", detail);
            } else {
                stats.violation(json!({"store": self.store_name, "scenario": "ttl_extension", "cause": "write_on_live_record_failed", "op": op}), detail);
            }
        }
    }

    /// Phase B: at least 1.1 s after the last write of phase A.
    pub async fn phase_b(self, stats: &mut Stats) {
        if !self.ok {
            return;
        }
        let waited = self.last_write.elapsed();
        if waited < Duration::from_millis(1100) {
            stats.inconc("TTL scenario resumed too early", json!({"waited_ms": waited.as_millis() as u64}));
            return;
        }
        stats.add(&format!("ttl_scenarios_{}", self.store_name), 1);
        let variant = mix(self.hseed, 0x79) % 3;
        let expired_present = self.expect.iter().filter(|(_, e)| e.is_none()).count() as u64;
        let fail = |stats: &mut Stats, cause: &str, detail: serde_json::Value| {
            stats.violation(
                json!({"store": self.store_name, "scenario": "ttl_extension", "cause": cause}),
                json!({"detail": detail, "hseed": self.hseed, "variant": variant, "waited_ms": waited.as_millis() as u64}),
            );
        };
        if variant == 1 {
            self.check_loads("before_delete_expired", stats).await;
        }
        // --- delete_expired: exactly the expired ones
        let mut total = 0u64;
        if variant == 2 {
            for _ in 0..4 {
                match self.store.delete_expired(NonZeroUsize::new(1)).await {
                    Ok(n) => {
                        if n > 1 {
                            fail(stats, "delete_expired_batch_exceeded", json!({"batch": 1, "deleted": n}));
                        }
                        total += n as u64;
                        if n == 0 {
                            break;
                        }
                    }
                    Err(e) => {
                        stats.inconc("delete_expired failed in a TTL scenario", json!({"error": e.to_string()}));
                        return;
                    }
                }
            }
        } else {
            match self.store.delete_expired(None).await {
                Ok(n) => total = n as u64,
                Err(e) => {
                    stats.inconc("delete_expired failed in a TTL scenario", json!({"error": e.to_string()}));
                    return;
                }
            }
        }
        // (the property says that only expired records are removed, not that all of them are: SQLite leaves a record that
        // expired within the current second to the next sweep)
        if total > expired_present {
            fail(stats, "delete_expired_removed_more_than_the_expired_records", json!({"deleted": total, "expired_records": expired_present}));
        }
        stats.add(&format!("ttl_scenario_expired_rows_reaped_{}", self.store_name), total);
        self.check_loads("after_delete_expired", stats).await;
        // an expired (and reaped) record cannot be extended any more
        match self.store.update_ttl(&self.ids[1], LONG).await {
            Err(pavex_session::store::errors::UpdateTtlError::UnknownId(_)) => {}
            Ok(()) => fail(stats, "update_ttl_on_expired_record_succeeded", json!({"record": self.expect[1].0})),
            Err(e) => stats.inconc("update_ttl failed unexpectedly in a TTL scenario", json!({"error": e.to_string()})),
        }
        stats.distinct_key(crate::report::fnv(&format!("ttlx|{}|{}|{}", self.store_name, variant, mix(self.hseed, 0x77) % 6)));
    }

    async fn check_loads(&self, when: &str, stats: &mut Stats) {
        for (i, (name, want)) in self.expect.iter().enumerate() {
            let got = match self.store.load(&self.ids[i]).await {
                Ok(r) => r,
                Err(e) => {
                    stats.inconc("load failed in a TTL scenario", json!({"error": e.to_string()}));
                    continue;
                }
            };
            let bad = match (want, &got) {
                (None, None) => None,
                (None, Some(_)) => Some("expired_record_loaded"),
                (Some(_), None) => Some("live_record_lost"),
                (Some(tok), Some(r)) => {
                    if crate::exec::states_equal_modulo_float_rounding(&state_for(self.hseed, *tok), &r.state) && r.state == state_for(self.hseed, *tok) { None } else { Some("live_record_with_other_state") }
                }
            };
            if let Some(cause) = bad {
                stats.violation(
                    json!({"store": self.store_name, "scenario": "ttl_extension", "cause": cause, "record": name, "when": when}),
                    json!({"hseed": self.hseed, "record": name, "when": when, "loaded_some": got.is_some()}),
                );
            }
        }
    }
}

/// SQLite, second granularity: the instant a record stops being loadable it must stop being extendable too.
/// `create(x, 1 s)`, poll `load` every 2 ms until it says None, then at once `update_ttl(x, 1 h)` and `load`.
pub async fn boundary_probe(store: Arc<dyn SessionStorageBackend>, _pool: sqlx::SqlitePool, hseed: u64) -> Stats {
    let mut stats = Stats::default();
    let id = session_id(hseed, 0);
    if store.create(&id, rec(hseed, 1, SHORT)).await.is_err() {
        return stats;
    }
    let t0 = Instant::now();
    loop {
        match store.load(&id).await {
            Ok(None) => break,
            Ok(Some(_)) => {}
            Err(_) => return stats,
        }
        if t0.elapsed() > Duration::from_secs(4) {
            stats.inconc("a 1 s record was still loadable after 4 s", json!({"hseed": hseed}));
            return stats;
        }
        tokio::time::sleep(Duration::from_millis(2)).await;
    }
    let gone_after_ms = t0.elapsed().as_millis() as u64;
    let ext = store.update_ttl(&id, LONG).await;
    let again = store.load(&id).await;
    stats.add("sqlite_expiry_boundary_probes", 1);
    let resurrected = matches!(again, Ok(Some(_)));
    match ext {
        Err(pavex_session::store::errors::UpdateTtlError::UnknownId(_)) if !resurrected => {}
        Err(pavex_session::store::errors::UpdateTtlError::UnknownId(_)) => stats.violation(
            json!({"store": "sqlite", "scenario": "expiry_boundary", "cause": "expired_record_loadable_again"}),
            json!({"hseed": hseed, "gone_after_ms": gone_after_ms}),
        ),
        Ok(()) => stats.violation(
            json!({"store": "sqlite", "scenario": "expiry_boundary", "cause": "update_ttl_succeeded_on_record_that_load_reports_gone"}),
            json!({"hseed": hseed, "gone_after_ms": gone_after_ms, "loadable_afterwards": resurrected}),
        ),
        Err(e) => stats.inconc("update_ttl failed unexpectedly in the boundary probe", json!({"error": e.to_string()})),
    }
    stats
}
