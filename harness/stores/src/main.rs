//! C13 harness: the bundled session stores against a map-with-expiry model, sequentially (with the
//! effect of every operation observed through loads) and concurrently (linearizability search).
//!
//! argv: --seed N --tier quick|thorough [--budget-s S] [--shards K] [--db-dir DIR] [--replay FILE]

mod conc;
mod exec;
mod genr;
mod lin;
mod model;
mod report;
mod seq;
mod ttlx;

use exec::Clock;
use genr::{conc_plan, mix, seq_plan};
use pavex_session::store::SessionStorageBackend;
use pavex_session_memory_store::InMemorySessionStore;
use pavex_session_sqlx::SqliteSessionStore;
use report::Stats;
use seq::SeqRun;
use serde_json::json;
use sqlx::sqlite::{SqliteConnectOptions, SqliteJournalMode, SqlitePoolOptions, SqliteSynchronous};
use std::path::PathBuf;
use std::str::FromStr;
use std::sync::Arc;
use std::time::{Duration, Instant};

#[derive(Clone)]
struct Cfg {
    seed: u64,
    thorough: bool,
    budget_s: f64,
    shards: usize,
    db_dir: PathBuf,
    replay: Option<String>,
}

/// Work per round and shard. A round starts a batch of "aged" SQLite histories, does everything else,
/// makes sure at least 1.1 s have passed and finishes the aged batch.
struct Quota {
    rounds: usize,
    aged: usize,
    mem_seq: usize,
    sql_seq: usize,
    mem_conc: usize,
    sql_conc: usize,
}

fn parse_args() -> Cfg {
    let mut cfg = Cfg {
        seed: 1,
        thorough: false,
        budget_s: 0.0,
        shards: 0,
        db_dir: PathBuf::from("/verif/build/c13-db"),
        replay: None,
    };
    let a: Vec<String> = std::env::args().collect();
    let mut i = 1;
    while i < a.len() {
        let v = a.get(i + 1).cloned().unwrap_or_default();
        match a[i].as_str() {
            "--seed" => cfg.seed = v.parse().expect("seed"),
            "--tier" => cfg.thorough = v == "thorough",
            "--budget-s" => cfg.budget_s = v.parse().expect("budget"),
            "--shards" => cfg.shards = v.parse().expect("shards"),
            "--db-dir" => cfg.db_dir = PathBuf::from(v),
            "--replay" => cfg.replay = Some(v),
            other => {
                eprintln!("unknown argument {}", other);
                std::process::exit(2);
            }
        }
        i += 2;
    }
    if cfg.budget_s <= 0.0 {
        cfg.budget_s = if cfg.thorough { 420.0 } else { 40.0 };
    }
    if cfg.shards == 0 {
        cfg.shards = if cfg.thorough { 12 } else { 4 };
    }
    cfg
}

async fn sqlite_memory_store() -> Result<(Arc<dyn SessionStorageBackend>, sqlx::SqlitePool), sqlx::Error> {
    let opts = SqliteConnectOptions::from_str("sqlite::memory:")?;
    let pool = SqlitePoolOptions::new()
        .max_connections(1)
        .min_connections(1)
        .idle_timeout(None)
        .max_lifetime(None)
        .connect_with(opts)
        .await?;
    let store = SqliteSessionStore::new(pool.clone());
    store.migrate().await?;
    Ok((Arc::new(store), pool))
}

async fn sqlite_file_store(path: &PathBuf, wal: bool) -> Result<(Arc<dyn SessionStorageBackend>, sqlx::SqlitePool), sqlx::Error> {
    let opts = SqliteConnectOptions::new()
        .filename(path)
        .create_if_missing(true)
        .journal_mode(if wal { SqliteJournalMode::Wal } else { SqliteJournalMode::Delete })
        .synchronous(SqliteSynchronous::Off)
        .busy_timeout(Duration::from_secs(10));
    let pool = SqlitePoolOptions::new()
        .max_connections(4)
        .min_connections(4)
        .idle_timeout(None)
        .max_lifetime(None)
        .connect_with(opts)
        .await?;
    let store = SqliteSessionStore::new(pool.clone());
    store.migrate().await?;
    Ok((Arc::new(store), pool))
}

fn remove_db(path: &PathBuf) {
    for suffix in ["", "-wal", "-shm", "-journal"] {
        let mut p = path.clone().into_os_string();
        p.push(suffix);
        let _ = std::fs::remove_file(PathBuf::from(p));
    }
}

/// The same backend, reached through the public `SessionStore` wrapper (whatever the wrapper adds or short-cuts is then part
/// of what the histories observe).
struct ViaSessionStore(pavex_session::SessionStore);

impl std::fmt::Debug for ViaSessionStore {
    fn fmt(&self, f: &mut std::fmt::Formatter<'_>) -> std::fmt::Result {
        f.write_str("ViaSessionStore")
    }
}

#[async_trait::async_trait]
impl SessionStorageBackend for ViaSessionStore {
    async fn create(&self, id: &pavex_session::SessionId, record: pavex_session::store::SessionRecordRef<'_>) -> Result<(), pavex_session::store::errors::CreateError> {
        self.0.create(id, record).await
    }
    async fn update(&self, id: &pavex_session::SessionId, record: pavex_session::store::SessionRecordRef<'_>) -> Result<(), pavex_session::store::errors::UpdateError> {
        self.0.update(id, record).await
    }
    async fn update_ttl(&self, id: &pavex_session::SessionId, ttl: std::time::Duration) -> Result<(), pavex_session::store::errors::UpdateTtlError> {
        self.0.update_ttl(id, ttl).await
    }
    async fn load(&self, id: &pavex_session::SessionId) -> Result<Option<pavex_session::store::SessionRecord>, pavex_session::store::errors::LoadError> {
        self.0.load(id).await
    }
    async fn delete(&self, id: &pavex_session::SessionId) -> Result<(), pavex_session::store::errors::DeleteError> {
        self.0.delete(id).await
    }
    async fn change_id(&self, old_id: &pavex_session::SessionId, new_id: &pavex_session::SessionId) -> Result<(), pavex_session::store::errors::ChangeIdError> {
        self.0.change_id(old_id, new_id).await
    }
    async fn delete_expired(&self, batch_size: Option<std::num::NonZeroUsize>) -> Result<usize, pavex_session::store::errors::DeleteExpiredError> {
        self.0.delete_expired(batch_size).await
    }
}

async fn new_seq_run(hseed: u64, sqlite: bool, aged: bool, stats: &mut Stats) -> Option<SeqRun> {
    let plan = seq_plan(hseed, aged);
    if sqlite {
        match sqlite_memory_store().await {
            Ok((store, pool)) => Some(SeqRun::new(plan, store, "sqlite", if aged { "aged" } else { "plain" }, Some(pool))),
            Err(e) => {
                stats.inconc("could not open an in-memory SQLite database", json!({"error": e.to_string()}));
                None
            }
        }
    } else {
        // every other in-memory history talks to the backend through `pavex_session::SessionStore`, the wrapper applications use
        if hseed & 1 == 1 {
            Some(SeqRun::new(plan, Arc::new(ViaSessionStore(pavex_session::SessionStore::new(InMemorySessionStore::new()))), "memory", "plain", None))
        } else {
            Some(SeqRun::new(plan, Arc::new(InMemorySessionStore::new()), "memory", "plain", None))
        }
    }
}

async fn shard_main(cfg: Cfg, shard: usize, q: Quota, t_start: Instant) -> Stats {
    let mut stats = Stats::default();
    let clock = Clock::new();
    let sseed = mix(cfg.seed, 0xC13_0000 + shard as u64);
    let wal = shard % 2 == 0;
    let db_path = cfg.db_dir.join(format!("c13-{}-s{}-{}.db", std::process::id(), cfg.seed, shard));
    remove_db(&db_path);
    let file_store = match sqlite_file_store(&db_path, wal).await {
        Ok(x) => Some(x),
        Err(e) => {
            stats.inconc("could not open the SQLite file database", json!({"error": e.to_string(), "path": db_path.display().to_string()}));
            None
        }
    };
    let variant = if wal { "file-wal-pool4" } else { "file-rollback-journal-pool4" };
    let lock_probe = if file_store.is_some() {
        let opts = SqliteConnectOptions::new().filename(&db_path).busy_timeout(Duration::from_millis(1500));
        SqlitePoolOptions::new().max_connections(1).min_connections(1).idle_timeout(None).max_lifetime(None).connect_with(opts).await.ok()
    } else {
        None
    };
    let out_of_time = |frac: f64| t_start.elapsed().as_secs_f64() > cfg.budget_s * frac;
    let mut ctr: u64 = 0;
    let mut next_seed = |stream: u64| {
        ctr += 1;
        mix(mix(sseed, stream), ctr) & !genr::HEAVY_BIT
    };
    let sample_shard = shard == 0;

    'rounds: for round in 0..q.rounds {
        if out_of_time(0.9) {
            stats.add("rounds_cut_by_time_budget", 1);
            break;
        }
        let first = round == 0 && sample_shard;
        // TTL scenarios, phase A (short TTLs that run out during the round's pause; see ttlx.rs), and the probe of the
        // instant at which a one-second record stops being live (runs concurrently with the rest of the round)
        let mut ttl_scenarios: Vec<ttlx::Scenario> = Vec::new();
        for i in 0..6 {
            let hseed = next_seed(6);
            if i % 2 == 0 {
                ttl_scenarios.push(ttlx::Scenario::phase_a(Arc::new(InMemorySessionStore::new()), "memory", None, hseed, &mut stats).await);
            } else if let Ok((store, pool)) = sqlite_memory_store().await {
                ttl_scenarios.push(ttlx::Scenario::phase_a(store, "sqlite", Some(pool), hseed, &mut stats).await);
            }
        }
        let probe = match sqlite_memory_store().await {
            Ok((store, pool)) => Some(tokio::spawn(ttlx::boundary_probe(store, pool, next_seed(7)))),
            Err(_) => None,
        };
        // aged batch, phase A
        let mut aged: Vec<SeqRun> = Vec::new();
        for _ in 0..q.aged {
            if let Some(mut r) = new_seq_run(next_seed(1), true, true, &mut stats).await {
                let split = r.plan.split;
                r.run_until(split, &mut stats, &clock).await;
                aged.push(r);
            }
        }
        let aged_mark = Instant::now();

        for i in 0..q.mem_seq {
            if let Some(mut r) = new_seq_run(next_seed(2), false, false, &mut stats).await {
                r.run_until(usize::MAX, &mut stats, &clock).await;
                r.finish(&mut stats, first && i == 0).await;
            }
        }
        for i in 0..q.sql_seq {
            if out_of_time(0.9) {
                break;
            }
            if let Some(mut r) = new_seq_run(next_seed(3), true, false, &mut stats).await {
                r.run_until(usize::MAX, &mut stats, &clock).await;
                r.finish(&mut stats, first && i == 0).await;
            }
        }
        for i in 0..q.mem_conc {
            // every other history of the in-memory store carries bulky states (see HEAVY_BIT)
            let hseed = next_seed(4) | if i % 2 == 1 { genr::HEAVY_BIT } else { 0 };
            let plan = conc_plan(hseed, false);
            let store: Arc<dyn SessionStorageBackend> = Arc::new(InMemorySessionStore::new());
            conc::run_conc(&plan, store, "memory", "shared-instance", clock, &mut stats, first && i == 0).await;
        }
        if let Some((store, pool)) = &file_store {
            for i in 0..q.sql_conc {
                if out_of_time(0.9) {
                    break;
                }
                // housekeeping by the harness, not through the store: start every history from an empty table
                if let Err(e) = sqlx::query("DELETE FROM sessions").execute(pool).await {
                    stats.inconc("could not reset the SQLite table between histories", json!({"error": e.to_string()}));
                    continue;
                }
                let plan = conc_plan(next_seed(5), true);
                conc::run_conc(&plan, store.clone(), "sqlite", variant, clock, &mut stats, first && i == 0).await;
                // every call has returned: whatever it did is committed, so nobody may still hold the write lock. A fresh
                // connection (not one of the store's) takes and releases it; `database is locked` after 1.5 s of patience means
                // that a connection of the store's pool went back with a transaction open.
                if let Some(probe) = &lock_probe {
                    let t = sqlx::query("BEGIN IMMEDIATE").execute(probe).await;
                    match t {
                        Ok(_) => {
                            let _ = sqlx::query("ROLLBACK").execute(probe).await;
                            stats.add("sqlite_write_lock_free_after_history", 1);
                        }
                        Err(e) if e.to_string().contains("locked") => {
                            stats.violation(
                                json!({"store": "sqlite", "cause": "write_transaction_left_open_after_every_call_returned"}),
                                json!({"error": e.to_string(), "variant": variant, "hseed": plan.hseed, "ops": format!("{:?}", plan.setup.len())}),
                            );
                            break;
                        }
                        Err(e) => stats.inconc("the write-lock probe failed", json!({"error": e.to_string()})),
                    }
                }
            }
        }

        // aged batch, phase B: every TTL-0 row written in phase A is now older than its second
        let waited = aged_mark.elapsed();
        if waited < Duration::from_millis(1100) {
            tokio::time::sleep(Duration::from_millis(1100) - waited).await;
        }
        for (i, mut r) in aged.into_iter().enumerate() {
            r.run_until(usize::MAX, &mut stats, &clock).await;
            r.finish(&mut stats, first && i == 0).await;
        }
        for sc in ttl_scenarios {
            sc.phase_b(&mut stats).await;
        }
        if let Some(h) = probe {
            if let Ok(Ok(st)) = tokio::time::timeout(Duration::from_secs(10), h).await {
                stats.merge(st);
            }
        }
        stats.add("rounds_completed", 1);
        if out_of_time(0.9) {
            stats.add("rounds_cut_by_time_budget", 1);
            break 'rounds;
        }
    }
    if let Some(p) = lock_probe {
        p.close().await;
    }
    if let Some((_, pool)) = file_store {
        pool.close().await;
    }
    remove_db(&db_path);
    stats
}

fn run_shards(cfg: &Cfg) -> Stats {
    let _ = std::fs::create_dir_all(&cfg.db_dir);
    let t_start = Instant::now();
    let mut handles = Vec::new();
    for shard in 0..cfg.shards {
        let cfg = cfg.clone();
        handles.push(std::thread::spawn(move || {
            let q = if cfg.thorough {
                Quota { rounds: 100_000, aged: 48, mem_seq: 150, sql_seq: 60, mem_conc: 200, sql_conc: 80 }
            } else {
                Quota { rounds: 10, aged: 32, mem_seq: 100, sql_seq: 40, mem_conc: 150, sql_conc: 50 }
            };
            let rt = tokio::runtime::Builder::new_multi_thread()
                .worker_threads(4)
                .enable_all()
                .build()
                .expect("runtime");
            rt.block_on(shard_main(cfg, shard, q, t_start))
        }));
    }
    let mut total = Stats::default();
    for h in handles {
        match h.join() {
            Ok(s) => total.merge(s),
            Err(_) => total.inconc("a harness shard crashed", json!({})),
        }
    }
    total.add("shards", cfg.shards as u64);
    total
}

fn replay(cfg: &Cfg, file: &str) -> Stats {
    let mut stats = Stats::default();
    let text = std::fs::read_to_string(file).expect("replay file");
    let j: serde_json::Value = serde_json::from_str(&text).expect("replay json");
    let d = &j["detail"];
    let hseed = d["hseed"].as_u64().expect("detail.hseed");
    let sqlite = d["store"].as_str() == Some("sqlite");
    let concurrent = d["mode"].as_str() == Some("concurrent");
    let aged = d["variant"].as_str() == Some("aged");
    let _ = std::fs::create_dir_all(&cfg.db_dir);
    let rt = tokio::runtime::Builder::new_multi_thread().worker_threads(4).enable_all().build().expect("runtime");
    let db_dir = cfg.db_dir.clone();
    rt.block_on(async {
        let clock = Clock::new();
        if !concurrent {
            if let Some(mut r) = new_seq_run(hseed, sqlite, aged, &mut stats).await {
                let split = r.plan.split;
                r.run_until(split, &mut stats, &clock).await;
                if aged {
                    tokio::time::sleep(Duration::from_millis(1100)).await;
                }
                r.run_until(usize::MAX, &mut stats, &clock).await;
                r.finish(&mut stats, true).await;
            }
        } else {
            // schedules are not reproducible: run the same plan many times
            let wal = d["variant"].as_str() != Some("file-rollback-journal-pool4");
            let path = db_dir.join(format!("c13-replay-{}.db", std::process::id()));
            remove_db(&path);
            let fs = if sqlite { sqlite_file_store(&path, wal).await.ok() } else { None };
            for i in 0..300 {
                let plan = conc_plan(hseed, sqlite);
                if sqlite {
                    if let Some((store, pool)) = &fs {
                        let _ = sqlx::query("DELETE FROM sessions").execute(pool).await;
                        conc::run_conc(&plan, store.clone(), "sqlite", "replay", clock, &mut stats, i == 0).await;
                    }
                } else {
                    let store: Arc<dyn SessionStorageBackend> = Arc::new(InMemorySessionStore::new());
                    conc::run_conc(&plan, store, "memory", "replay", clock, &mut stats, i == 0).await;
                }
            }
            if let Some((_, pool)) = fs {
                pool.close().await;
            }
            remove_db(&path);
        }
    });
    stats.add("replayed", 1);
    stats
}

fn main() {
    let cfg = parse_args();
    exec::install_silent_panic_hook();
    let stats = match &cfg.replay {
        Some(f) => replay(&cfg, f),
        None => run_shards(&cfg),
    };
    stats.emit();
}
