//! Sequential conformance: every generated operation is followed by a load of every id, and both the
//! result and the observed effect are compared with the model.

use crate::exec::{Clock, WallGuard, timed_call};
use crate::genr::{SeqPlan, session_id};
use crate::model::{MState, Op, Relax, Res, Slot, Ttl, cause_direct, cause_probe, load_mismatch, role_of, slot_class, step, target_class};
use crate::report::{Stats, fnv};
use pavex_session::SessionId;
use pavex_session::store::SessionStorageBackend;
use serde_json::{Value, json};
use std::sync::Arc;

pub struct SeqRun {
    pub plan: SeqPlan,
    pub store: Arc<dyn SessionStorageBackend>,
    pub store_name: &'static str,
    pub variant: &'static str,
    pub ids: Vec<SessionId>,
    pub frontier: Vec<MState>,
    pub trace: Vec<String>,
    pub pos: usize,
    pub nviol: usize,
    pub aborted: bool,
    abstract_trace: String,
    had_load_some: bool,
    had_effect_on_live: bool,
    float_reported: bool,
    pending: Vec<(Value, Value)>,
    guard: WallGuard,
    pub pool: Option<sqlx::SqlitePool>,
}

fn union_step(frontier: &[MState], op: &Op, res: &Res, k: usize) -> Vec<MState> {
    let mut out: Vec<MState> = Vec::new();
    for s in frontier {
        for n in step(s, op, res, k, Relax::default()) {
            if !out.contains(&n) {
                out.push(n);
            }
        }
    }
    out
}

fn show_frontier(f: &[MState], k: usize) -> String {
    if f.len() == 1 {
        f[0].show(k)
    } else {
        format!("{} (+{} alternatives)", f[0].show(k), f.len() - 1)
    }
}

impl SeqRun {
    pub fn new(
        plan: SeqPlan,
        store: Arc<dyn SessionStorageBackend>,
        store_name: &'static str,
        variant: &'static str,
        pool: Option<sqlx::SqlitePool>,
    ) -> Self {
        let ids = (0..plan.k).map(|i| session_id(plan.hseed, i)).collect();
        SeqRun {
            plan,
            store,
            store_name,
            variant,
            ids,
            frontier: vec![MState::new()],
            trace: Vec::new(),
            pos: 0,
            nviol: 0,
            aborted: false,
            abstract_trace: String::new(),
            had_load_some: false,
            had_effect_on_live: false,
            float_reported: false,
            pending: Vec::new(),
            guard: WallGuard::new(),
            pool,
        }
    }

    fn detail(&self, op: &Op, res: &Res, before: &[MState], extra: Value) -> Value {
        let k = self.plan.k;
        let tail: Vec<&String> = self.trace.iter().rev().take(40).collect::<Vec<_>>().into_iter().rev().collect();
        json!({
            "store": self.store_name, "variant": self.variant, "mode": "sequential",
            "hseed": self.plan.hseed, "ids": k, "op_index": self.pos,
            "op": op.show(), "result": res.show(), "model_before": show_frontier(before, k),
            "observed": extra, "trace": tail,
        })
    }

    pub async fn run_until(&mut self, end: usize, stats: &mut Stats, clock: &Clock) {
        let k = self.plan.k;
        let end = end.min(self.plan.ops.len());
        while self.pos < end && !self.aborted {
            let op = self.plan.ops[self.pos].clone();
            let pre = self.frontier.clone();
            let class = target_class(&pre, &op, k);
            let (_, res, _) = timed_call(&*self.store, &self.ids, self.plan.hseed, &op, clock).await;
            stats.add(&format!("seq_ops_{}", self.store_name), 1);
            stats.transition(self.store_name, op.kind(), &class, res.class());
            self.abstract_trace.push_str(&format!("{}:{}:{};", op.kind(), class, res.class()));
            self.trace.push(format!("#{} {} -> {}    [model before: {}]", self.pos, op.show(), res.show(), show_frontier(&pre, k)));
            if let Res::Panic(m) = &res {
                let sig = json!({"kind": "panic", "store": self.store_name, "op": op.kind(), "message": m});
                    let det = self.detail(&op, &res, &pre, Value::Null);
                    self.pending.push((sig, det));
            }
            if let Res::Other(m) = &res {
                stats.inconc(
                    "backend error in a sequential history (kept as may-or-may-not-have-taken-effect)",
                    json!({"store": self.store_name, "op": op.show(), "error": m, "hseed": self.plan.hseed}),
                );
            }
            if matches!(res, Res::Loaded(Some(_))) {
                self.had_load_some = true;
            }
            if matches!(res, Res::Ok) && op.is_mutation() && !matches!(op, Op::Create { .. }) {
                self.had_effect_on_live = true;
            }
            if let (Op::DeleteExpired { .. }, Res::Count(n)) = (&op, &res) {
                stats.add(&format!("delete_expired_rows_removed_{}", self.store_name), *n);
            }

            let next = union_step(&pre, &op, &res, k);
            let mut diverged = false;
            if next.is_empty() {
                diverged = true;
                self.nviol += 1;
                let cause = cause_direct(&op, &class, &res);
                let sig = json!({"store": self.store_name, "op": op.kind(), "cause": cause, "mode": "sequential"});
                    let det = self.detail(&op, &res, &pre, Value::Null);
                    self.pending.push((sig, det));
            } else {
                self.frontier = next;
            }

            // observe the effect: load every id
            let mut obs: Vec<Res> = Vec::new();
            for j in 0..k as u8 {
                let lop = Op::Load { id: j };
                let (_, r, _) = timed_call(&*self.store, &self.ids, self.plan.hseed, &lop, clock).await;
                stats.add(&format!("seq_probe_loads_{}", self.store_name), 1);
                if let Res::Panic(m) = &r {
                    let sig = json!({"kind": "panic", "store": self.store_name, "op": "load", "message": m});
                        let det = self.detail(&lop, &r, &self.frontier.clone(), Value::Null);
                        self.pending.push((sig, det));
                }
                if let Res::Loaded(Some(l)) = &r {
                    if l.float_only_diff && !self.float_reported {
                        self.float_reported = true;
                        stats.add(&format!("histories_with_float_rounding_{}", self.store_name), 1);
                        let sig = json!({"store": self.store_name, "op": "load", "cause": "float_value_not_roundtripped_exactly", "mode": "sequential"});
                            let det = self.detail(&lop, &r, &self.frontier.clone(), json!({"difference": l.diff}));
                            self.pending.push((sig, det));
                    }
                }
                if !diverged {
                    let nf = union_step(&self.frontier, &lop, &r, k);
                    if nf.is_empty() {
                        let why = self.frontier.iter().filter_map(|s| load_mismatch(s.0[j as usize], &r)).next().unwrap_or("mismatch");
                        let cause = cause_probe(&op, &class, &res, role_of(&op, j), why);
                        self.trace.push(format!("      then load(id{}) -> {}    [model: {}]", j, r.show(), show_frontier(&self.frontier, k)));
                        self.nviol += 1;
                        let after = self.frontier.clone();
                        let sig = json!({"store": self.store_name, "op": op.kind(), "cause": cause, "mode": "sequential"});
                            let det = self.detail(&op, &res, &pre, json!({"load_of": format!("id{}", j), "returned": r.show(), "model_after_op": show_frontier(&after, k)}));
                            self.pending.push((sig, det));
                        // classify create-on-expired outcomes for the evidence
                        diverged = true;
                    } else {
                        self.frontier = nf;
                    }
                }
                obs.push(r);
            }
            if let (Op::Create { .. }, Res::Ok) = (&op, &res) {
                if class == "expired_present_row" {
                    let name = if diverged { "create_on_expired_row_no_effect" } else { "create_on_expired_row_took_effect" };
                    stats.add(&format!("{}_{}", name, self.store_name), 1);
                }
            }
            if let Op::ChangeId { old, new } = &op {
                if old != new && class == "old_live__new_expired_present_row" {
                    let name = if matches!(res, Res::Ok) { "change_id_onto_expired_row_ok" } else { "change_id_onto_expired_row_failed" };
                    stats.add(&format!("{}_{}", name, self.store_name), 1);
                }
            }

            if diverged {
                // follow the store: rebuild the model from what the loads show
                let mut ns = MState::new();
                for j in 0..k {
                    ns.0[j] = match &obs[j] {
                        Res::Loaded(Some(l)) => match l.tok {
                            Some(t) => {
                                let ttl = if Ttl::H2.window_ok(l.ttl_ms) { Ttl::H2 } else { Ttl::H1 };
                                Slot::Live { tok: t, ttl }
                            }
                            None => {
                                self.aborted = true;
                                Slot::Absent
                            }
                        },
                        Res::Loaded(None) => {
                            // an id nobody touched and that was absent stays absent; otherwise a row may be left
                            if slot_class(&pre, j as u8) == "absent" && !op.ids().contains(&(j as u8)) {
                                Slot::Absent
                            } else {
                                Slot::Expired
                            }
                        }
                        _ => {
                            self.aborted = true;
                            Slot::Absent
                        }
                    };
                }
                self.frontier = vec![ns];
                if self.nviol >= 3 {
                    self.aborted = true;
                }
            }
            self.pos += 1;
        }
    }

    pub async fn finish(mut self, stats: &mut Stats, want_sample: bool) {
        stats.add(&format!("seq_histories_{}", self.store_name), 1);
        if self.variant == "aged" {
            stats.add("seq_histories_sqlite_aged_over_second_boundary", 1);
        }
        if self.guard.steady() {
            if self.nviol > 0 {
                stats.add(&format!("seq_histories_with_violation_{}", self.store_name), 1);
            }
            for (sig, det) in std::mem::take(&mut self.pending) {
                stats.violation(sig, det);
            }
        } else {
            stats.add("histories_dropped_wall_clock_unsteady", 1);
            if !self.pending.is_empty() {
                stats.inconc(
                    "the wall clock did not advance in step with the monotonic clock during a history; its verdicts were dropped",
                    json!({"store": self.store_name, "hseed": self.plan.hseed, "dropped": self.pending.len()}),
                );
            }
        }
        let nontrivial = self.had_load_some && self.had_effect_on_live;
        if nontrivial {
            stats.add(&format!("seq_nontrivial_{}", self.store_name), 1);
            stats.distinct_key(fnv(&format!("seq|{}|{}", self.store_name, self.abstract_trace)));
        }
        if want_sample {
            let lines: Vec<&String> = self.trace.iter().take(14).collect();
            stats.samples.push(json!({"mode": "sequential", "store": self.store_name, "variant": self.variant,
                "hseed": self.plan.hseed, "ids": self.plan.k, "ops": self.plan.ops.len(), "first_steps": lines}));
        }
        if let Some(p) = self.pool.take() {
            p.close().await;
        }
    }
}
