//! Seeded generators: RNG, session ids, hostile JSON states, operation sequences and concurrent plans.

use crate::model::{Op, Ttl};
use pavex_session::SessionId;
use serde_json::{Map, Number, Value};
use std::borrow::Cow;
use std::collections::HashMap;

#[derive(Clone)]
pub struct Rng(u64);

pub fn mix(a: u64, b: u64) -> u64 {
    let mut r = Rng(a ^ b.wrapping_mul(0x9E37_79B9_7F4A_7C15).rotate_left(17));
    r.next();
    r.next()
}

impl Rng {
    pub fn new(seed: u64) -> Self {
        Rng(seed)
    }
    pub fn next(&mut self) -> u64 {
        self.0 = self.0.wrapping_add(0x9E37_79B9_7F4A_7C15);
        let mut z = self.0;
        z = (z ^ (z >> 30)).wrapping_mul(0xBF58_476D_1CE4_E5B9);
        z = (z ^ (z >> 27)).wrapping_mul(0x94D0_49BB_1331_11EB);
        z ^ (z >> 31)
    }
    pub fn below(&mut self, n: u64) -> u64 {
        if n == 0 { 0 } else { self.next() % n }
    }
    pub fn range(&mut self, lo: u64, hi_incl: u64) -> u64 {
        lo + self.below(hi_incl - lo + 1)
    }
    pub fn chance(&mut self, num: u64, den: u64) -> bool {
        self.below(den) < num
    }
    pub fn pick<'a, T>(&mut self, xs: &'a [T]) -> &'a T {
        &xs[self.below(xs.len() as u64) as usize]
    }
}

/// Deterministic UUID-shaped session id (the only public way to build one from given bits is through
/// its transparent `Deserialize` implementation).
pub fn session_id(hseed: u64, idx: usize) -> SessionId {
    let a = mix(hseed, 0x1D00 + idx as u64);
    let b = mix(a, 0x1D01);
    let s = format!(
        "{:08x}-{:04x}-4{:03x}-{:04x}-{:012x}",
        (a >> 32) as u32,
        (a >> 16) as u16,
        (a as u16) & 0x0fff,
        (((b >> 48) as u16) & 0x3fff) | 0x8000,
        b & 0xffff_ffff_ffff
    );
    serde_json::from_value::<SessionId>(Value::String(s)).expect("valid uuid")
}

pub const TOKEN_KEY: &str = "tok";
/// History seeds with this bit set carry a bulky payload in every state, so that the in-memory store
/// (which clones the state while holding its lock) spends tens of microseconds per call and
/// concurrent calls really overlap.
pub const HEAVY_BIT: u64 = 1 << 63;

const STRINGS: &[&str] = &[
    "",
    "a",
    "tok2",
    "\u{1D11E}\u{1F600}\u{10FFFF}",          // astral: musical G clef, emoji, last code point
    "e\u{301}\u{327}o\u{308}",                // combining marks
    "\u{e9}",                                  // precomposed e-acute (must not be confused with e + U+0301)
    "\u{0}",                                   // NUL
    "a\u{0}b",
    "\u{feff}bom",
    "\u{202e}rtl\u{202c}",
    "quote\"back\\slash/\u{8}\u{c}\n\r\t",
    "\u{7f}\u{80}\u{9f}",
    "\u{2028}\u{2029}",
    "\u{d7ff}\u{e000}\u{fffd}\u{fffe}\u{ffff}",
    "\u{1F468}\u{200D}\u{1F469}\u{200D}\u{1F467}", // ZWJ family
    "'; DROP TABLE sessions; --",
    "{\"tok\": 1}",
    "null",
    "1e400",
    " leading and trailing ",
    "\u{5d0}\u{5d1}\u{5d2} \u{627}\u{644}\u{639}\u{631}\u{628}\u{64a}\u{629}",
    "\u{4e2d}\u{6587}\u{ff21}",
];

fn gen_string(r: &mut Rng) -> String {
    match r.below(10) {
        0..=5 => (*r.pick(STRINGS)).to_string(),
        6 | 7 => {
            let n = r.range(1, 3);
            let mut s = String::new();
            for _ in 0..n {
                let piece: &str = *r.pick::<&str>(STRINGS);
                s.push_str(piece);
            }
            s
        }
        8 => {
            // random scalar values, all planes
            let n = r.range(1, 8);
            let mut s = String::new();
            for _ in 0..n {
                let cp = match r.below(4) {
                    0 => r.below(0x80) as u32,
                    1 => r.range(0x80, 0xD7FF) as u32,
                    2 => r.range(0xE000, 0xFFFF) as u32,
                    _ => r.range(0x1_0000, 0x10_FFFF) as u32,
                };
                if let Some(c) = char::from_u32(cp) {
                    s.push(c);
                }
            }
            s
        }
        _ => {
            // long string
            let n = r.range(200, 3000) as usize;
            let unit = *r.pick(&["x", "\u{1F600}", "e\u{301}", "\\\""]);
            unit.repeat(n / unit.len().max(1) + 1)
        }
    }
}

fn gen_number(r: &mut Rng) -> Value {
    match r.below(12) {
        0 => Value::from(0u64),
        1 => Value::from(-1i64),
        2 => Value::from(i64::MIN),
        3 => Value::from(i64::MAX),
        4 => Value::from(u64::MAX),
        5 => Value::from((i64::MAX as u64) + 1),
        6 => Value::from(r.next()),
        7 => Value::from(r.next() as i64),
        8 => Value::from(9_007_199_254_740_993u64), // 2^53 + 1: not representable as f64
        9 => {
            // floats that are exactly representable and print/parse without rounding questions
            let m = (r.below(1 << 20) as i64 - (1 << 19)) as f64;
            let e = r.below(41) as i32 - 20;
            Value::from(m * (2.0f64).powi(e))
        }
        10 => Value::from(*r.pick(&[0.5f64, -0.0, 1.0, -2.5, 1e300, -1e300, f64::MAX, f64::MIN_POSITIVE, 5e-324, 0.1, 1.0 / 3.0])),
        _ => {
            // arbitrary finite double
            let mut f = f64::from_bits(r.next());
            if !f.is_finite() {
                f = 1.5;
            }
            Number::from_f64(f).map(Value::Number).unwrap_or(Value::Null)
        }
    }
}

fn gen_value(r: &mut Rng, depth: u32) -> Value {
    let top = if depth >= 3 { 6 } else { 9 };
    match r.below(top) {
        0 => Value::Null,
        1 => Value::Bool(r.chance(1, 2)),
        2 | 3 => gen_number(r),
        4 | 5 => Value::String(gen_string(r)),
        6 | 7 => {
            let n = if r.chance(1, 12) { r.range(20, 120) } else { r.below(4) };
            Value::Array((0..n).map(|_| gen_value(r, depth + 1)).collect())
        }
        _ => {
            let n = r.below(4);
            let mut m = Map::new();
            for _ in 0..n {
                m.insert(gen_string(r), gen_value(r, depth + 1));
            }
            Value::Object(m)
        }
    }
}

/// The state stored by write number `tok` of history `hseed`: a pure function, so that a load can be
/// matched against the exact bytes that write supplied. The reserved key identifies the write.
pub fn state_for(hseed: u64, tok: u32) -> HashMap<Cow<'static, str>, Value> {
    let mut r = Rng::new(mix(hseed, 0x57A7E_0000 + tok as u64));
    let mut m: HashMap<Cow<'static, str>, Value> = HashMap::new();
    m.insert(Cow::Borrowed(TOKEN_KEY), Value::from(tok));
    let n = match r.below(10) {
        0 => 0,
        1..=6 => r.range(1, 3),
        _ => r.range(4, 8),
    };
    for _ in 0..n {
        let key = gen_string(&mut r);
        if key == TOKEN_KEY {
            continue;
        }
        m.insert(Cow::Owned(key), gen_value(&mut r, 0));
    }
    if hseed & HEAVY_BIT != 0 {
        let n = r.range(3000, 20000);
        let base = r.next() >> 12;
        m.insert(Cow::Borrowed("bulk"), Value::Array((0..n).map(|i| Value::from(base + i)).collect()));
    }
    m
}

fn gen_ttl(r: &mut Rng, zero_pct: u64) -> Ttl {
    let x = r.below(100);
    if x < zero_pct {
        Ttl::Zero
    } else if x < zero_pct + (100 - zero_pct) * 6 / 10 {
        Ttl::H1
    } else {
        Ttl::H2
    }
}

pub struct OpGen {
    pub k: u8,
    pub next_tok: u32,
    pub zero_pct: u64,
    /// The generator's own guess of each id's class under ideal behaviour (0 absent, 1 expired, 2 live).
    /// Only steers target selection towards operations that do something; never used by the oracle.
    pub shadow: [u8; 4],
    /// (token, ttl) of the last create/update aimed at each id: lets an `update` write back exactly what is stored.
    pub last_write: [Option<(u32, Ttl)>; 4],
}

impl OpGen {
    pub fn new(k: u8, zero_pct: u64) -> Self {
        OpGen { k, next_tok: 0, zero_pct, shadow: [0; 4], last_write: [None; 4] }
    }

    fn target(&mut self, r: &mut Rng, want_live: bool) -> u8 {
        let k = self.k as u64;
        if r.chance(80, 100) {
            let cands: Vec<u8> = (0..self.k).filter(|i| (self.shadow[*i as usize] == 2) == want_live).collect();
            if !cands.is_empty() {
                return *r.pick(&cands);
            }
        }
        r.below(k) as u8
    }

    fn written(&mut self, id: u8, ttl: Ttl) {
        self.shadow[id as usize] = if ttl == Ttl::Zero { 1 } else { 2 };
    }

    pub fn op(&mut self, r: &mut Rng) -> Op {
        let k = self.k as u64;
        match r.below(100) {
            0..=27 => {
                let id = self.target(r, false);
                self.next_tok += 1;
                let ttl = gen_ttl(r, self.zero_pct);
                if self.shadow[id as usize] != 2 {
                    self.written(id, ttl);
                    self.last_write[id as usize] = Some((self.next_tok, ttl));
                }
                Op::Create { id, tok: self.next_tok, ttl }
            }
            28..=40 => {
                let id = self.target(r, true);
                if let (true, Some((tok, ttl))) = (r.chance(15, 100), self.last_write[id as usize]) {
                    // an idempotent update: the very state and TTL of the last write to this id (within the same
                    // second the stored row does not change at all)
                    return Op::Update { id, tok, ttl };
                }
                self.next_tok += 1;
                let ttl = gen_ttl(r, self.zero_pct);
                self.last_write[id as usize] = Some((self.next_tok, ttl));
                if self.shadow[id as usize] == 2 {
                    self.written(id, ttl);
                }
                Op::Update { id, tok: self.next_tok, ttl }
            }
            41..=49 => {
                let id = self.target(r, true);
                let ttl = gen_ttl(r, self.zero_pct);
                if self.shadow[id as usize] == 2 {
                    self.written(id, ttl);
                }
                Op::UpdateTtl { id, ttl }
            }
            50..=59 => Op::Load { id: r.below(k) as u8 },
            60..=67 => {
                let id = self.target(r, true);
                if self.shadow[id as usize] == 2 {
                    self.shadow[id as usize] = 0;
                }
                Op::Delete { id }
            }
            68..=89 => {
                let id = self.target(r, true);
                let new = if r.chance(1, 12) { id } else { ((id as u64 + 1 + r.below(k - 1)) % k) as u8 };
                if new != id && self.shadow[id as usize] == 2 && self.shadow[new as usize] != 2 {
                    self.shadow[new as usize] = 2;
                    self.shadow[id as usize] = 0;
                }
                Op::ChangeId { old: id, new }
            }
            _ => {
                let batch = match r.below(4) {
                    0 => Some(1),
                    1 => Some(r.range(1, 3) as u32),
                    _ => None,
                };
                Op::DeleteExpired { batch }
            }
        }
    }
}

pub struct SeqPlan {
    pub hseed: u64,
    pub k: usize,
    pub ops: Vec<Op>,
    /// index at which an "aged" history waits out the one-second boundary (== ops.len() when unused)
    pub split: usize,
}

pub fn seq_plan(hseed: u64, aged: bool) -> SeqPlan {
    let mut r = Rng::new(mix(hseed, 0x5E9));
    let k = r.range(2, 4) as usize;
    let n = r.range(6, 28) as usize;
    let zero_pct = *r.pick(&[15u64, 25, 35, 50]);
    let mut g = OpGen::new(k as u8, zero_pct);
    let ops: Vec<Op> = (0..n).map(|_| g.op(&mut r)).collect();
    let split = if aged { r.range(2, (n as u64 * 2 / 3).max(2)) as usize } else { n };
    SeqPlan { hseed, k, ops, split: split.min(n) }
}

#[derive(Clone, Copy, Debug)]
pub enum Gap {
    None,
    Yield(u8),
    /// busy-wait for that many microseconds: shifts the phase of a task without giving up its worker thread
    Spin(u32),
    /// exhaust tokio's cooperative budget so that the next call is suspended at one of its awaits
    Burn { leave: u8 },
    SleepUs(u32),
}

pub struct ConcPlan {
    pub hseed: u64,
    pub k: usize,
    pub setup: Vec<Op>,
    pub tasks: Vec<Vec<(Gap, Op)>>,
}

pub fn conc_plan(hseed: u64, slow_backend: bool) -> ConcPlan {
    let mut r = Rng::new(mix(hseed, 0xC0C));
    let k = r.range(2, 3) as usize;
    let t = r.range(2, 4) as usize;
    let zero_pct = *r.pick(&[10u64, 20, 30]);
    let mut g = OpGen::new(k as u8, zero_pct);
    // sequential prefix: mostly creates, so that the contended records are live
    let ns = r.below(4) as usize;
    let mut setup = Vec::new();
    for i in 0..ns {
        if r.chance(3, 4) {
            g.next_tok += 1;
            let ttl = if r.chance(1, 6) { Ttl::Zero } else if r.chance(1, 2) { Ttl::H1 } else { Ttl::H2 };
            let sid = (i % k) as u8;
            if g.shadow[sid as usize] != 2 { g.shadow[sid as usize] = if ttl == Ttl::Zero { 1 } else { 2 }; }
            setup.push(Op::Create { id: sid, tok: g.next_tok, ttl });
        } else {
            setup.push(g.op(&mut r));
        }
    }
    // 3..=6 ops per task, at most 20 ops in the whole history (setup + tasks + k final loads)
    let avail = 20 - ns - k;
    let mut counts: Vec<usize> = (0..t).map(|_| r.range(3, 6) as usize).collect();
    while counts.iter().sum::<usize>() > avail {
        let i = (0..t).max_by_key(|i| counts[*i]).unwrap();
        counts[i] -= 1;
    }
    let mut tasks = Vec::new();
    for c in counts {
        let mut v = Vec::new();
        for _ in 0..c {
            // tokio timers tick in milliseconds: sleeps are only useful against the slow backend;
            // Spin(us) busy-waits and keeps the worker thread
            let gap = if slow_backend {
                match r.below(10) {
                    0..=3 => Gap::None,
                    4..=5 => Gap::Yield(r.range(1, 3) as u8),
                    6..=7 => Gap::Spin(r.range(1, 300) as u32),
                    8 => Gap::Burn { leave: r.below(3) as u8 },
                    _ => Gap::SleepUs(r.range(1, 1500) as u32),
                }
            } else {
                match r.below(20) {
                    0..=6 => Gap::None,
                    7..=9 => Gap::Yield(1),
                    10..=12 => Gap::Spin(r.range(0, 3) as u32),
                    13..=16 => Gap::Burn { leave: 0 },
                    17..=18 => Gap::Burn { leave: 1 },
                    _ => Gap::Burn { leave: 2 },
                }
            };
            v.push((gap, g.op(&mut r)));
        }
        tasks.push(v);
    }
    ConcPlan { hseed, k, setup, tasks }
}
