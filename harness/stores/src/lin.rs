//! WGL-style linearizability search against the nondeterministic sequential model.

use crate::model::{MState, Op, Relax, Res, step, target_class};
use std::collections::HashSet;

#[derive(Clone, Debug)]
pub struct Ev {
    /// -1: issued by the driver before/after the concurrent phase
    pub task: i32,
    pub op: Op,
    pub res: Res,
    pub t0: u64,
    pub t1: u64,
}

#[derive(Debug)]
pub enum LinOutcome {
    Linearizable { order: Vec<usize> },
    NotLinearizable { deepest: usize, stuck: String },
    Timeout,
}

struct Search<'a> {
    evs: &'a [Ev],
    k: usize,
    relax: Relax,
    memo: HashSet<(u32, MState)>,
    nodes: u64,
    budget: u64,
    timed_out: bool,
    deepest: usize,
    stuck: String,
    order: Vec<usize>,
}

impl Search<'_> {
    fn dfs(&mut self, mask: u32, st: &MState) -> bool {
        let n = self.evs.len();
        let full: u32 = if n == 32 { u32::MAX } else { (1u32 << n) - 1 };
        if mask == full {
            return true;
        }
        if self.memo.contains(&(mask, st.clone())) {
            return false;
        }
        self.nodes += 1;
        if self.nodes > self.budget {
            self.timed_out = true;
            return false;
        }
        let mut min_ret = u64::MAX;
        for i in 0..n {
            if mask & (1 << i) == 0 {
                min_ret = min_ret.min(self.evs[i].t1);
            }
        }
        let mut locally_stuck: Option<String> = None;
        let mut any_succ = false;
        for i in 0..n {
            if mask & (1 << i) != 0 {
                continue;
            }
            // candidate iff no other pending operation returned before this one was called
            // (ties count as concurrent)
            if self.evs[i].t0 > min_ret {
                continue;
            }
            let succ = step(st, &self.evs[i].op, &self.evs[i].res, self.k, self.relax);
            if succ.is_empty() {
                if locally_stuck.is_none() {
                    let cls = target_class(std::slice::from_ref(st), &self.evs[i].op, self.k);
                    locally_stuck = Some(format!("{}_on_{}_returned_{}", self.evs[i].op.kind(), cls, self.evs[i].res.class()));
                }
                continue;
            }
            any_succ = true;
            for ns in succ {
                self.order.push(i);
                if self.dfs(mask | (1 << i), &ns) {
                    return true;
                }
                self.order.pop();
                if self.timed_out {
                    return false;
                }
            }
        }
        let depth = mask.count_ones() as usize;
        if !any_succ && depth >= self.deepest {
            self.deepest = depth;
            if let Some(s) = locally_stuck {
                self.stuck = s;
            }
        }
        self.memo.insert((mask, st.clone()));
        false
    }
}

pub fn check(evs: &[Ev], k: usize, relax: Relax, budget: u64) -> LinOutcome {
    assert!(evs.len() <= 24);
    let mut s = Search {
        evs,
        k,
        relax,
        memo: HashSet::new(),
        nodes: 0,
        budget,
        timed_out: false,
        deepest: 0,
        stuck: String::new(),
        order: Vec::new(),
    };
    let ok = s.dfs(0, &MState::new());
    if ok {
        LinOutcome::Linearizable { order: s.order }
    } else if s.timed_out {
        LinOutcome::Timeout
    } else {
        LinOutcome::NotLinearizable { deepest: s.deepest, stuck: s.stuck }
    }
}

/// Maximum number of simultaneously open call intervals.
pub fn max_concurrency(evs: &[Ev]) -> usize {
    let mut pts: Vec<(u64, i32)> = Vec::new();
    for e in evs {
        pts.push((e.t0, 1));
        pts.push((e.t1, -1));
    }
    // close before open on ties: only strict overlap is counted
    pts.sort_by(|a, b| a.0.cmp(&b.0).then(a.1.cmp(&b.1)));
    let (mut cur, mut best) = (0i32, 0i32);
    for (_, d) in pts {
        cur += d;
        best = best.max(cur);
    }
    best as usize
}

pub fn overlaps(a: &Ev, b: &Ev) -> bool {
    a.t0 < b.t1 && b.t0 < a.t1
}
