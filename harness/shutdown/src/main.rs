//! C16 - graceful shutdown drains in-flight requests and stops accepting new ones.
//!
//! The real `pavex::server::Server` is started on 127.0.0.1:0 with a handler whose behaviour is chosen per
//! request by a header; blocking clients on threads open connections in phases around a seeded call of
//! `ServerHandle::shutdown`; the `pavex_verif` hooks of `pavex::server::verif` give one totally ordered log
//! of acceptor / worker / handler / client events plus seeded stalls at three delay points.
//! The oracle (fn `evaluate`) decides on the order of logged events only; clocks are used for the
//! "timeout branch" with 3x padding and a load probe, and anything a watchdog cut short is inconclusive.
//!
//! argv: --seed N --tier quick|thorough [--budget-s S] [--shards K] [--runs R] [--shard I] [--replay FILE]
//! One process runs its servers one after the other (the event log is process wide); the parent process
//! forks K shard processes of itself and relays their records.

mod oracle;
mod plan;

use std::io::{Read, Write};
use std::net::{SocketAddr, TcpStream};
use std::sync::atomic::{AtomicBool, AtomicU64, Ordering};
use std::sync::{Arc, Condvar, Mutex};
use std::time::{Duration, Instant};

use pavex::server::verif::{self, Event};
use pavex::server::{IncomingStream, Server, ServerConfiguration, ShutdownMode};
use serde_json::{Value, json};

use plan::{ConnSpec, Plan, ReqSpec, gen_plan, mix};

pub const LONG_MS: u64 = 3000;
const WATCHDOG: Duration = Duration::from_secs(20);
const CLIENT_READ_DEADLINE: Duration = Duration::from_secs(15);

// ------------------------------------------------------------------------------------------- handler

async fn handler(
    req: http::Request<hyper::body::Incoming>,
    conn: Option<pavex::connection::ConnectionInfo>,
    _state: (),
) -> pavex::Response {
    let hdr = |n: &str| req.headers().get(n).and_then(|v| v.to_str().ok()).unwrap_or("").to_string();
    let id: u64 = hdr("x-req").parse().unwrap_or(0);
    let kind = hdr("x-kind");
    let port = conn.map(|c| c.peer_addr().port()).unwrap_or(0);
    verif::event("h_enter", id, port);
    let ms: u64 = kind.get(1..).and_then(|s| s.parse().ok()).unwrap_or(0);
    match kind.as_bytes().first() {
        Some(b's') => tokio::time::sleep(Duration::from_millis(ms)).await,
        Some(b'b') => std::thread::sleep(Duration::from_millis(ms)),
        _ => {}
    }
    verif::event("h_done", id, 0u64);
    pavex::Response::ok().set_typed_body(format!("r={id}"))
}

// ------------------------------------------------------------------------------------------- clients

#[derive(Clone, Debug)]
pub enum Outcome {
    Complete,
    Malformed(String),
    Eof(usize),
    Reset(usize),
    IoErr(String),
    ReadTimeout(usize),
    OpenAtEnd(usize),
    WriteFailed(String),
    NotSent,
}

impl Outcome {
    pub fn code(&self) -> u64 {
        match self {
            Outcome::Complete => 0,
            Outcome::Malformed(_) => 1,
            Outcome::Eof(_) => 2,
            Outcome::Reset(_) => 3,
            Outcome::IoErr(_) => 4,
            Outcome::ReadTimeout(_) => 5,
            Outcome::OpenAtEnd(_) => 6,
            Outcome::WriteFailed(_) => 7,
            Outcome::NotSent => 8,
        }
    }
    pub fn name(&self) -> &'static str {
        ["complete", "malformed", "eof", "reset", "io_error", "read_timeout", "open_at_end", "write_failed", "not_sent"]
            [self.code() as usize]
    }
}

#[derive(Clone, Debug)]
pub enum Connect {
    NotAttempted,
    Refused,
    Failed(String),
    Ok(u16),
}

#[derive(Clone, Debug)]
pub struct ConnResult {
    pub idx: usize,
    pub connect: Connect,
    pub reqs: Vec<(u64, Outcome)>,
    /// how the connection ended after the last response, when the client lingered: eof / reset / open
    pub end: &'static str,
}

struct Shared {
    t0: Instant,
    addrs: Vec<SocketAddr>,
    /// None: not known yet; Some(None): the shutdown future never resolved; Some(Some(t)): resolved at t
    resolved: Mutex<Option<Option<Instant>>>,
    resolved_cv: Condvar,
    stop: AtomicBool,
}

fn sleep_until(t: Instant) {
    let now = Instant::now();
    if t > now {
        std::thread::sleep(t - now);
    }
}

/// Some(Ok(consumed)) complete and well formed, Some(Err(why)) complete enough to be judged malformed, None: need more
fn parse_response(buf: &[u8], expect_body: &str) -> Option<Result<usize, String>> {
    let head_end = buf.windows(4).position(|w| w == b"\r\n\r\n")?;
    let head = match std::str::from_utf8(&buf[..head_end]) {
        Ok(h) => h,
        Err(_) => return Some(Err("head is not utf-8".into())),
    };
    let mut lines = head.split("\r\n");
    let status = lines.next().unwrap_or("");
    if !status.starts_with("HTTP/1.1 200") {
        return Some(Err(format!("status line {status:?}")));
    }
    let mut cl: Option<usize> = None;
    for l in lines {
        let Some((n, v)) = l.split_once(':') else { return Some(Err(format!("header line {l:?}"))) };
        if n.eq_ignore_ascii_case("content-length") {
            match v.trim().parse() {
                Ok(x) => cl = Some(x),
                Err(_) => return Some(Err(format!("content-length {v:?}"))),
            }
        }
    }
    let Some(cl) = cl else { return Some(Err("no content-length".into())) };
    let body_start = head_end + 4;
    if buf.len() < body_start + cl {
        return None;
    }
    let body = &buf[body_start..body_start + cl];
    if body != expect_body.as_bytes() {
        return Some(Err(format!("body {:?}", String::from_utf8_lossy(body))));
    }
    Some(Ok(body_start + cl))
}

/// Read with a short socket timeout in a loop, so that the `stop` flag and the deadline are honoured.
/// Returns Ok(n) (0 = EOF), Err(kind) for the terminal conditions.
enum ReadEnd {
    Eof,
    Reset,
    Io(String),
    Deadline,
    Stopped,
}

fn read_some(s: &mut TcpStream, buf: &mut Vec<u8>, deadline: Instant, sh: &Shared) -> Result<(), ReadEnd> {
    let mut tmp = [0u8; 2048];
    let mut stopped_since: Option<Instant> = None;
    loop {
        match s.read(&mut tmp) {
            Ok(0) => return Err(ReadEnd::Eof),
            Ok(n) => {
                buf.extend_from_slice(&tmp[..n]);
                return Ok(());
            }
            Err(e) => match e.kind() {
                std::io::ErrorKind::WouldBlock | std::io::ErrorKind::TimedOut | std::io::ErrorKind::Interrupted => {
                    if Instant::now() >= deadline {
                        return Err(ReadEnd::Deadline);
                    }
                    if sh.stop.load(Ordering::SeqCst) {
                        let since = *stopped_since.get_or_insert_with(Instant::now);
                        if since.elapsed() > Duration::from_millis(300) {
                            return Err(ReadEnd::Stopped);
                        }
                    }
                }
                std::io::ErrorKind::ConnectionReset | std::io::ErrorKind::ConnectionAborted | std::io::ErrorKind::BrokenPipe => {
                    return Err(ReadEnd::Reset);
                }
                _ => return Err(ReadEnd::Io(e.to_string())),
            },
        }
    }
}

fn request_bytes(r: &ReqSpec) -> Vec<u8> {
    let mut s = format!("GET /r/{} HTTP/1.1\r\nhost: c16\r\nx-req: {}\r\nx-kind: {}\r\n", r.id, r.id, r.hk.wire());
    if r.close {
        s.push_str("connection: close\r\n");
    }
    s.push_str("\r\n");
    s.into_bytes()
}

fn client(spec: ConnSpec, sh: Arc<Shared>) -> ConnResult {
    let mut res = ConnResult {
        idx: spec.idx,
        connect: Connect::NotAttempted,
        reqs: spec.reqs.iter().map(|r| (r.id, Outcome::NotSent)).collect(),
        end: "n/a",
    };
    if spec.after_resolution {
        let mut g = sh.resolved.lock().unwrap();
        while g.is_none() {
            g = sh.resolved_cv.wait(g).unwrap();
        }
        match *g {
            Some(Some(t)) => {
                drop(g);
                sleep_until(t + Duration::from_millis(spec.connect_at_ms));
            }
            _ => return res,
        }
    } else {
        sleep_until(sh.t0 + Duration::from_millis(spec.connect_at_ms));
    }
    verif::event("c_connect_begin", spec.idx, 0u64);
    let mut s = match TcpStream::connect_timeout(&sh.addrs[spec.idx % sh.addrs.len()], Duration::from_secs(3)) {
        Ok(s) => s,
        Err(e) => {
            let refused = e.kind() == std::io::ErrorKind::ConnectionRefused;
            verif::event("c_connect_failed", spec.idx, refused);
            res.connect = if refused { Connect::Refused } else { Connect::Failed(e.to_string()) };
            return res;
        }
    };
    let port = s.local_addr().map(|a| a.port()).unwrap_or(0);
    verif::event("c_connected", spec.idx, port);
    res.connect = Connect::Ok(port);
    let _ = s.set_nodelay(true);
    let _ = s.set_read_timeout(Some(Duration::from_millis(100)));
    let _ = s.set_write_timeout(Some(Duration::from_secs(5)));
    let mut buf: Vec<u8> = Vec::new();
    let mut alive = true;
    for (k, r) in spec.reqs.iter().enumerate() {
        if !spec.after_resolution {
            sleep_until(sh.t0 + Duration::from_millis(r.at_ms));
        }
        let bytes = request_bytes(r);
        let wrote = match r.split_at_ms {
            None => s.write_all(&bytes),
            Some(second_at) => {
                let cut = bytes.len() / 2;
                s.write_all(&bytes[..cut]).and_then(|_| {
                    sleep_until(sh.t0 + Duration::from_millis(second_at));
                    s.write_all(&bytes[cut..])
                })
            }
        };
        if let Err(e) = wrote {
            res.reqs[k].1 = Outcome::WriteFailed(e.to_string());
            verif::event("c_resp", r.id, res.reqs[k].1.code());
            alive = false;
            break;
        }
        verif::event("c_written", r.id, 0u64);
        let deadline = Instant::now() + CLIENT_READ_DEADLINE;
        let expect = format!("r={}", r.id);
        let outcome = loop {
            match parse_response(&buf, &expect) {
                Some(Ok(n)) => {
                    buf.drain(..n);
                    break Outcome::Complete;
                }
                Some(Err(why)) => break Outcome::Malformed(why),
                None => {}
            }
            match read_some(&mut s, &mut buf, deadline, &sh) {
                Ok(()) => {}
                Err(ReadEnd::Eof) => break Outcome::Eof(buf.len()),
                Err(ReadEnd::Reset) => break Outcome::Reset(buf.len()),
                Err(ReadEnd::Io(e)) => break Outcome::IoErr(e),
                Err(ReadEnd::Deadline) => break Outcome::ReadTimeout(buf.len()),
                Err(ReadEnd::Stopped) => break Outcome::OpenAtEnd(buf.len()),
            }
        };
        verif::event("c_resp", r.id, outcome.code());
        let ok = matches!(outcome, Outcome::Complete);
        res.reqs[k].1 = outcome;
        if !ok {
            alive = false;
            break;
        }
    }
    if alive {
        // linger: see how (and that) the server ends the connection
        let deadline = Instant::now() + CLIENT_READ_DEADLINE;
        res.end = loop {
            match read_some(&mut s, &mut buf, deadline, &sh) {
                Ok(()) => {}
                Err(ReadEnd::Eof) => break "eof",
                Err(ReadEnd::Reset) | Err(ReadEnd::Io(_)) => break "reset",
                Err(ReadEnd::Deadline) | Err(ReadEnd::Stopped) => break "open",
            }
        };
        verif::event("c_end", spec.idx, 0u64);
    }
    res
}

// ------------------------------------------------------------------------------------------- one run

static MAX_LAG_US: AtomicU64 = AtomicU64::new(0);
/// Every shard process has its own loopback address, so that a port freed by one shard and bound again by
/// another one can never make a probe of the first shard reach a foreign listener.
static SHARD: AtomicU64 = AtomicU64::new(0);
static PANICS: Mutex<Vec<(String, String)>> = Mutex::new(Vec::new());

pub struct RunRecord {
    pub events: Vec<Event>,
    pub results: Vec<ConnResult>,
    pub resolved: bool,
    pub handle_resolved: bool,
    pub workers_exited: bool,
    pub lag_ms: u64,
    pub panics: Vec<(String, String)>,
    pub setup_error: Option<String>,
}

fn run_one(rt: &tokio::runtime::Runtime, plan: &Plan) -> RunRecord {
    let mut rec = RunRecord {
        events: Vec::new(),
        results: Vec::new(),
        resolved: false,
        handle_resolved: false,
        workers_exited: false,
        lag_ms: 0,
        panics: Vec::new(),
        setup_error: None,
    };
    let _ = verif::take_events();
    verif::install_plan(plan.delays.clone());
    PANICS.lock().unwrap().clear();
    let own = format!("127.0.0.{}:0", 2 + SHARD.load(Ordering::SeqCst) % 250);
    let mut std_listeners = Vec::new();
    for _ in 0..plan.listeners.max(1) {
        match std::net::TcpListener::bind(own.as_str()).or_else(|_| std::net::TcpListener::bind("127.0.0.1:0")) {
            Ok(l) => std_listeners.push(l),
            Err(e) => {
                rec.setup_error = Some(format!("bind: {e}"));
                return rec;
            }
        }
    }
    let addrs: Vec<SocketAddr> = std_listeners.iter().map(|l| l.local_addr().unwrap()).collect();
    let handle = {
        let _g = rt.enter();
        let cfg = ServerConfiguration::new().set_n_workers(plan.workers);
        let mut server = Server::new().set_config(cfg);
        for listener in std_listeners {
            let incoming: IncomingStream = match listener.try_into() {
                Ok(i) => i,
                Err(e) => {
                    rec.setup_error = Some(format!("incoming: {e}"));
                    return rec;
                }
            };
            server = server.listen(incoming);
        }
        server.serve(handler, ())
    };
    MAX_LAG_US.store(0, Ordering::SeqCst);
    verif::event("run_begin", plan.workers, 0u64);
    let sh = Arc::new(Shared {
        t0: Instant::now(),
        addrs,
        resolved: Mutex::new(None),
        resolved_cv: Condvar::new(),
        stop: AtomicBool::new(false),
    });
    let mut threads = Vec::new();
    for c in &plan.conns {
        let (c, sh2) = (c.clone(), sh.clone());
        let t = std::thread::Builder::new().name("c16-client".into()).stack_size(128 * 1024).spawn(move || client(c, sh2));
        threads.push(t.expect("spawn client"));
    }
    let h2 = handle.clone();
    let awaiter = rt.spawn(async move {
        h2.await;
        verif::event("handle_resolved", 0u64, 0u64);
    });
    let mode_of = |plan: &Plan| match plan.timeout_ms {
        Some(ms) => ShutdownMode::Graceful { timeout: plan::timeout_duration(ms) },
        None => ShutdownMode::Forced,
    };
    let second = plan.second_call_after_ms.map(|d| {
        let (h3, at, mode2) = (handle.clone(), sh.t0 + Duration::from_millis(plan.call_at_ms + d), mode_of(plan));
        rt.spawn(async move {
            tokio::time::sleep_until(tokio::time::Instant::from_std(at)).await;
            verif::event("shutdown2_called", 0u64, 0u64);
            h3.shutdown(mode2).await;
            verif::event("shutdown2_resolved", 0u64, 0u64);
        })
    });
    sleep_until(sh.t0 + Duration::from_millis(plan.call_at_ms));
    let mode = mode_of(plan);
    let wd = WATCHDOG + Duration::from_millis(plan.timeout_ms.unwrap_or(0).min(5_000));
    verif::event("shutdown_called", 0u64, 0u64);
    rec.resolved = rt.block_on(async { tokio::time::timeout(wd, handle.shutdown(mode)).await.is_ok() });
    if rec.resolved {
        verif::event("shutdown_resolved", 0u64, 0u64);
    }
    *sh.resolved.lock().unwrap() = Some(rec.resolved.then(Instant::now));
    sh.resolved_cv.notify_all();
    rec.handle_resolved = rt.block_on(async { tokio::time::timeout(wd, awaiter).await.is_ok() });
    if let Some(t) = second {
        let _ = rt.block_on(async { tokio::time::timeout(wd, t).await });
    }
    // the workers outlive the coordinator (their own timeout starts later, or they are blocked): wait for them,
    // so that this run's log is complete and does not leak into the next run's
    let t_wait = Instant::now();
    loop {
        rec.events.extend(verif::take_events());
        let exits = rec.events.iter().filter(|e| e.kind == "worker_exit").count();
        let closed = rec.events.iter().filter(|e| e.kind == "listener_closed").count() >= plan.listeners.max(1);
        if exits >= plan.workers && closed {
            rec.workers_exited = true;
            break;
        }
        if t_wait.elapsed() > WATCHDOG {
            break;
        }
        std::thread::sleep(Duration::from_millis(3));
    }
    // the "after" clients may still be on their way
    let after_grace = plan.conns.iter().filter(|c| c.after_resolution).map(|c| c.connect_at_ms).max().unwrap_or(0);
    if rec.resolved {
        sleep_until(sh.resolved.lock().unwrap().unwrap().unwrap() + Duration::from_millis(after_grace + 30));
    }
    sh.stop.store(true, Ordering::SeqCst);
    for t in threads {
        match t.join() {
            Ok(r) => rec.results.push(r),
            Err(_) => rec.setup_error = Some("a client thread panicked".into()),
        }
    }
    rec.events.extend(verif::take_events());
    verif::install_plan(Vec::new());
    rec.lag_ms = MAX_LAG_US.load(Ordering::SeqCst) / 1000;
    rec.panics = std::mem::take(&mut *PANICS.lock().unwrap());
    rec
}

// ------------------------------------------------------------------------------------------- driver

#[derive(Clone)]
struct Cfg {
    seed: u64,
    thorough: bool,
    budget_s: u64,
    shards: u64,
    runs: u64,
    shard: Option<u64>,
    replay: Option<String>,
}

fn parse_args() -> Cfg {
    let mut c = Cfg { seed: 1, thorough: false, budget_s: 0, shards: 0, runs: 0, shard: None, replay: None };
    let a: Vec<String> = std::env::args().skip(1).collect();
    let mut i = 0;
    while i + 1 < a.len() {
        let v = &a[i + 1];
        match a[i].as_str() {
            "--seed" => c.seed = v.parse().expect("seed"),
            "--tier" => c.thorough = v == "thorough",
            "--budget-s" => c.budget_s = v.parse().expect("budget"),
            "--shards" => c.shards = v.parse().expect("shards"),
            "--runs" => c.runs = v.parse().expect("runs"),
            "--shard" => c.shard = Some(v.parse().expect("shard")),
            "--replay" => c.replay = Some(v.clone()),
            other => panic!("unknown argument {other}"),
        }
        i += 2;
    }
    if c.shards == 0 {
        c.shards = if c.thorough { 12 } else { 8 };
    }
    if c.runs == 0 {
        c.runs = if c.thorough { 300 } else { 10 };
    }
    if c.budget_s == 0 {
        c.budget_s = if c.thorough { 560 } else { 45 };
    }
    c
}

fn install_probes() {
    std::panic::set_hook(Box::new(|info| {
        let th = std::thread::current().name().unwrap_or("?").to_string();
        let msg = info
            .payload()
            .downcast_ref::<&str>()
            .map(|s| s.to_string())
            .or_else(|| info.payload().downcast_ref::<String>().cloned())
            .unwrap_or_else(|| "?".into());
        let loc = info.location().map(|l| format!("{}:{}", l.file(), l.line())).unwrap_or_default();
        if let Ok(mut p) = PANICS.lock() {
            p.push((th, format!("{msg} @ {loc}")));
        }
    }));
    std::thread::Builder::new()
        .name("c16-heartbeat".into())
        .spawn(|| {
            loop {
                let t = Instant::now();
                std::thread::sleep(Duration::from_millis(5));
                let lag = t.elapsed().saturating_sub(Duration::from_millis(5)).as_micros() as u64;
                MAX_LAG_US.fetch_max(lag, Ordering::SeqCst);
            }
        })
        .expect("heartbeat");
}

fn emit(v: Value) {
    let mut out = std::io::stdout().lock();
    let _ = writeln!(out, "{v}");
    let _ = out.flush();
}

fn shard_main(cfg: &Cfg, shard: u64, hseeds: Option<Vec<u64>>) {
    install_probes();
    SHARD.store(shard, Ordering::SeqCst);
    let rt = tokio::runtime::Builder::new_multi_thread()
        .worker_threads(2)
        .thread_name("c16-rt")
        .enable_all()
        .build()
        .expect("runtime");
    let t_start = Instant::now();
    let mut stats = oracle::Stats::default();
    let seeds: Vec<u64> = hseeds.unwrap_or_else(|| (0..cfg.runs).map(|i| mix(cfg.seed, shard, i)).collect());
    for hseed in seeds {
        if t_start.elapsed().as_secs() >= cfg.budget_s {
            stats.budget_stops += 1;
            break;
        }
        let plan = gen_plan(hseed);
        let rec = match std::panic::catch_unwind(std::panic::AssertUnwindSafe(|| run_one(&rt, &plan))) {
            Ok(r) => r,
            Err(_) => {
                let p = std::mem::take(&mut *PANICS.lock().unwrap());
                emit(json!({"kind":"violation","sig":{"kind":"panic","where":"calling thread"},
                    "detail":{"hseed":hseed,"panics":p,"plan":plan.to_json()}}));
                continue;
            }
        };
        let abandoned = !rec.workers_exited;
        oracle::evaluate(&plan, &rec, &mut stats);
        if abandoned {
            // threads of this server may still be writing to the process-wide log: stop this shard here
            emit(json!({"kind":"inconclusive","what":"a server did not wind down within the watchdog; shard stopped early",
                "detail":{"hseed":hseed}}));
            break;
        }
    }
    for (sig, detail) in stats.violations.drain(..) {
        emit(json!({"kind":"violation","sig":sig,"detail":detail}));
    }
    for (what, detail) in stats.inconclusive.drain(..) {
        emit(json!({"kind":"inconclusive","what":what,"detail":detail}));
    }
    emit(stats.summary());
}

fn parent_main(cfg: &Cfg) {
    let exe = std::env::current_exe().expect("current_exe");
    let mut children = Vec::new();
    for shard in 0..cfg.shards {
        let child = std::process::Command::new(&exe)
            .args(["--seed", &cfg.seed.to_string(), "--tier", if cfg.thorough { "thorough" } else { "quick" }])
            .args(["--budget-s", &cfg.budget_s.to_string(), "--runs", &cfg.runs.to_string()])
            .args(["--shard", &shard.to_string()])
            .stdin(std::process::Stdio::null())
            .stdout(std::process::Stdio::piped())
            .stderr(std::process::Stdio::inherit())
            .spawn();
        children.push((shard, child));
    }
    for (shard, child) in children {
        let out = child.and_then(|c| c.wait_with_output());
        match out {
            Ok(o) => {
                let text = String::from_utf8_lossy(&o.stdout);
                let mut saw_summary = false;
                for line in text.lines().filter(|l| l.starts_with('{')) {
                    saw_summary |= line.contains("\"kind\":\"summary\"");
                    println!("{line}");
                }
                if !saw_summary {
                    emit(json!({"kind":"inconclusive","what":"a shard process ended without a summary",
                        "detail":{"shard":shard,"status":format!("{:?}", o.status)}}));
                }
            }
            Err(e) => emit(json!({"kind":"inconclusive","what":"a shard process could not be run","detail":{"shard":shard,"error":e.to_string()}})),
        }
    }
    // an (empty) summary of the parent itself, so that the protocol's "exit 0 with a summary" holds even if all shards died
    emit(json!({"kind":"summary","evaluations":0,"shards":cfg.shards}));
}

fn main() {
    let cfg = parse_args();
    if let Some(file) = &cfg.replay {
        let text = std::fs::read_to_string(file).expect("replay file");
        let j: Value = serde_json::from_str(&text).expect("replay json");
        let hseed = j["detail"]["hseed"].as_u64().expect("detail.hseed");
        // schedules are not reproducible: run the same plan several times
        shard_main(&cfg, 0, Some(vec![hseed; 12]));
    } else if let Some(shard) = cfg.shard {
        shard_main(&cfg, shard, None);
    } else {
        parent_main(&cfg);
    }
}
