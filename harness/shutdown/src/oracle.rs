//! The oracle of C16: decides on the order of the logged events (see the rule numbers in the comments).
use std::collections::{BTreeMap, BTreeSet, HashMap};

use pavex::server::verif::Event;
use serde_json::{Value, json};

use crate::plan::{HK, POINTS, P_ACCEPTOR, Plan};
use crate::{Connect, Outcome, RunRecord};

#[derive(Default)]
pub struct Stats {
    pub runs: u64,
    pub runs_nontrivial: u64,
    pub connections: u64,
    pub requests: u64,
    pub budget_stops: u64,
    pub maps: BTreeMap<&'static str, BTreeMap<String, u64>>,
    pub counters: BTreeMap<&'static str, u64>,
    pub maxima: BTreeMap<&'static str, u64>,
    pub distinct: BTreeSet<String>,
    pub samples: Vec<Value>,
    pub violations: Vec<(Value, Value)>,
    pub inconclusive: Vec<(String, Value)>,
}

impl Stats {
    fn bump(&mut self, map: &'static str, key: impl Into<String>) {
        *self.maps.entry(map).or_default().entry(key.into()).or_insert(0) += 1;
    }
    fn count(&mut self, c: &'static str, n: u64) {
        *self.counters.entry(c).or_insert(0) += n;
    }
    fn maxi(&mut self, c: &'static str, v: u64) {
        let e = self.maxima.entry(c).or_insert(0);
        *e = (*e).max(v);
    }
    fn violation(&mut self, sig: Value, detail: Value) {
        // every instance is counted; two witnesses per signature and shard are written out in full
        let key = sig.to_string();
        let n = self.maps.entry("violations_by_signature").or_default().entry(key).or_insert(0);
        *n += 1;
        if *n <= 2 {
            self.violations.push((sig, detail));
        }
    }
    fn inconc(&mut self, what: &str, detail: Value) {
        if self.inconclusive.len() < 50 {
            self.inconclusive.push((what.to_string(), detail));
        }
        self.count("inconclusive_verdicts", 1);
    }
    pub fn summary(&self) -> Value {
        let mut s = json!({
            "kind": "summary", "evaluations": self.runs, "runs_nontrivial": self.runs_nontrivial,
            "connections": self.connections, "requests": self.requests, "budget_stops": self.budget_stops,
            "distinct_keys": self.distinct.iter().take(20_000).collect::<Vec<_>>(),
            "samples": self.samples,
        });
        let o = s.as_object_mut().unwrap();
        for (k, m) in &self.maps {
            o.insert(k.to_string(), json!(m));
        }
        for (k, v) in &self.counters {
            o.insert(k.to_string(), json!(v));
        }
        // maxima must not be summed by the merge on the Python side: they travel as a map of "max_*" -> value
        o.insert("maxima".into(), json!(self.maxima));
        s
    }
}

#[derive(Clone, Copy)]
struct At {
    seq: u64,
    t: u64,
}

fn at(e: &Event) -> At {
    At { seq: e.seq, t: e.t_us }
}

fn fnv(s: &str) -> String {
    let mut h: u64 = 0xcbf2_9ce4_8422_2325;
    for b in s.bytes() {
        h ^= b as u64;
        h = h.wrapping_mul(0x0000_0100_0000_01B3);
    }
    format!("{h:016x}")
}

fn ev_json(e: &Event) -> Value {
    json!([e.seq, e.t_us, e.kind, e.who, e.arg])
}

pub fn evaluate(plan: &Plan, rec: &RunRecord, st: &mut Stats) {
    st.runs += 1;
    let base = json!({"hseed": plan.hseed, "plan": plan.brief(), "lag_ms": rec.lag_ms});
    let with = |extra: Value| -> Value {
        let mut b = base.clone();
        for (k, v) in extra.as_object().unwrap() {
            b[k] = v.clone();
        }
        b
    };
    // rule 0: panics of the code under test
    for (thread, msg) in &rec.panics {
        if thread.starts_with("c16-") {
            st.inconc("a harness thread panicked", with(json!({"thread": thread, "msg": msg})));
        } else {
            let short: String = msg.chars().take(90).collect();
            st.violation(json!({"kind": "panic", "thread": thread.trim_end_matches(char::is_numeric), "msg": short}),
                with(json!({"thread": thread, "msg": msg, "full_plan": plan.to_json()})));
        }
    }
    if let Some(e) = &rec.setup_error {
        st.inconc("the run could not be set up", with(json!({"error": e})));
        return;
    }
    let ev = &rec.events;
    let graceful = plan.timeout_ms.is_some();
    let t_ms = plan.timeout_ms.unwrap_or(0);

    // ---- index the log
    let one = |kind: &str| ev.iter().find(|e| e.kind == kind).map(at);
    let s_c = one("shutdown_called");
    let s_a = one("acceptor_shutdown_received");
    let s_r = one("shutdown_resolved");
    let told = one("workers_told");
    let c_e = one("coordinator_end");
    let mut port_of: HashMap<usize, u64> = HashMap::new();
    let mut conn_of: HashMap<u64, usize> = HashMap::new();
    let mut dup_port = false;
    for r in &rec.results {
        if let Connect::Ok(p) = r.connect {
            port_of.insert(r.idx, p as u64);
            dup_port |= conn_of.insert(p as u64, r.idx).is_some();
        }
    }
    if dup_port {
        st.inconc("two connections of one run had the same client port", base.clone());
        return;
    }
    let (mut took, mut busy, mut started, mut drained) = (HashMap::new(), HashMap::new(), HashMap::new(), HashMap::new());
    let mut disp: HashMap<u64, (u64, At)> = HashMap::new();
    let mut connect_begin: HashMap<u64, At> = HashMap::new();
    let mut accepted: HashMap<u64, At> = HashMap::new();
    let (mut w_recv, mut gw_begin, mut w_exit) = (HashMap::new(), HashMap::new(), HashMap::new());
    let mut gw_end: HashMap<u64, (At, bool)> = HashMap::new();
    let (mut enter, mut done, mut written, mut resp): (HashMap<u64, (At, u64)>, HashMap<u64, At>, HashMap<u64, At>, HashMap<u64, At>) = Default::default();
    let mut fired: Vec<&Event> = Vec::new();
    for e in ev {
        match e.kind {
            "accepted" => drop(accepted.entry(e.who).or_insert(at(e))),
            "acceptor_took_connection" => drop(took.entry(e.who).or_insert(at(e))),
            "dropped_all_workers_busy" => drop(busy.entry(e.who).or_insert(at(e))),
            "dispatched" => drop(disp.entry(e.arg).or_insert((e.who, at(e)))),
            "conn_started" => drop(started.entry(e.arg).or_insert((e.who, at(e)))),
            "conn_drained" => drop(drained.entry(e.arg).or_insert((e.who, at(e)))),
            "worker_shutdown_received" => drop(w_recv.entry(e.who).or_insert(at(e))),
            "graceful_wait_begin" => drop(gw_begin.entry(e.who).or_insert(at(e))),
            "graceful_wait_end" => drop(gw_end.entry(e.who).or_insert((at(e), e.arg != 0))),
            "worker_exit" => drop(w_exit.entry(e.who).or_insert(at(e))),
            "h_enter" => drop(enter.entry(e.who).or_insert((at(e), e.arg))),
            "h_done" => drop(done.entry(e.who).or_insert(at(e))),
            "c_written" => drop(written.entry(e.who).or_insert(at(e))),
            "c_resp" => drop(resp.entry(e.who).or_insert(at(e))),
            "c_connect_begin" => drop(connect_begin.entry(e.who).or_insert(at(e))),
            k if POINTS.contains(&k) => fired.push(e),
            _ => {}
        }
    }
    for e in &fired {
        st.bump("delay_points_fired", format!("{}{}", e.kind, if e.kind == P_ACCEPTOR { "" } else if e.arg == 0 { "/yield" } else { "" }));
    }
    let events_about = |port: Option<u64>, reqs: &[u64]| -> Vec<Value> {
        ev.iter()
            .filter(|e| match e.kind {
                "accepted" | "acceptor_took_connection" | "dropped_all_workers_busy" => Some(e.who) == port,
                "dispatched" | "conn_started" | "conn_drained" => Some(e.arg) == port,
                "h_enter" | "h_done" | "c_written" | "c_resp" => reqs.contains(&e.who),
                "c_connect_begin" | "c_connected" | "c_connect_failed" | "c_end" | "run_begin" => false,
                _ => true,
            })
            .take(80)
            .map(ev_json)
            .collect()
    };

    // ---- rule 4: the shutdown future and the awaited clone of the handle resolve
    let calm = rec.lag_ms < 100;
    if !rec.resolved {
        let all_exited = w_exit.len() >= plan.workers;
        if (all_exited || c_e.is_some()) && calm {
            st.violation(json!({"rule": "shutdown_future_never_resolved", "mode": plan.mode(), "class": if c_e.is_some() { "coordinator_ended" } else { "all_workers_exited" }}),
                with(json!({"events": events_about(None, &[]), "full_plan": plan.to_json()})));
        } else {
            st.inconc("the shutdown future did not resolve within the watchdog", with(json!({"events": events_about(None, &[])})));
        }
        return;
    }
    st.count("rule4_shutdown_resolved", 1);
    if !rec.handle_resolved {
        if c_e.is_some() && calm {
            st.violation(json!({"rule": "handle_await_never_resolved", "mode": plan.mode()}), with(json!({"events": events_about(None, &[]), "full_plan": plan.to_json()})));
        } else {
            st.inconc("awaiting the handle did not resolve within the watchdog", base.clone());
        }
    } else {
        st.count("rule4_handle_await_resolved", 1);
    }
    let (Some(s_c), Some(s_a), Some(s_r), Some(told), Some(c_e)) = (s_c, s_a, s_r, told, c_e) else {
        st.inconc("the log lacks a coordinator event although the shutdown resolved", with(json!({"events": events_about(None, &[])})));
        return;
    };
    if !rec.workers_exited {
        st.inconc("a worker or the listener did not wind down within the watchdog", with(json!({"events": events_about(None, &[])})));
    }
    let coord_ms = c_e.t.saturating_sub(told.t) / 1000;
    let worker_timed_out = gw_end.values().any(|(a, to)| *to && a.seq < c_e.seq);
    let timeout_branch = graceful && (coord_ms + 25 >= t_ms || worker_timed_out);
    st.maxi("max_coordinator_wait_ms", coord_ms);
    if let Some(ld) = one("listeners_dropped") {
        if w_recv.values().all(|w| ld.seq < w.seq) {
            st.count("listeners_dropped_before_any_worker_was_told", 1);
        }
    }
    if one("listener_closed").is_some_and(|lc| lc.seq < s_r.seq) {
        st.count("listener_closed_before_resolution", 1);
    }

    // ---- what each worker is planned to be stalled by (ms): blocking handlers routed to it + injected stalls
    let mut stall_ms: HashMap<u64, u64> = HashMap::new();
    let delays_any: u64 = plan.delays.iter().filter(|d| d.point == P_ACCEPTOR).map(|d| d.micros / 1000 + 1).sum();
    for c in &plan.conns {
        for r in &c.reqs {
            if let (HK::Block(b), Some((w, _))) = (r.hk, port_of.get(&c.idx).and_then(|p| disp.get(p))) {
                *stall_ms.entry(*w).or_insert(0) += b;
            }
        }
    }
    for d in plan.delays.iter().filter(|d| d.point != P_ACCEPTOR) {
        *stall_ms.entry(d.who).or_insert(0) += d.micros / 1000 + 1;
    }

    // ---- per connection: class at the instant the acceptor took the shutdown command; rules 1, 2
    let mut classes: BTreeMap<&'static str, u64> = BTreeMap::new();
    let mut inflight_at_call = 0u64;
    let before = |x: Option<At>, y: At| x.is_some_and(|x| x.seq < y.seq);
    for c in &plan.conns {
        st.connections += 1;
        let res = rec.results.iter().find(|r| r.idx == c.idx);
        let port = port_of.get(&c.idx).copied();
        let d = port.and_then(|p| disp.get(&p)).copied();
        let ids: Vec<u64> = c.reqs.iter().map(|r| r.id).collect();
        // the request this connection was busy with when the acceptor took the command
        let cur = c.reqs.iter().rev().find(|r| before(written.get(&r.id).copied(), s_a));
        let class: &'static str = if !before(port.and_then(|p| took.get(&p)).copied(), s_a) {
            // still in the kernel's backlog, or accept()ed by the accept task but not yet taken by the acceptor's loop
            if before(port.and_then(|p| accepted.get(&p)).copied(), s_a) { "accepted_not_taken" } else { "not_accepted" }
        } else if port.is_some_and(|p| busy.contains_key(&p)) {
            "dropped_all_workers_busy"
        } else if !before(d.map(|d| d.1), s_a) {
            "not_accepted"
        } else {
            match cur {
                None if c.reqs.iter().any(|r| r.split_at_ms.is_some()) => "partial_request",
                None => "no_request_yet",
                Some(r) if !before(enter.get(&r.id).map(|e| e.0), s_a) => "dispatched_not_started",
                Some(r) if !before(done.get(&r.id).copied(), s_a) => "started",
                Some(r) if r.close => "finished",
                Some(_) => "idle",
            }
        };
        *classes.entry(class).or_insert(0) += 1;
        st.bump("classes_by_workers", format!("w{}/{}", plan.workers, class));
        if let Some(res) = res {
            if c.after_resolution {
                let k = match (&res.connect, res.reqs.first().map(|r| &r.1)) {
                    (Connect::Refused, _) => "refused".to_string(),
                    (Connect::NotAttempted, _) => "not_attempted".to_string(),
                    (Connect::Failed(_), _) => "connect_error".to_string(),
                    (Connect::Ok(_), Some(o)) => format!("connected_then_{}", o.name()),
                    (Connect::Ok(_), None) => "connected".to_string(),
                };
                st.bump("connect_after_resolution", k);
            }
            if matches!(c.role, "idle" | "silent") && class != "not_accepted" {
                st.bump("idle_connection_end", res.end);
            }
        }
        for (k, r) in c.reqs.iter().enumerate() {
            st.requests += 1;
            let outcome = res.map(|x| x.reqs[k].1.clone()).unwrap_or(Outcome::NotSent);
            let Some(wr) = written.get(&r.id).copied() else { continue };
            if wr.seq > s_c.seq {
                if c.role == "ka_race" && k == 1 {
                    st.bump("keepalive_race_after_call", outcome.name());
                }
                continue;
            }
            // fully written before the call was issued
            if before(resp.get(&r.id).copied(), s_c) && matches!(outcome, Outcome::Complete) {
                continue; // answered before the call
            }
            if class == "accepted_not_taken" {
                // observed, not asserted: accept()ed by the server before the command, dropped with the acceptor's JoinSet
                st.bump("accepted_not_taken_request_outcomes", outcome.name());
            }
            let Some((w, d_at)) = d else { continue };
            if d_at.seq > s_a.seq || port.is_some_and(|p| busy.contains_key(&p)) {
                continue;
            }
            let ent = enter.get(&r.id).map(|e| e.0);
            let rclass: &'static str = if before(ent, s_c) {
                "started"
            } else if ent.is_some() && gw_begin.get(&w).is_some_and(|g| before(ent, *g)) {
                "entered_before_worker_shutdown"
            } else if !graceful && ent.is_some() {
                "entered_before_worker_shutdown"
            } else {
                "dispatched_not_started"
            };
            if rclass == "started" {
                inflight_at_call += 1;
            }
            if let Some((_, p)) = enter.get(&r.id) {
                if Some(*p) != port {
                    st.inconc("a handler saw a request on another connection than the one the client used", base.clone());
                    continue;
                }
            }
            let conn_state = if port.is_some_and(|p| drained.contains_key(&p)) {
                "queued_in_inbox"
            } else if port.is_some_and(|p| started.contains_key(&p)) {
                "task_spawned_request_not_parsed"
            } else {
                "unknown"
            };
            let answered = matches!(outcome, Outcome::Complete);
            if !graceful {
                st.bump("forced_outcomes", format!("{}/{}", rclass, if answered { "answered" } else { "cut" }));
                continue;
            }
            let own = if matches!(r.hk, HK::Block(_)) { 0 } else { r.hk.latency_ms() };
            let budget = stall_ms.get(&w).copied().unwrap_or(0) + delays_any + own;
            let asserted = r.hk != HK::Long && budget * 10 <= t_ms.saturating_mul(6);
            if !asserted {
                st.bump("graceful_outcomes", format!("{}/unasserted_{}/{}", rclass, if r.hk == HK::Long { "long_handler" } else { "slow_worker" }, if answered { "answered" } else { "cut" }));
                continue;
            }
            if rclass == "dispatched_not_started" {
                st.bump("graceful_outcomes", format!("{}:{}/{}", rclass, conn_state, if answered { "answered" } else { outcome.name() }));
                st.count("rule2_checked", 1);
            } else {
                st.bump("graceful_outcomes", format!("{}/{}", rclass, if answered { "answered" } else { outcome.name() }));
                st.count("rule1_checked", 1);
            }
            if answered {
                continue;
            }
            let detail = || with(json!({"conn": c.idx, "role": c.role, "req": r.id, "handler": r.hk.wire(), "worker": w, "class": rclass,
                "conn_state": conn_state, "outcome": format!("{outcome:?}"), "stall_budget_ms": budget, "coordinator_wait_ms": coord_ms,
                "events": events_about(port, &ids), "full_plan": plan.to_json()}));
            match outcome {
                Outcome::ReadTimeout(_) | Outcome::OpenAtEnd(_) | Outcome::NotSent | Outcome::WriteFailed(_) => {
                    st.inconc("a client gave up on a request before the connection ended", detail());
                    continue;
                }
                Outcome::Malformed(_) => {
                    st.violation(json!({"rule": "malformed_response", "class": rclass}), detail());
                    continue;
                }
                _ => {}
            }
            // Was the connection cut because a timeout had legitimately elapsed before the handler was done?
            let seen = resp.get(&r.id).copied();
            let dn = done.get(&r.id).copied();
            let well_before = |x: At| dn.is_some_and(|d| d.seq < x.seq && d.t + 20_000 < x.t);
            let cut_by = |x: At| seen.is_none_or(|s| s.seq > x.seq) && !well_before(x);
            let w_to = gw_end.get(&w).filter(|g| g.1).map(|g| g.0);
            if w_to.is_some_and(cut_by) || (timeout_branch && cut_by(c_e)) {
                st.inconc("a short request was cut, but only after a shutdown timeout had elapsed (machine too slow to tell)", detail());
                continue;
            }
            let mut sig = json!({"rule": "request_received_before_shutdown_not_answered", "class": rclass});
            if rclass == "dispatched_not_started" {
                sig["conn_state"] = json!(conn_state);
            }
            st.violation(sig, detail());
        }
    }
    let nontrivial = classes.get("dispatched_not_started").copied().unwrap_or(0) + classes.get("started").copied().unwrap_or(0) > 0;

    // ---- rule 3: nothing is taken in after the acceptor processed the command / after resolution
    let mut late_checked = 0u64;
    for (port, (w, a)) in &disp {
        if a.seq > s_a.seq {
            let idx = conn_of.get(port).copied();
            st.violation(json!({"rule": "connection_dispatched_after_shutdown_command", "mode": plan.mode()}),
                with(json!({"conn": idx, "worker": w, "events": events_about(Some(*port), &[]), "full_plan": plan.to_json()})));
        }
    }
    for (port, a) in &accepted {
        if a.seq > s_a.seq {
            st.violation(json!({"rule": "connection_accepted_after_shutdown_command", "mode": plan.mode()}),
                with(json!({"conn": conn_of.get(port), "events": events_about(Some(*port), &[]), "full_plan": plan.to_json()})));
        }
    }
    for c in &plan.conns {
        let port = port_of.get(&c.idx).copied();
        let cb = connect_begin.get(&(c.idx as u64)).copied();
        let after_res = cb.is_some_and(|x| x.seq > s_r.seq);
        let after_cmd = port.is_some_and(|p| p != 0) && !before(port.and_then(|p| took.get(&p)).copied(), s_a);
        if after_res {
            late_checked += 1;
        }
        if !(after_res || after_cmd) {
            continue;
        }
        let served: Vec<u64> = c.reqs.iter().filter(|r| enter.contains_key(&r.id)).map(|r| r.id).collect();
        let answered = rec.results.iter().find(|r| r.idx == c.idx).is_some_and(|r| r.reqs.iter().any(|x| matches!(x.1, Outcome::Complete)));
        if !served.is_empty() || answered {
            let class = if after_res {
                "connected_after_resolution"
            } else if cb.is_some_and(|x| x.seq > s_c.seq) {
                "accepted_after_shutdown_command/connected_after_call"
            } else {
                "accepted_after_shutdown_command/connected_before_call"
            };
            let ids: Vec<u64> = c.reqs.iter().map(|r| r.id).collect();
            st.violation(json!({"rule": "late_connection_served", "class": class, "mode": plan.mode()}),
                with(json!({"conn": c.idx, "role": c.role, "events": events_about(port, &ids), "full_plan": plan.to_json()})));
        }
    }
    // rule 3d: once the coordinator has told the workers (the listeners were dropped before that), the drain is in
    // progress until `coordinator_end`: a connect() that starts in between (with a margin after `workers_told`: the
    // sockets are closed when the acceptor yields to its executor for the first time) must be refused
    if graceful {
        const MARGIN_US: u64 = 25_000;
        // every listener of the server must be closed: judge on the *last* close, and only when all of them were seen
        let closes: Vec<_> = ev.iter().filter(|e| e.kind == "listener_closed").map(at).collect();
        let closed = if closes.len() >= plan.listeners.max(1) { closes.into_iter().max_by_key(|a| a.seq) } else { None };
        st.bump("runs_by_listeners", if plan.listeners > 1 { "2" } else { "1" });
        if closed.is_some_and(|l| l.seq < c_e.seq) {
            st.count("rule3_listener_closed_before_drain_ended", 1);
            if let Some(l) = closed {
                st.maxi("max_listener_close_after_workers_told_us", l.t.saturating_sub(told.t));
            }
        } else {
            st.violation(json!({"rule": "listener_open_until_drain_ended", "class": "listener_closed_after_coordinator_end"}),
                with(json!({"coordinator_wait_ms": coord_ms, "events": events_about(None, &[]), "full_plan": plan.to_json()})));
        }
        let mut connected: Vec<Value> = Vec::new();
        for c in &plan.conns {
            let Some(cb) = connect_begin.get(&(c.idx as u64)).copied() else { continue };
            if !(cb.seq > told.seq && cb.t >= told.t + MARGIN_US && cb.seq < c_e.seq) {
                continue;
            }
            let Some(res) = rec.results.iter().find(|r| r.idx == c.idx) else { continue };
            match &res.connect {
                Connect::Refused => st.bump("connect_during_drain", "refused"),
                Connect::Ok(p) => {
                    st.bump("connect_during_drain", "connected");
                    connected.push(json!({"conn": c.idx, "role": c.role, "client_port": p, "connect_began_us_after_workers_told": cb.t - told.t,
                        "then": res.reqs.first().map(|x| x.1.name())}));
                }
                _ => st.bump("connect_during_drain", "other_error"),
            }
        }
        if !connected.is_empty() {
            let detail = with(json!({"connected": connected, "coordinator_wait_ms": coord_ms,
                "listener_closed_us_after_workers_told": closed.map(|l| l.t as i64 - told.t as i64),
                "events": events_about(None, &[]), "full_plan": plan.to_json()}));
            if rec.lag_ms < 15 {
                st.violation(json!({"rule": "connection_accepted_during_drain", "class": "connect_after_listeners_dropped"}), detail);
            } else {
                st.inconc("a connect() succeeded during the drain, on a loaded machine", detail);
            }
        }
    }
    st.count("rule3_connections_opened_after_resolution", late_checked);
    st.count("rule3_connections_not_taken_before_command", classes.get("not_accepted").copied().unwrap_or(0) + classes.get("accepted_not_taken").copied().unwrap_or(0));

    // ---- rule 5: Forced does not wait for handlers
    if !graceful {
        for c in &plan.conns {
            for r in &c.reqs {
                let Some((e, _)) = enter.get(&r.id) else { continue };
                if e.seq > s_c.seq {
                    continue;
                }
                let remaining_ms = r.hk.latency_ms().saturating_sub(s_c.t.saturating_sub(e.t) / 1000);
                let (class, need, lag_ok) = match r.hk {
                    HK::Long => ("long_async_handler", 2000, rec.lag_ms < 500),
                    HK::Block(_) => ("blocking_handler", 150 + delays_any, rec.lag_ms < 50),
                    _ => continue,
                };
                if remaining_ms < need {
                    continue;
                }
                if before(done.get(&r.id).copied(), s_r) {
                    let ids = [r.id];
                    let detail = with(json!({"req": r.id, "handler": r.hk.wire(), "remaining_ms_at_call": remaining_ms,
                        "events": events_about(port_of.get(&c.idx).copied(), &ids), "full_plan": plan.to_json()}));
                    if lag_ok {
                        st.violation(json!({"rule": "forced_shutdown_waited_for_handler", "class": class}), detail);
                    } else {
                        st.inconc("forced shutdown resolved after a handler finished, on a loaded machine", detail);
                    }
                } else {
                    st.count("rule5_checked", 1);
                    st.bump("rule5_by_class", class);
                }
            }
        }
        st.maxi("max_forced_resolution_ms", s_r.t.saturating_sub(s_c.t) / 1000);
    }

    // ---- rule 4b: nothing that stands for "the server has shut down" resolves while the drain is still going on: awaiting a
    // clone of the handle, and a second `shutdown()` call made on a clone while the first one is being served (unless that
    // call's own timeout has elapsed)
    if let Some(hr) = one("handle_resolved") {
        st.count("rule4b_handle_await_order_checked", 1);
        if hr.seq < c_e.seq {
            st.violation(json!({"rule": "handle_await_resolved_during_drain", "mode": plan.mode()}),
                with(json!({"coordinator_wait_ms": coord_ms, "events": events_about(None, &[]), "full_plan": plan.to_json()})));
        }
    }
    if let (Some(c2), Some(r2)) = (one("shutdown2_called"), one("shutdown2_resolved")) {
        st.count("rule4b_second_call_checked", 1);
        let own_timeout_elapsed = graceful && (r2.t.saturating_sub(c2.t) / 1000) + 25 >= t_ms;
        if r2.seq < c_e.seq && c2.seq < c_e.seq && !own_timeout_elapsed {
            st.violation(json!({"rule": "second_shutdown_call_resolved_during_drain", "mode": plan.mode()}),
                with(json!({"resolved_ms_after_second_call": r2.t.saturating_sub(c2.t) / 1000, "coordinator_wait_ms": coord_ms,
                    "events": events_about(None, &[]), "full_plan": plan.to_json()})));
        }
    } else if plan.second_call_after_ms.is_some() && one("shutdown2_called").is_some() {
        st.inconc("the second shutdown call did not resolve within the watchdog", with(json!({"events": events_about(None, &[])})));
    }

    // ---- rule 6: graceful resolution comes after the last running handler, or after the timeout
    if graceful {
        if timeout_branch {
            st.count("rule6_timeout_branch_runs", 1);
        } else {
            let mut bad: Option<(u64, usize)> = None;
            let mut running_checked = 0u64;
            for c in &plan.conns {
                for r in &c.reqs {
                    let Some((e, _)) = enter.get(&r.id) else { continue };
                    if e.seq < c_e.seq {
                        running_checked += 1;
                        if !before(done.get(&r.id).copied(), c_e) && bad.is_none() {
                            bad = Some((r.id, c.idx));
                        }
                    }
                }
            }
            st.count("rule6_order_checked_handlers", running_checked);
            if inflight_at_call > 0 {
                st.count("rule6_order_runs_with_inflight_at_call", 1);
            }
            if let Some((req, conn)) = bad {
                st.violation(json!({"rule": "graceful_resolved_before_running_handler_done", "class": "before_timeout"}),
                    with(json!({"req": req, "conn": conn, "coordinator_wait_ms": coord_ms, "events": events_about(port_of.get(&conn).copied(), &[req]), "full_plan": plan.to_json()})));
            }
        }
        if coord_ms > t_ms.saturating_mul(3).saturating_add(250) {
            let long_running = plan.conns.iter().flat_map(|c| &c.reqs).any(|r| r.hk == HK::Long && enter.get(&r.id).is_some_and(|e| e.0.seq < c_e.seq));
            let detail = with(json!({"coordinator_wait_ms": coord_ms, "timeout_ms": t_ms, "events": events_about(None, &[]), "full_plan": plan.to_json()}));
            if calm {
                st.violation(json!({"rule": "graceful_resolution_exceeded_timeout", "class": if long_running { "long_handler_running" } else { "no_long_handler" }}), detail);
            } else {
                st.inconc("graceful resolution took more than 3x the timeout on a loaded machine", detail);
            }
        } else {
            st.count("rule6_upper_bound_checked", 1);
        }
    }

    // ---- evidence
    if nontrivial {
        st.runs_nontrivial += 1;
        let shape = format!("w{}|{}|{}", plan.workers, plan.mode(),
            classes.iter().map(|(k, v)| format!("{k}:{}", (*v).min(3))).collect::<Vec<_>>().join(","));
        st.distinct.insert(fnv(&shape));
    }
    st.bump("modes", plan.mode());
    st.bump("workers", format!("w{}", plan.workers));
    st.maxi("max_connections_in_a_run", plan.conns.len() as u64);
    let mut per_worker: HashMap<u64, u64> = HashMap::new();
    for (w, _) in drained.values() {
        *per_worker.entry(*w).or_insert(0) += 1;
    }
    st.maxi("max_connections_drained_from_one_inbox", per_worker.values().copied().max().unwrap_or(0));
    st.maxi("max_workers_that_served_a_connection", started.values().chain(drained.values()).map(|x| x.0).collect::<BTreeSet<_>>().len() as u64);
    st.maxi("max_lag_ms", rec.lag_ms);
    if st.samples.len() < 4 && nontrivial {
        st.samples.push(json!({"plan": plan.brief(), "classes_when_acceptor_took_the_command": classes,
            "coordinator_wait_ms": coord_ms, "timeout_branch": timeout_branch,
            "delays_fired": fired.iter().map(|e| json!([e.kind, e.who, e.arg])).collect::<Vec<_>>(),
            "outcomes": rec.results.iter().map(|r| json!({"conn": r.idx, "role": plan.conns[r.idx].role,
                "reqs": r.reqs.iter().map(|x| x.1.name()).collect::<Vec<_>>()})).collect::<Vec<_>>()}));
    }
}
