//! Seeded generation of one run: server shape, shutdown mode and instant, the clients' scripts, the stalls.
use pavex::server::verif::Delay;
use serde_json::{Value, json};

pub const P_ACCEPTOR: &str = "acceptor_after_listeners_dropped";
pub const P_POLL: &str = "worker_before_poll";
pub const P_SIGNAL: &str = "worker_before_graceful_signal";
pub const POINTS: [&str; 3] = [P_ACCEPTOR, P_POLL, P_SIGNAL];

pub struct Rng(u64);

impl Rng {
    pub fn new(seed: u64) -> Self {
        Rng(seed ^ 0x9E37_79B9_7F4A_7C15)
    }
    pub fn next(&mut self) -> u64 {
        self.0 = self.0.wrapping_add(0x9E37_79B9_7F4A_7C15);
        let mut z = self.0;
        z = (z ^ (z >> 30)).wrapping_mul(0xBF58_476D_1CE4_E5B9);
        z = (z ^ (z >> 27)).wrapping_mul(0x94D0_49BB_1331_11EB);
        z ^ (z >> 31)
    }
    pub fn below(&mut self, n: u64) -> u64 {
        if n == 0 { 0 } else { self.next() % n }
    }
    /// inclusive; tolerant of an empty range
    pub fn range(&mut self, lo: u64, hi: u64) -> u64 {
        if hi <= lo { lo } else { lo + self.below(hi - lo + 1) }
    }
    pub fn chance(&mut self, pct: u64) -> bool {
        self.below(100) < pct
    }
    pub fn pick<T: Copy>(&mut self, xs: &[T]) -> T {
        xs[self.below(xs.len() as u64) as usize]
    }
}

pub fn mix(seed: u64, shard: u64, i: u64) -> u64 {
    let mut r = Rng::new(seed.wrapping_mul(0x1000_0000_01B3) ^ shard.wrapping_mul(0xD6E8_FEB8_6659_FD93) ^ i.wrapping_mul(0xA24B_AED4_963E_E407));
    r.next();
    r.next() >> 1
}

/// What the handler does with a request.
#[derive(Clone, Copy, Debug, PartialEq, Eq)]
pub enum HK {
    Instant,
    /// `tokio::time::sleep`
    Sleep(u64),
    /// `std::thread::sleep`: stalls the single-threaded worker
    Block(u64),
    /// `tokio::time::sleep(LONG_MS)`: longer than any shutdown timeout
    Long,
}

impl HK {
    pub fn wire(&self) -> String {
        match self {
            HK::Instant => "i".into(),
            HK::Sleep(ms) => format!("s{ms}"),
            HK::Block(ms) => format!("b{ms}"),
            HK::Long => format!("s{}", crate::LONG_MS),
        }
    }
    pub fn latency_ms(&self) -> u64 {
        match self {
            HK::Instant => 0,
            HK::Sleep(ms) | HK::Block(ms) => *ms,
            HK::Long => crate::LONG_MS,
        }
    }
}

#[derive(Clone, Debug)]
pub struct ReqSpec {
    pub id: u64,
    /// ms after t0 at which the request is written (never before the previous response arrived)
    pub at_ms: u64,
    pub hk: HK,
    pub close: bool,
    /// write the first half at `at_ms`, the second half at this instant
    pub split_at_ms: Option<u64>,
}

#[derive(Clone, Debug)]
pub struct ConnSpec {
    pub idx: usize,
    pub role: &'static str,
    /// connect `connect_at_ms` after the shutdown future resolved instead of after t0
    pub after_resolution: bool,
    pub connect_at_ms: u64,
    pub reqs: Vec<ReqSpec>,
}

#[derive(Clone, Debug)]
pub struct Plan {
    pub hseed: u64,
    pub workers: usize,
    /// number of listeners the server is given (connection `idx` talks to listener `idx % listeners`)
    pub listeners: usize,
    /// a second `shutdown(same mode)` on a clone of the handle, that many ms after the first call
    pub second_call_after_ms: Option<u64>,
    /// Some: Graceful{timeout}, None: Forced
    pub timeout_ms: Option<u64>,
    pub call_at_ms: u64,
    pub conns: Vec<ConnSpec>,
    pub delays: Vec<Delay>,
}

impl Plan {
    pub fn mode(&self) -> &'static str {
        if self.timeout_ms.is_some() { "graceful" } else { "forced" }
    }
    pub fn to_json(&self) -> Value {
        json!({
            "hseed": self.hseed, "workers": self.workers, "listeners": self.listeners, "second_call_after_ms": self.second_call_after_ms,
            "mode": self.mode(), "timeout_ms": self.timeout_ms,
            "call_at_ms": self.call_at_ms,
            "delays": self.delays.iter().map(|d| json!({"point": d.point, "who": d.who, "nth": d.nth, "block": d.block, "us": d.micros})).collect::<Vec<_>>(),
            "conns": self.conns.iter().map(|c| json!({
                "idx": c.idx, "role": c.role, "after_resolution": c.after_resolution, "connect_at_ms": c.connect_at_ms,
                "reqs": c.reqs.iter().map(|r| json!({"id": r.id, "at_ms": r.at_ms, "kind": r.hk.wire(), "close": r.close, "split_at_ms": r.split_at_ms})).collect::<Vec<_>>(),
            })).collect::<Vec<_>>(),
        })
    }
    pub fn brief(&self) -> Value {
        let mut roles = std::collections::BTreeMap::new();
        for c in &self.conns {
            *roles.entry(c.role).or_insert(0u64) += 1;
        }
        json!({"hseed": self.hseed, "workers": self.workers, "listeners": self.listeners, "mode": self.mode(), "timeout_ms": self.timeout_ms,
            "call_at_ms": self.call_at_ms, "roles": roles, "delays": self.delays.len()})
    }
}

/// Timeouts that cannot elapse: 100 years in ms; the sentinels stand for `Duration::from_secs(u64::MAX)` and
/// `Duration::MAX` (see `timeout_duration`).
pub const HUGE_TIMEOUTS: [u64; 3] = [3_155_760_000_000, u64::MAX - 1, u64::MAX];

pub fn timeout_duration(ms: u64) -> std::time::Duration {
    match ms {
        u64::MAX => std::time::Duration::MAX,
        x if x == u64::MAX - 1 => std::time::Duration::from_secs(u64::MAX),
        x => std::time::Duration::from_millis(x),
    }
}

pub fn gen_plan(hseed: u64) -> Plan {
    let mut r = Rng::new(hseed);
    let workers = r.pick(&[1usize, 2, 4]);
    let graceful = r.chance(72);
    // a worker that stays unresponsive for much longer than the timeout: the coordinator has to give up on it
    let stuck = graceful && r.chance(10);
    // a drain that lasts: one request in its handler for 300-600 ms, a timeout well above that, and a prober that
    // connects every 20-50 ms from the call on
    let probe = graceful && !stuck && r.chance(14);
    let has_blocker = !stuck && !probe && r.chance(55);
    // a timeout that can never elapse (a century, `Duration::from_secs(u64::MAX)`, `Duration::MAX`): everything in
    // flight finishes long before it, so the run is planned around the nominal value and must behave like any other
    // graceful shutdown whose timeout is not reached
    let huge = graceful && !stuck && r.chance(9);
    let nominal_ms = graceful.then(|| {
        if stuck {
            r.pick(&[300u64, 400])
        } else if probe {
            r.pick(&[1200u64, 1500])
        } else if has_blocker {
            r.pick(&[550u64, 600, 650, 700])
        } else {
            r.pick(&[300u64, 400, 500, 600, 700])
        }
    });
    let timeout_ms = if huge { Some(r.pick(&HUGE_TIMEOUTS)) } else { nominal_ms };
    let call = r.range(160, 340);
    let size = match r.below(10) {
        0..=2 => r.range(1, 6),
        3..=7 => r.range(7, 20),
        _ => r.range(21, 40),
    } as usize;
    let mut conns: Vec<ConnSpec> = Vec::new();
    fn push(conns: &mut Vec<ConnSpec>, role: &'static str, after: bool, connect_at_ms: u64, reqs: Vec<(u64, HK, bool, Option<u64>)>) {
        let idx = conns.len();
        let reqs = reqs
            .into_iter()
            .enumerate()
            .map(|(k, (at_ms, hk, close, split_at_ms))| ReqSpec { id: (idx * 4 + k + 1) as u64, at_ms, hk, close, split_at_ms })
            .collect();
        conns.push(ConnSpec { idx, role, after_resolution: after, connect_at_ms, reqs });
    }

    // the stall: one or two requests that block the worker while the shutdown call is made
    let mut stall_from: Option<u64> = None;
    if has_blocker {
        let bs: Vec<u64> = if !graceful {
            vec![r.range(300, 500)]
        } else if r.chance(25) {
            vec![r.range(60, 100), r.range(60, 100)]
        } else {
            vec![r.range(80, 200)]
        };
        for b in bs {
            let before = r.range(15, (b - 20).min(call - 40).min(110));
            let wb = call - before;
            stall_from = Some(stall_from.map_or(wb, |s: u64| s.min(wb)));
            let lead = r.range(0, 30).min(wb);
            let close = r.chance(50);
            push(&mut conns, "blocker", false, wb - lead, vec![(wb, HK::Block(b), close, None)]);
        }
    }
    if stuck {
        let b = 3 * nominal_ms.unwrap_or(0) + 600 + r.range(0, 200);
        let at = call - r.range(20, 60);
        stall_from = Some(at);
        push(&mut conns, "stuck_worker_blocker", false, at - r.range(0, 20), vec![(at, HK::Block(b), true, None)]);
    }
    if probe {
        let d = r.range(300, 600);
        let at = call - r.range(20, 60);
        push(&mut conns, "inflight_drain", false, at - r.range(0, 15), vec![(at, HK::Sleep(d), r.chance(50), None)]);
        let mut off = r.range(0, 10);
        while off <= d + 60 && conns.len() < 36 {
            push(&mut conns, "drain_probe", false, call + off, vec![(call + off, HK::Instant, true, None)]);
            off += r.range(20, 50);
        }
    }
    // what a short in-flight handler may cost, so that "stall + latency" stays well inside the timeout
    let short_max = match nominal_ms {
        Some(t) if has_blocker => 60.min(t / 3),
        Some(t) => (t / 3).max(45),
        None => 200,
    };
    let (qlo, qhi) = match stall_from {
        Some(s) => (s + 6, call.saturating_sub(3).max(s + 7)),
        None => (call.saturating_sub(6), call),
    };
    let n_after = r.range(1, 3) as usize;
    let want_long = !huge && if graceful { r.chance(30) } else { r.chance(75) };
    if want_long {
        let at = call - r.range(20, 150);
        push(&mut conns, "inflight_long", false, at.saturating_sub(r.range(0, 20)), vec![(at, HK::Long, false, None)]);
    }
    let mut longs = usize::from(want_long);
    while conns.len() + n_after < size.max(n_after + 1) {
        let w = r.below(100);
        let short = |r: &mut Rng| if r.chance(45) { HK::Instant } else { HK::Sleep(r.range(5, short_max)) };
        match w {
            0..=39 => {
                // written while the worker is stalled / racing with the call
                let at = r.range(qlo, qhi);
                let hk = short(&mut r);
                let close = r.chance(50);
                push(&mut conns, "queued", false, at, vec![(at, hk, close, None)]);
            }
            40..=49 => {
                // connected (and its task possibly spawned) before the stall, request written during the stall
                let at = r.range(qlo, qhi);
                let lead = r.range(10, 70).min(at);
                let hk = short(&mut r);
                push(&mut conns, "queued_preconnected", false, at - lead, vec![(at, hk, r.chance(50), None)]);
            }
            50..=61 => {
                let d = r.range(40.min(short_max), short_max);
                let at = call - r.range(8, d.saturating_sub(15).max(8)).min(call - 100);
                push(&mut conns, "inflight_short", false, at.saturating_sub(r.range(0, 15)), vec![(at, HK::Sleep(d), r.chance(50), None)]);
            }
            62..=64 if longs < 2 && !huge => {
                longs += 1;
                let at = call - r.range(20, 150);
                push(&mut conns, "inflight_long", false, at, vec![(at, HK::Long, r.chance(50), None)]);
            }
            65..=72 => {
                let at = r.range(5, call - 60);
                push(&mut conns, "idle", false, at, vec![(at, HK::Instant, false, None)]);
            }
            73..=77 => {
                push(&mut conns, "silent", false, r.range(5, call - 5), vec![]);
            }
            78..=80 => {
                let at = r.range(5, call - 60);
                push(&mut conns, "finished", false, at, vec![(at, HK::Instant, true, None)]);
            }
            81..=85 => {
                let c_at = r.range(10, 80);
                let d = r.range(40.min(short_max), short_max);
                let at2 = call - r.range(8, d.saturating_sub(15).max(8)).min(call - 100);
                push(&mut conns, "ka_second_inflight", false, c_at, vec![(c_at + r.range(0, 10), HK::Instant, false, None), (at2, HK::Sleep(d), r.chance(50), None)]);
            }
            86..=88 => {
                let c_at = r.range(10, 80);
                let at2 = call + r.range(0, 12) - 3;
                push(&mut conns, "ka_race", false, c_at, vec![(c_at, HK::Instant, false, None), (at2, HK::Instant, false, None)]);
            }
            89..=91 => {
                let at = call - r.range(20, 80);
                let second = call + r.range(20, 60);
                push(&mut conns, "partial", false, at, vec![(at, HK::Instant, true, Some(second))]);
            }
            _ => {
                let at = call + r.range(0, 120) - 5;
                push(&mut conns, "during", false, at, vec![(at, HK::Instant, r.chance(50), None)]);
            }
        }
    }
    for _ in 0..n_after {
        let at = r.range(0, 50);
        push(&mut conns, "after", true, at, vec![(at, HK::Instant, true, None)]);
    }

    // seeded stalls at the hook points (at most 60 ms altogether)
    let mut delays: Vec<Delay> = Vec::new();
    if r.chance(65) {
        let mut left_us: u64 = 60_000;
        for _ in 0..r.range(1, 3) {
            let d = match r.below(10) {
                0..=2 => Delay { point: P_ACCEPTOR, who: 0, nth: 0, block: true, micros: r.range(5_000, 50_000) },
                3..=6 => {
                    let block = r.chance(50);
                    let micros = if !block && r.chance(30) { 0 } else { r.range(2_000, 30_000) };
                    let who = if r.chance(70) { 0 } else { r.below(workers as u64) };
                    Delay { point: P_POLL, who, nth: r.range(0, (conns.len() as u64).min(10)), block, micros }
                }
                _ => {
                    let who = if r.chance(70) { 0 } else { r.below(workers as u64) };
                    Delay { point: P_SIGNAL, who, nth: 0, block: true, micros: r.range(2_000, 30_000) }
                }
            };
            if d.micros <= left_us && !delays.iter().any(|x| x.point == d.point && x.who == d.who && x.nth == d.nth) {
                left_us -= d.micros;
                delays.push(d);
            }
        }
    }
    // drawn from its own stream, so that the rest of the plan is the same as before this knob existed
    let listeners = if Rng::new(mix(hseed, 0x11_57, 2)).chance(30) { 2 } else { 1 };
    let mut r2 = Rng::new(mix(hseed, 0x2_CA11, 3));
    let second_call_after_ms = if r2.chance(30) { Some(r2.range(5, 60)) } else { None };
    Plan { hseed, workers, listeners, second_call_after_ms, timeout_ms, call_at_ms: call, conns, delays }
}
