"""Mutants used for the mutation sanity of C16 (brief, rule 8). Never run this against /repo.
usage: python3 mutants.py <dir of a scratch checkout's runtime/pavex/src/server, hooks applied> <a|a2|b|c|d|d2>
All six were reported by `shutdown --tier quick --seed 1` (see the rule named after each).
  a   acceptor keeps accepting/dispatching for 150 ms after it took the command   -> late_connection_served,
      connection_dispatched_after_shutdown_command, connection_accepted_after_shutdown_command
  a2  workers are told first, the listeners are dropped after the wait               -> connection_accepted_after_shutdown_command
  b   Forced goes through the workers' graceful path and the coordinator awaits it  -> forced_shutdown_waited_for_handler
  c   the worker does not wait for its live connections                             -> request_received_before_shutdown_not_answered
      (class started / entered_before_worker_shutdown), graceful_resolved_before_running_handler_done
  d   coordinator and workers ignore the timeout                                    -> graceful_resolution_exceeded_timeout
  d2  only the coordinator ignores the timeout (needs a stuck worker)               -> graceful_resolution_exceeded_timeout
  e   the acceptor also holds the listeners in a Vec<Arc<IncomingStream>>, so dropping the JoinSet closes nothing
      (reproduced by hand in a scratch worktree)                                     -> connection_accepted_during_drain,
      listener_open_until_drain_ended
"""
import sys, os
SRC = sys.argv[1]
def sub(fn, a, b):
    p=os.path.join(SRC,fn); t=open(p).read()
    assert t.count(a)==1, (fn, a, t.count(a))
    open(p,"w").write(t.replace(a,b))
m=sys.argv[2]
if m=="a":   # acceptor keeps accepting (and dispatching) for 150 ms after it took the shutdown command
    sub("server_handle.rs","        let error = 'event_loop: loop {\n            // Check if there is work to be done.\n            let message =\n                poll_fn(|cx| Self::poll_inboxes(cx, &mut command_inbox, &mut incoming_join_set))\n                    .await;\n",
        "        let mut pending: Option<(tokio::sync::oneshot::Sender<()>, ShutdownMode, std::time::Instant)> = None;\n        let error = 'event_loop: loop {\n            if pending.as_ref().is_some_and(|p| p.2.elapsed() >= std::time::Duration::from_millis(150)) {\n                let (n, m, _) = pending.take().unwrap();\n                Self::shutdown(n, m, incoming_join_set, worker_handles).await;\n                return;\n            }\n            let message = match tokio::time::timeout(std::time::Duration::from_millis(10), poll_fn(|cx| Self::poll_inboxes(cx, &mut command_inbox, &mut incoming_join_set))).await { Ok(m) => m, Err(_) => continue };\n")
    sub("server_handle.rs","                        Self::shutdown(\n                            completion_notifier,\n                            mode,\n                            incoming_join_set,\n                            worker_handles,\n                        )\n                        .await;\n                        return;\n",
        "                        pending = Some((completion_notifier, mode, std::time::Instant::now()));\n")
elif m=="a2":  # literal reorder: tell the workers first, drop the listeners after the wait
    sub("server_handle.rs","        drop(incoming_join_set);\n","")
    sub("server_handle.rs","        #[cfg(pavex_verif)]\n        verif::event(\"coordinator_end\", 0u64, 0u64);\n","        drop(incoming_join_set);\n        #[cfg(pavex_verif)]\n        verif::event(\"coordinator_end\", 0u64, 0u64);\n")
elif m=="b":   # Forced goes through the workers' graceful path and the coordinator waits for it
    sub("worker.rs","                        ShutdownMode::Forced => {}\n",
        "                        ShutdownMode::Forced => {\n                            connection_inbox.close();\n                            while let Some(connection) = connection_inbox.recv().await {\n                                Self::handle_connection(connection, handler, application_state.clone(), &shutdown_coordinator);\n                            }\n                            shutdown_coordinator.shutdown().await;\n                        }\n")
    sub("server_handle.rs","            if mode.is_graceful() {\n","            if true {\n")
    sub("server_handle.rs","        // Notify the caller that the server has shut down.\n","        if mode.is_forced() {\n            while shutdown_join_set.join_next().await.is_some() {}\n        }\n")
    sub("server_handle.rs","            let _ = tokio::time::timeout(timeout, async move {\n                while shutdown_join_set.join_next().await.is_some() {}\n            })\n","            let _ = tokio::time::timeout(timeout, async {\n                while shutdown_join_set.join_next().await.is_some() {}\n            })\n")
elif m=="c":   # the worker does not wait for its live connections
    sub("worker.rs","                            let _ = tokio::time::timeout(timeout, shutdown_coordinator.shutdown())\n                                .await;\n","                            let _ = (timeout, shutdown_coordinator);\n")
elif m=="d":   # the timeout is ignored by coordinator and workers
    sub("worker.rs","                            let _ = tokio::time::timeout(timeout, shutdown_coordinator.shutdown())\n                                .await;\n","                            shutdown_coordinator.shutdown().await;\n")
    sub("server_handle.rs","            let _ = tokio::time::timeout(timeout, async move {\n                while shutdown_join_set.join_next().await.is_some() {}\n            })\n            .await;\n","            let _ = timeout;\n            while shutdown_join_set.join_next().await.is_some() {}\n")
elif m=="d2":  # only the coordinator ignores the timeout
    sub("server_handle.rs","            let _ = tokio::time::timeout(timeout, async move {\n                while shutdown_join_set.join_next().await.is_some() {}\n            })\n            .await;\n","            let _ = timeout;\n            while shutdown_join_set.join_next().await.is_some() {}\n")
else:
    raise SystemExit("unknown mutant")
