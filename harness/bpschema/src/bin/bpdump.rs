//! C19 (a), reader side: reads each persisted blueprint back exactly like `pavexc_cli` does
//! (`ron::de::from_reader` into `pavex_bp_schema::Blueprint`) and dumps it, field by field, as JSON.
//! The dump is written by hand (no `Serialize` derive of the schema involved), so that the Python
//! oracle compares against what the compiler-side structs actually hold.
//!
//!   bpdump <dir> <n>
//!
//! stdout: one JSON line per blueprint: {"i":N,"bp":{..}} | {"i":N,"error":"..."} | {"i":N,"panic":"..."}
use pavex_bp_schema as s;
use serde_json::{Value, json};

fn loc(l: &s::Location) -> Value {
    json!({"line": l.line, "column": l.column, "file": l.file})
}

fn coords(c: &s::AnnotationCoordinates) -> Value {
    json!({
        "id": c.id,
        "package_name": c.created_at.package_name,
        "package_version": c.created_at.package_version,
        "macro_name": c.macro_name,
    })
}

fn eh(e: &Option<s::ErrorHandler>) -> Value {
    match e {
        None => Value::Null,
        Some(e) => json!({"coordinates": coords(&e.coordinates), "registered_at": loc(&e.registered_at)}),
    }
}

fn cloning(c: &Option<s::CloningPolicy>) -> Value {
    match c {
        None => Value::Null,
        Some(s::CloningPolicy::NeverClone) => json!("never_clone"),
        Some(s::CloningPolicy::CloneIfNecessary) => json!("clone_if_necessary"),
        #[allow(unreachable_patterns)]
        Some(_) => json!("<unknown cloning policy>"),
    }
}

fn lifecycle(l: &Option<s::Lifecycle>) -> Value {
    match l {
        None => Value::Null,
        Some(s::Lifecycle::Singleton) => json!("singleton"),
        Some(s::Lifecycle::RequestScoped) => json!("request_scoped"),
        Some(s::Lifecycle::Transient) => json!("transient"),
    }
}

fn sources(x: &s::Sources) -> Value {
    match x {
        s::Sources::All => json!("all"),
        s::Sources::Some(v) => json!({"some": v}),
    }
}

fn component(c: &s::Component) -> Value {
    use s::Component::*;
    match c {
        Constructor(c) => {
            let mut lints = serde_json::Map::new();
            for (k, v) in &c.lints {
                let k = match k {
                    s::Lint::Unused => "unused",
                    s::Lint::ErrorFallback => "error_fallback",
                    #[allow(unreachable_patterns)]
                    _ => "<unknown lint>",
                };
                let v = match v {
                    s::LintSetting::Allow => "allow",
                    s::LintSetting::Warn => "warn",
                    s::LintSetting::Deny => "deny",
                };
                lints.insert(k.into(), json!(v));
            }
            json!({"kind": "constructor", "coordinates": coords(&c.coordinates),
                   "lifecycle": lifecycle(&c.lifecycle), "cloning_policy": cloning(&c.cloning_policy),
                   "error_handler": eh(&c.error_handler), "lints": lints,
                   "registered_at": loc(&c.registered_at)})
        }
        WrappingMiddleware(m) => json!({"kind": "wrap", "coordinates": coords(&m.coordinates),
            "registered_at": loc(&m.registered_at), "error_handler": eh(&m.error_handler)}),
        PostProcessingMiddleware(m) => json!({"kind": "post_process", "coordinates": coords(&m.coordinates),
            "registered_at": loc(&m.registered_at), "error_handler": eh(&m.error_handler)}),
        PreProcessingMiddleware(m) => json!({"kind": "pre_process", "coordinates": coords(&m.coordinates),
            "registered_at": loc(&m.registered_at), "error_handler": eh(&m.error_handler)}),
        Route(r) => json!({"kind": "route", "coordinates": coords(&r.coordinates),
            "registered_at": loc(&r.registered_at), "error_handler": eh(&r.error_handler)}),
        FallbackRequestHandler(f) => json!({"kind": "fallback", "coordinates": coords(&f.coordinates),
            "registered_at": loc(&f.registered_at), "error_handler": eh(&f.error_handler)}),
        NestedBlueprint(n) => json!({"kind": "nested",
            "blueprint": blueprint(&n.blueprint),
            "path_prefix": match &n.path_prefix {
                None => Value::Null,
                Some(p) => json!({"value": p.path_prefix, "registered_at": loc(&p.registered_at)}),
            },
            "domain": match &n.domain {
                None => Value::Null,
                Some(d) => json!({"value": d.domain, "registered_at": loc(&d.registered_at)}),
            },
            "nested_at": loc(&n.nested_at)}),
        ErrorObserver(e) => json!({"kind": "error_observer", "coordinates": coords(&e.coordinates),
            "registered_at": loc(&e.registered_at)}),
        ErrorHandler(e) => json!({"kind": "error_handler", "coordinates": coords(&e.coordinates),
            "registered_at": loc(&e.registered_at)}),
        PrebuiltType(p) => json!({"kind": "prebuilt", "coordinates": coords(&p.coordinates),
            "cloning_policy": cloning(&p.cloning_policy), "registered_at": loc(&p.registered_at)}),
        ConfigType(c) => json!({"kind": "config", "coordinates": coords(&c.coordinates),
            "cloning_policy": cloning(&c.cloning_policy), "default_if_missing": c.default_if_missing,
            "include_if_unused": c.include_if_unused, "registered_at": loc(&c.registered_at)}),
        Import(i) => json!({"kind": "import", "sources": sources(&i.sources), "relative_to": i.relative_to,
            "package_name": i.created_at.package_name, "package_version": i.created_at.package_version,
            "registered_at": loc(&i.registered_at)}),
        RoutesImport(i) => json!({"kind": "routes_import", "sources": sources(&i.sources),
            "relative_to": i.relative_to,
            "package_name": i.created_at.package_name, "package_version": i.created_at.package_version,
            "registered_at": loc(&i.registered_at)}),
    }
}

fn blueprint(b: &s::Blueprint) -> Value {
    json!({
        "creation_location": loc(&b.creation_location),
        "components": b.components.iter().map(component).collect::<Vec<_>>(),
    })
}

fn main() {
    let mut args = std::env::args().skip(1);
    let dir = args.next().expect("usage: bpdump <dir> <n>");
    let n: usize = args.next().expect("usage: bpdump <dir> <n>").parse().unwrap();
    std::panic::set_hook(Box::new(|_| {}));
    for i in 0..n {
        let path = format!("{dir}/bp_{i}.ron");
        let res = std::panic::catch_unwind(|| -> Result<Value, String> {
            // Same two lines as `pavexc_cli::generate`.
            let file = std::fs::OpenOptions::new().read(true).open(&path).map_err(|e| format!("open: {e}"))?;
            let bp: s::Blueprint = ron::de::from_reader(&file).map_err(|e| format!("ron: {e}"))?;
            Ok(blueprint(&bp))
        });
        let line = match res {
            Ok(Ok(v)) => json!({"i": i, "bp": v}),
            Ok(Err(e)) => json!({"i": i, "error": e}),
            Err(_) => json!({"i": i, "panic": "panic while reading the blueprint"}),
        };
        println!("{line}");
    }
}
