//! C19 (b): loads a rustdoc JSON file (format of `/repo/rustdoc/rustdoc_types`) and, for every item,
//! feeds its attributes to `pavexc_attr_parser::parse` the way `pavexc_annotations::parse_pavex_attributes`
//! does (only `Attribute::Other` strings), then prints the parsed model, written out by hand, as JSON.
//!
//!   attrdump <crate.json>
//!
//! stdout: {"format_version":N} then one line per item that carries at least one attribute:
//!   {"key":"fn:<name>"|"struct:<name>"|"impl:<type>"|..., "attrs":[..], "parsed": {...}|null} | {"key":..,"error":".."} | {"key":..,"panic":".."}
//! then the outcome of the compiler's own collection step, `pavexc_annotations::process_queue`, fed with the
//! queue `pavexc`'s indexer builds (every item whose attributes parse to a Pavex annotation + every type):
//!   {"registered":"<key>","parsed":{..},"via_impl":bool}  per collected item,
//!   {"collect_error":"..."} per error, {"collect_panic":".."}
use pavexc_attr_parser::AnnotationProperties as P;
use rustdoc_types::{Attribute, Crate, ItemEnum, Type};
use serde_json::{Value, json};

fn cloning(c: &Option<pavex_bp_schema::CloningPolicy>) -> Value {
    match c {
        None => Value::Null,
        Some(pavex_bp_schema::CloningPolicy::NeverClone) => json!("never_clone"),
        Some(pavex_bp_schema::CloningPolicy::CloneIfNecessary) => json!("clone_if_necessary"),
        #[allow(unreachable_patterns)]
        Some(_) => json!("<unknown>"),
    }
}

fn props(p: &P) -> Value {
    match p {
        P::Constructor { id, lifecycle, cloning_policy, allow_unused, allow_error_fallback } => json!({
            "kind": "constructor", "id": id,
            "lifecycle": match lifecycle {
                pavex_bp_schema::Lifecycle::Singleton => "singleton",
                pavex_bp_schema::Lifecycle::RequestScoped => "request_scoped",
                pavex_bp_schema::Lifecycle::Transient => "transient",
            },
            "cloning_policy": cloning(cloning_policy), "allow_unused": allow_unused,
            "allow_error_fallback": allow_error_fallback}),
        P::Prebuilt { id, allow_unused, cloning_policy } => json!({"kind": "prebuilt", "id": id,
            "allow_unused": allow_unused, "cloning_policy": cloning(cloning_policy)}),
        P::Config { id, key, cloning_policy, default_if_missing, include_if_unused } => json!({
            "kind": "config", "id": id, "key": key, "cloning_policy": cloning(cloning_policy),
            "default_if_missing": default_if_missing, "include_if_unused": include_if_unused}),
        P::WrappingMiddleware { id, allow_error_fallback } => json!({"kind": "wrap", "id": id,
            "allow_error_fallback": allow_error_fallback}),
        P::PreProcessingMiddleware { id, allow_error_fallback } => json!({"kind": "pre_process", "id": id,
            "allow_error_fallback": allow_error_fallback}),
        P::PostProcessingMiddleware { id, allow_error_fallback } => json!({"kind": "post_process", "id": id,
            "allow_error_fallback": allow_error_fallback}),
        P::ErrorObserver { id } => json!({"kind": "error_observer", "id": id}),
        P::ErrorHandler { id, error_ref_input_index, default } => json!({"kind": "error_handler", "id": id,
            "error_ref_input_index": error_ref_input_index, "default": default}),
        P::Route { id, method, path, allow_error_fallback } => json!({"kind": "route", "id": id,
            "method": match method {
                pavex_bp_schema::MethodGuard::Any => json!("any"),
                pavex_bp_schema::MethodGuard::Some(s) => json!(s.iter().collect::<Vec<_>>()),
            },
            "path": path, "allow_error_fallback": allow_error_fallback}),
        P::Fallback { id, allow_error_fallback } => json!({"kind": "fallback", "id": id,
            "allow_error_fallback": allow_error_fallback}),
        P::Methods => json!({"kind": "methods"}),
    }
}

fn type_name(t: &Type) -> String {
    match t {
        Type::ResolvedPath(p) => p.path.rsplit("::").next().unwrap_or("").to_string(),
        other => format!("{other:?}"),
    }
}

struct Provider<'a>(&'a Crate);

impl pavexc_annotations::ItemProvider for Provider<'_> {
    fn get_item(&self, id: &rustdoc_types::Id) -> std::borrow::Cow<'_, rustdoc_types::Item> {
        std::borrow::Cow::Borrowed(&self.0.index[id])
    }
    fn maybe_get_item(&self, id: &rustdoc_types::Id) -> Option<std::borrow::Cow<'_, rustdoc_types::Item>> {
        self.0.index.get(id).map(std::borrow::Cow::Borrowed)
    }
}

fn item_key(item: &rustdoc_types::Item) -> String {
    let name = item.name.clone().unwrap_or_default();
    match &item.inner {
        ItemEnum::Function(_) => format!("fn:{name}"),
        ItemEnum::Struct(_) => format!("struct:{name}"),
        ItemEnum::Enum(_) => format!("enum:{name}"),
        ItemEnum::TypeAlias(_) => format!("type:{name}"),
        ItemEnum::Use(u) => format!("use:{}", u.name),
        ItemEnum::Impl(i) => format!("impl:{}", type_name(&i.for_)),
        ItemEnum::Constant { .. } => format!("const:{name}"),
        ItemEnum::Module(_) => format!("mod:{name}"),
        _ => format!("other:{name}"),
    }
}

fn main() {
    let path = std::env::args().nth(1).expect("usage: attrdump <crate.json>");
    let text = std::fs::read_to_string(&path).expect("cannot read the rustdoc JSON file");
    let krate: Crate = serde_json::from_str(&text).expect("rustdoc JSON does not match rustdoc_types");
    println!("{}", json!({"format_version": krate.format_version, "expected": rustdoc_types::FORMAT_VERSION}));
    std::panic::set_hook(Box::new(|_| {}));
    let mut ids: Vec<_> = krate.index.keys().collect();
    ids.sort_by_key(|i| i.0);
    for id in ids {
        let item = &krate.index[id];
        if item.crate_id != 0 || item.attrs.is_empty() {
            continue;
        }
        let key = item_key(item);
        // == pavexc_annotations::parse_pavex_attributes
        let relevant: Vec<&str> = item
            .attrs
            .iter()
            .filter_map(|a| if let Attribute::Other(a) = a { Some(a.as_str()) } else { None })
            .collect();
        let res = std::panic::catch_unwind(|| pavexc_attr_parser::parse(relevant.iter().copied()));
        let line = match res {
            Ok(Ok(Some(p))) => json!({"key": key, "attrs": relevant, "parsed": props(&p)}),
            Ok(Ok(None)) => json!({"key": key, "attrs": relevant, "parsed": Value::Null}),
            Ok(Err(e)) => json!({"key": key, "attrs": relevant, "error": e.to_string()}),
            Err(p) => {
                let msg = if let Some(s) = p.downcast_ref::<&str>() { s.to_string() }
                          else if let Some(s) = p.downcast_ref::<String>() { s.clone() }
                          else { "<non-string panic payload>".into() };
                json!({"key": key, "attrs": relevant, "panic": msg})
            }
        };
        println!("{line}");
    }

    // ---- the compiler's collection step
    let res = std::panic::catch_unwind(|| {
        let mut queue = std::collections::BTreeSet::new();
        for (id, item) in &krate.index {
            if item.crate_id != 0 {
                continue;
            }
            // == PavexIndexingVisitor::on_item_discovered / on_type_indexed
            let annotated = matches!(pavexc_annotations::parse_pavex_attributes(&item.attrs), Ok(Some(_)));
            let is_type = matches!(item.inner, ItemEnum::Struct(_) | ItemEnum::Enum(_) | ItemEnum::Trait(_));
            if annotated || is_type {
                queue.insert(pavexc_annotations::QueueItem::Standalone(*id));
            }
        }
        pavexc_annotations::process_queue(queue, &Provider(&krate))
    });
    match res {
        Ok((items, errors)) => {
            for (id, it) in items.iter() {
                let item = &krate.index[&id];
                println!("{}", json!({"registered": item_key(item), "parsed": props(&it.properties), "via_impl": it.impl_.is_some()}));
            }
            for e in errors {
                println!("{}", json!({"collect_error": format!("{e:?}").chars().take(400).collect::<String>()}));
            }
        }
        Err(_) => println!("{}", json!({"collect_panic": "panic in pavexc_annotations::process_queue"})),
    }
}
