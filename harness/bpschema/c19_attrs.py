"""C19 (b): generator of the attribute crate (`build/c19-gen/attrs/src/lib.rs`) and of the expected parsed
model per item. The argument spaces of the macros are small, so they are enumerated completely
(`exhaustive`); the random part is only argument order / spacing / string content.

Expectations come from the macro rustdoc in `/repo/runtime/pavex/src/lib.rs` (ids default to the
UPPER_SNAKE_CASE of the function / `<TYPE>_<METHOD>` / type name; `allow(any_method)` = every standard
method, + `non_standard_methods` = any method; `default` of error handlers defaults to true; ...)."""
import itertools

from c19_gen import Rng, rust_str

CARGO_TOML = '''[package]
name = "c19attrs"
version = "0.3.7"
edition = "2024"
publish = false

[workspace]

[lib]
path = "src/lib.rs"

[dependencies]
pavex = { path = "@REPO@/runtime/pavex" }
'''

STANDARD = ["CONNECT", "DELETE", "GET", "HEAD", "OPTIONS", "PATCH", "POST", "PUT", "TRACE"]
PATHS = ["/", "/users/{id}", "/a/{*rest}", "/sp ace", '/quo"te', "/uni/café", "/esc\\back", "/a/b/c/d/e/f",
         "/{a}/{b}", "/emoji/\U0001F980", "/tab\there"]
KEYS = ["server", "db_pool", "a", "nested_key_with_underscores", "k9"]


def letters(n):
    s = ""
    n += 26  # at least two letters
    while True:
        s = "abcdefghijklmnopqrstuvwxyz"[n % 26] + s
        n //= 26
        if n == 0:
            return s


def upper_snake(name):
    return name.upper()


def camel_to_snake_upper(name):
    out = ""
    for i, ch in enumerate(name):
        if ch.isupper() and i > 0:
            out += "_"
        out += ch.upper()
    return out


class Gen:
    def __init__(self, rng):
        self.rng = rng
        self.n = 0
        self.items = []
        self.expected = {}
        self.stats = {}

    def name(self, prefix):
        self.n += 1
        return "%s_%s" % (prefix, letters(self.n))

    def type_name(self, prefix):
        self.n += 1
        l = letters(self.n)
        return prefix + l[0].upper() + l[1:]

    def args(self, parts):
        """Join the attribute arguments in a random order with random spacing."""
        parts = [p for p in parts if p]
        for i in range(len(parts) - 1, 0, -1):
            j = self.rng.below(i + 1)
            parts[i], parts[j] = parts[j], parts[i]
        sep = self.rng.pick([", ", ",", " , ", ",\n    "])
        return sep.join(parts) + ("," if parts and self.rng.chance(1, 5) else "")

    def allow(self, lints):
        if lints is None:
            return None
        return "allow(%s)" % self.rng.pick([", ", ","]).join(lints)

    def record(self, key, attr, macro, cls, model):
        assert key not in self.expected, key
        self.expected[key] = {"attr": attr, "macro": macro, "cls": cls, "model": model}
        self.stats[macro] = self.stats.get(macro, 0) + 1

    def attr_path(self, macro):
        return "pavex::" + macro

    # ---------------------------------------------------------------- free functions
    def constructors(self):
        allows = [None, ["unused"], ["error_fallback"], ["unused", "error_fallback"], ["error_fallback", "unused"]]
        for macro, idm, cl, al, rn in itertools.product(["singleton", "request_scoped", "transient"], [False, True],
                                                        [None, "clone_if_necessary", "never_clone"], allows, [None, "px"]):
            fn = self.name("c_" + macro)
            cid = ("ID_" + fn.upper()) if idm else upper_snake(fn)
            a = self.args(['id = "%s"' % cid if idm else None, cl, self.allow(al), "pavex = %s" % rn if rn else None])
            attr = "#[%s%s]" % (self.attr_path(macro), "(%s)" % a if a or self.rng.chance(1, 2) else "")
            self.items.append("%s\npub fn %s() -> u8 { 0 }" % (attr, fn))
            cls = "id=%s,cloning=%s,allow=%s,rename=%s" % (idm, cl, "+".join(al) if al is not None else None, rn)
            self.record("fn:" + fn, attr, macro, cls, {
                "kind": "constructor", "id": cid, "lifecycle": macro, "cloning_policy": cl,
                "allow_unused": bool(al and "unused" in al), "allow_error_fallback": bool(al and "error_fallback" in al)})

    def shorthand_routes(self):
        k = 0
        for macro, idm, al in itertools.product(["get", "post", "put", "patch", "delete", "head", "options"],
                                                [False, True], [None, ["error_fallback"]]):
            fn = self.name("r_" + macro)
            rid = ("ID_" + fn.upper()) if idm else upper_snake(fn)
            path = PATHS[k % len(PATHS)]
            k += 1
            a = self.args(["path = %s" % rust_str(path, self.rng), 'id = "%s"' % rid if idm else None, self.allow(al)])
            attr = "#[%s(%s)]" % (self.attr_path(macro), a)
            self.items.append("%s\npub fn %s() {}" % (attr, fn))
            self.record("fn:" + fn, attr, macro, "id=%s,allow=%s" % (idm, "+".join(al) if al else None), {
                "kind": "route", "id": rid, "method": [macro.upper()], "path": path,
                "allow_error_fallback": bool(al)})
        # accepted by the shorthand macros although not listed in their rustdoc: `error_handler = "..."`
        for macro in ["get", "post"]:
            fn = self.name("r_eh_" + macro)
            attr = '#[pavex::%s(path = "/with/handler", error_handler = "crate::some_handler")]' % macro
            self.items.append("%s\npub fn %s() {}" % (attr, fn))
            self.record("fn:" + fn, attr, "route_shorthand", "undocumented:error_handler", {
                "kind": "route", "id": upper_snake(fn), "method": [macro.upper()], "path": "/with/handler",
                "allow_error_fallback": False})

    def full_routes(self):
        specs = []
        for m in STANDARD:
            specs.append(('method = "%s"' % m, [], [m], "single_standard"))
        specs.append(('method = ["GET", "HEAD"]', [], ["GET", "HEAD"], "list_standard"))
        specs.append(('method = ["POST", "PUT", "PATCH", "DELETE"]', [], ["DELETE", "PATCH", "POST", "PUT"], "list_standard"))
        specs.append(('method = ["GET", "GET"]', [], ["GET"], "list_duplicates"))
        specs.append(('method = ["TRACE"]', [], ["TRACE"], "list_of_one"))
        specs.append(('method = "QUERY"', ["non_standard_methods"], ["QUERY"], "single_custom"))
        specs.append(('method = "get"', ["non_standard_methods"], ["get"], "single_custom_lowercase"))
        specs.append(('method = "PURGE-ALL"', ["non_standard_methods"], ["PURGE-ALL"], "single_custom"))
        specs.append(('method = ["GET", "QUERY"]', ["non_standard_methods"], ["GET", "QUERY"], "list_mixed"))
        specs.append(('method = ["LOCK", "UNLOCK", "POST"]', ["non_standard_methods"], ["LOCK", "POST", "UNLOCK"], "list_mixed"))
        specs.append((None, ["any_method"], sorted(STANDARD), "any_standard"))
        specs.append((None, ["any_method", "non_standard_methods"], "any", "any"))
        specs.append((None, ["non_standard_methods", "any_method"], "any", "any"))
        k = 3
        for (marg, allows, method, mcls), idm, ef in itertools.product(specs, [False, True], [False, True]):
            fn = self.name("route")
            rid = ("ID_" + fn.upper()) if idm else upper_snake(fn)
            path = PATHS[k % len(PATHS)]
            k += 1
            al = list(allows) + (["error_fallback"] if ef else [])
            if ef and self.rng.chance(1, 2):
                al = ["error_fallback"] + list(allows)
            a = self.args([marg, "path = %s" % rust_str(path, self.rng), 'id = "%s"' % rid if idm else None,
                           self.allow(al) if al else None])
            attr = "#[pavex::route(%s)]" % a
            self.items.append("%s\npub fn %s() {}" % (attr, fn))
            self.record("fn:" + fn, attr, "route", "method=%s,id=%s,error_fallback=%s" % (mcls, idm, ef), {
                "kind": "route", "id": rid, "method": method, "path": path, "allow_error_fallback": ef})

    def middlewares(self):
        for macro, idm, al, rn in itertools.product(["wrap", "pre_process", "post_process"], [False, True],
                                                    [None, ["error_fallback"]], [None, "px"]):
            fn = self.name("m_" + macro)
            mid = ("ID_" + fn.upper()) if idm else upper_snake(fn)
            a = self.args(['id = "%s"' % mid if idm else None, self.allow(al), "pavex = %s" % rn if rn else None])
            attr = "#[pavex::%s%s]" % (macro, "(%s)" % a if a or self.rng.chance(1, 2) else "")
            self.items.append("%s\npub fn %s() {}" % (attr, fn))
            self.record("fn:" + fn, attr, macro, "id=%s,allow=%s,rename=%s" % (idm, bool(al), rn),
                        {"kind": macro, "id": mid, "allow_error_fallback": bool(al)})

    def error_handlers(self):
        shapes = [("_e: &u8", 0, "one_input"), ("_x: u16, #[px(error_ref)] _e: &u8", 1, "second_marked"),
                  ("#[px(error_ref)] _e: &u8, _x: u16, _y: u32", 0, "first_marked_of_three"),
                  ("_x: u16, _y: u32, #[px(error_ref)] _e: &u8", 2, "third_marked")]
        for idm, df, rn, (inputs, idx, scls) in itertools.product([False, True], [None, True, False], [None, "px"], shapes):
            fn = self.name("eh")
            hid = ("ID_" + fn.upper()) if idm else upper_snake(fn)
            a = self.args(['id = "%s"' % hid if idm else None, "default = %s" % str(df).lower() if df is not None else None,
                           "pavex = %s" % rn if rn else None])
            attr = "#[pavex::error_handler%s]" % ("(%s)" % a if a or self.rng.chance(1, 2) else "")
            self.items.append("%s\npub fn %s(%s) {}" % (attr, fn, inputs))
            self.record("fn:" + fn, attr, "error_handler", "id=%s,default=%s,rename=%s,inputs=%s" % (idm, df, rn, scls),
                        {"kind": "error_handler", "id": hid, "error_ref_input_index": idx, "default": df})

    def observers_fallbacks(self):
        for idm in [False, True]:
            fn = self.name("obs")
            oid = ("ID_" + fn.upper()) if idm else upper_snake(fn)
            attr = "#[pavex::error_observer%s]" % ('(id = "%s")' % oid if idm else "")
            self.items.append("%s\npub fn %s(_e: &u8) {}" % (attr, fn))
            self.record("fn:" + fn, attr, "error_observer", "id=%s" % idm, {"kind": "error_observer", "id": oid})
        for idm, al, rn in itertools.product([False, True], [None, ["error_fallback"]], [None, "px"]):
            fn = self.name("fb")
            fid = ("ID_" + fn.upper()) if idm else upper_snake(fn)
            a = self.args(['id = "%s"' % fid if idm else None, self.allow(al), "pavex = %s" % rn if rn else None])
            attr = "#[pavex::fallback%s]" % ("(%s)" % a if a else "")
            self.items.append("%s\npub fn %s() {}" % (attr, fn))
            self.record("fn:" + fn, attr, "fallback", "id=%s,allow=%s,rename=%s" % (idm, bool(al), rn),
                        {"kind": "fallback", "id": fid, "allow_error_fallback": bool(al)})

    # ---------------------------------------------------------------- types
    def type_item(self, shape, tname, attr):
        if shape == "struct":
            return "%s\n#[derive(Debug, Clone, Default)]\npub struct %s;" % (attr, tname), "struct:" + tname
        if shape == "enum":
            return "%s\n#[derive(Debug, Clone)]\npub enum %s { A, B }" % (attr, tname), "enum:" + tname
        if shape == "type":
            return "%s\npub type %s = std::sync::Arc<u64>;" % (attr, tname), "type:" + tname
        return "%s\npub use std::string::String as %s;" % (attr, tname), "use:" + tname

    def prebuilts(self):
        for shape, idm, cl, al in itertools.product(["struct", "enum", "type", "use"], [False, True],
                                                    [None, "clone_if_necessary", "never_clone"], [None, ["unused"]]):
            t = self.type_name("Pb")
            pid = ("ID_" + camel_to_snake_upper(t)) if idm else camel_to_snake_upper(t)
            a = self.args(['id = "%s"' % pid if idm else None, cl, self.allow(al)])
            attr = "#[pavex::prebuilt%s]" % ("(%s)" % a if a or self.rng.chance(1, 2) else "")
            src, key = self.type_item(shape, t, attr)
            self.items.append(src)
            self.record(key, attr, "prebuilt", "item=%s,id=%s,cloning=%s,allow=%s" % (shape, idm, cl, bool(al)),
                        {"kind": "prebuilt", "id": pid, "cloning_policy": cl, "allow_unused": bool(al)})

    def configs(self):
        k = 0
        for shape, idm, cl, dm, iu, rn in itertools.product(["struct", "enum", "type", "use"], [False, True],
                                                            [None, "clone_if_necessary", "never_clone"], [False, True],
                                                            [False, True], [None, "px"]):
            t = self.type_name("Cfg")
            cid = ("ID_" + camel_to_snake_upper(t)) if idm else camel_to_snake_upper(t)
            key_ = KEYS[k % len(KEYS)]
            k += 1
            a = self.args(['key = "%s"' % key_, 'id = "%s"' % cid if idm else None, cl,
                           "default_if_missing" if dm else None, "include_if_unused" if iu else None,
                           "pavex = %s" % rn if rn else None])
            attr = "#[pavex::config(%s)]" % a
            src, key = self.type_item(shape, t, attr)
            self.items.append(src)
            self.record(key, attr, "config", "item=%s,id=%s,cloning=%s,default_if_missing=%s,include_if_unused=%s,rename=%s"
                        % (shape, idm, cl, dm, iu, rn),
                        {"kind": "config", "id": cid, "key": key_, "cloning_policy": cl, "default_if_missing": dm,
                         "include_if_unused": iu})

    # ---------------------------------------------------------------- methods
    def method_blocks(self):
        for b in range(6):
            t = self.type_name("Ctl")
            tid = camel_to_snake_upper(t)
            qual = (b % 2 == 0)  # `#[pavex::get]` vs bare `#[get]` inside the impl block
            p = "pavex::" if qual else ""
            body = []

            def add(attr_txt, sig, macro, cls, model, ret=""):
                body.append("    %s\n    pub fn %s%s {%s}" % (attr_txt, sig, " -> u8" if ret else "", " 0 " if ret else ""))
                mname = sig.split("(")[0]
                self.record("fn:" + mname, attr_txt, "methods/" + macro, cls + (",qualified" if qual else ",bare"), model)

            m = self.name("make")
            add("#[%ssingleton(clone_if_necessary)]" % p, "%s()" % m, "singleton", "method_ctor",
                {"kind": "constructor", "id": "%s_%s" % (tid, m.upper()), "lifecycle": "singleton",
                 "cloning_policy": "clone_if_necessary", "allow_unused": False, "allow_error_fallback": False}, ret="u8")
            m = self.name("build")
            add('#[%srequest_scoped(id = "ID_%s", allow(unused))]' % (p, m.upper()), "%s(&self)" % m, "request_scoped", "method_ctor_self",
                {"kind": "constructor", "id": "ID_" + m.upper(), "lifecycle": "request_scoped", "cloning_policy": None,
                 "allow_unused": True, "allow_error_fallback": False})
            m = self.name("show")
            add('#[%sget(path = "/ctl/{id}")]' % p, "%s(&self)" % m, "get", "method_route",
                {"kind": "route", "id": "%s_%s" % (tid, m.upper()), "method": ["GET"], "path": "/ctl/{id}",
                 "allow_error_fallback": False})
            m = self.name("multi")
            add('#[%sroute(method = ["PUT", "POST"], path = "/ctl", allow(error_fallback))]' % p, "%s()" % m, "route", "method_route_multi",
                {"kind": "route", "id": "%s_%s" % (tid, m.upper()), "method": ["POST", "PUT"], "path": "/ctl",
                 "allow_error_fallback": True})
            m = self.name("around")
            add("#[%swrap]" % p, "%s(&self)" % m, "wrap", "method_mw",
                {"kind": "wrap", "id": "%s_%s" % (tid, m.upper()), "allow_error_fallback": False})
            m = self.name("before")
            add("#[%spre_process(allow(error_fallback))]" % p, "%s(&self)" % m, "pre_process", "method_mw",
                {"kind": "pre_process", "id": "%s_%s" % (tid, m.upper()), "allow_error_fallback": True})
            m = self.name("after")
            add('#[%spost_process(id = "ID_%s")]' % (p, m.upper()), "%s(&self)" % m, "post_process", "method_mw",
                {"kind": "post_process", "id": "ID_" + m.upper(), "allow_error_fallback": False})
            m = self.name("respond")
            add("#[%serror_handler]" % p, "%s(&self)" % m, "error_handler", "method_eh_self",
                {"kind": "error_handler", "id": "%s_%s" % (tid, m.upper()), "error_ref_input_index": 0, "default": None})
            m = self.name("respondx")
            add("#[%serror_handler(default = false)]" % p, "%s(#[px(error_ref)] &self, _x: u8)" % m, "error_handler", "method_eh_marked_self",
                {"kind": "error_handler", "id": "%s_%s" % (tid, m.upper()), "error_ref_input_index": 0, "default": False})
            m = self.name("respondy")
            add("#[%serror_handler(default = true)]" % p, "%s(&self, #[px(error_ref)] _e: &u8)" % m, "error_handler", "method_eh_marked_second",
                {"kind": "error_handler", "id": "%s_%s" % (tid, m.upper()), "error_ref_input_index": 1, "default": True})
            m = self.name("watch")
            add("#[%serror_observer]" % p, "%s(_e: &u8)" % m, "error_observer", "method_obs",
                {"kind": "error_observer", "id": "%s_%s" % (tid, m.upper())})
            m = self.name("missing")
            add("#[%sfallback]" % p, "%s()" % m, "fallback", "method_fb",
                {"kind": "fallback", "id": "%s_%s" % (tid, m.upper()), "allow_error_fallback": False})
            self.items.append("pub struct %s;\n#[pavex::methods]\nimpl %s {\n%s\n}" % (t, t, "\n".join(body)))
            self.record("impl:" + t, "#[pavex::methods]", "methods", "impl_block", {"kind": "methods"})


def generate(seed, tier):
    rng = Rng(seed * 0x51ED27 + 191)
    g = Gen(rng)
    copies = 1 if tier == "quick" else 3
    for _ in range(copies):
        g.constructors()
        g.shorthand_routes()
        g.full_routes()
        g.middlewares()
        g.error_handlers()
        g.observers_fallbacks()
        g.prebuilts()
        g.configs()
        g.method_blocks()
    src = "// GENERATED by harness/bpschema/c19_attrs.py (seed %d, tier %s)\n#![allow(unused, non_snake_case)]\nuse pavex as px;\n\n" % (seed, tier)
    src += "\n\n".join(g.items) + "\n"
    g.stats["exhaustive_argument_spaces"] = True
    g.stats["copies_with_shuffled_argument_order"] = copies
    return src, g.expected, g.stats


FLAG_FIELDS = {"allow_unused", "allow_error_fallback", "default_if_missing", "include_if_unused"}


def compare(model, parsed):
    """(field, want, got) for the first field that did not reach the parser unchanged, else None."""
    if parsed is None:
        return ("<whole attribute>", model, None)
    if parsed.get("kind") != model["kind"]:
        return ("kind", model["kind"], parsed.get("kind"))
    for f, want in model.items():
        got = parsed.get(f, "<absent>")
        if f in FLAG_FIELDS:
            if bool(want) != bool(got if got != "<absent>" else None):
                return (f, want, got)
        elif f == "default":
            ok = (got == want) or (want is None and got is True)  # documented default: `default = true`
            if not ok:
                return (f, want, got)
        elif f == "method":
            if got != want:
                return (f, want, got)
        elif got != want:
            return (f, want, got)
    return None
