//! C15 — "Typed request data equals what the client encoded, or a clean error".
//!
//! Values are drawn for every shape of the table (`shapes.rs`), written to the wire by the
//! independent encoders of `encode.rs`, and read back through the real public extractors:
//!   path  : `http::Uri` -> `matchit::Router::at` -> `RawPathParams::from` -> `PathParams::<T>::extract`
//!   query : `QueryParams::<T>::extract(&RequestHead)`
//!   form  : `UrlEncodedBody::<T>::extract(&RequestHead, &BufferedBody)`
//!   json  : `JsonBody::<T>::extract(&RequestHead, &BufferedBody)`
//! Oracle: decoded == original (fields matched by name, exactly-once decoding), or - for malformed
//! input - the documented error variant; never a panic.
mod encode;
mod shapes;

use bodyx::{Args, Deadline, Report, Rng, fnv64, guarded, panic_site};
use bytes::Bytes;
use encode::*;
use http::{HeaderMap, HeaderValue};
use http_body_util::Full;
use pavex::request::RequestHead;
use pavex::request::body::BufferedBody;
use pavex::request::path::RawPathParams;
use pavex::unit::ByteUnit;
use serde_json::{Value, json};
use shapes::*;

// ------------------------------------------------------------------------------------ comparison

#[derive(Debug)]
struct Mismatch {
    at: String,
    expected: String,
    got: String,
    kind: String,
    feature: &'static str,
}

fn string_feature(s: &str) -> &'static str {
    if s.is_empty() {
        "empty"
    } else if s.contains('%') {
        "percent_sign"
    } else if s.contains('+') {
        "plus_sign"
    } else if s.contains(' ') {
        "space"
    } else if s.chars().any(|c| c as u32 > 0xFFFF) {
        "astral"
    } else if !s.is_ascii() {
        "non_ascii"
    } else if s.chars().any(|c| (c as u32) < 0x20 || c as u32 == 0x7f) {
        "control"
    } else if s.chars().any(|c| "&=/?#;".contains(c)) {
        "reserved"
    } else if s.chars().any(|c| !c.is_ascii_alphanumeric() && !"-._~".contains(c)) {
        "other_punctuation"
    } else {
        "plain"
    }
}

fn leaf_feature(v: &Val) -> &'static str {
    match v {
        Val::S(s) => string_feature(s),
        Val::C(c) => string_feature(&c.to_string()),
        Val::U(n) if *n == 0 => "zero",
        Val::U(n) if [u8::MAX as u128, u16::MAX as u128, u32::MAX as u128, u64::MAX as u128, u128::MAX].contains(n) => "max",
        Val::U(n) if *n > u64::MAX as u128 => "above_u64",
        Val::I(n) if [i8::MIN as i128, i16::MIN as i128, i32::MIN as i128, i64::MIN as i128, i128::MIN].contains(n) => "min",
        Val::I(n) if [i8::MAX as i128, i16::MAX as i128, i32::MAX as i128, i64::MAX as i128, i128::MAX].contains(n) => "max",
        Val::I(n) if *n > i64::MAX as i128 || *n < i64::MIN as i128 => "beyond_i64",
        Val::F(f) if *f == 0.0 => "zero",
        Val::F(f) if f.abs() >= 1e300 || (f.abs() < 1e-300) => "extreme",
        Val::Null => "none",
        Val::Seq(_) => "sequence",
        _ => "ordinary",
    }
}

struct CmpObs {
    json_float_last_bits: u64,
    json_float_ulp_max: u64,
    float_witness: Option<(String, String, String, u64)>,
}

fn ulp_dist(a: f64, b: f64) -> u64 {
    let ord = |f: f64| {
        let b = f.to_bits() as i64;
        if b < 0 { i64::MIN - b } else { b }
    };
    (ord(a) as i128 - ord(b) as i128).unsigned_abs() as u64
}

fn cmp_val(kind: &Kind, exp: &Val, got: &Val, at: &str, src: Source, obs: &mut CmpObs) -> Option<Mismatch> {
    let mm = |e: &Val, g: &Val| Mismatch {
        at: at.to_string(),
        expected: format!("{e:?}"),
        got: format!("{g:?}"),
        kind: kind.base().name(),
        feature: leaf_feature(e),
    };
    match (exp, got) {
        (Val::U(a), Val::U(b)) if a == b => None,
        (Val::I(a), Val::I(b)) if a == b => None,
        (Val::B(a), Val::B(b)) if a == b => None,
        (Val::C(a), Val::C(b)) if a == b => None,
        (Val::S(a), Val::S(b)) if a == b => None,
        (Val::Null, Val::Null) => None,
        (Val::F(a), Val::F(b)) => {
            if a.to_bits() == b.to_bits() {
                None
            } else if src == Source::Json && a.is_sign_negative() == b.is_sign_negative() && ulp_dist(*a, *b) <= 8 {
                // The value is off in its last bits: serde_json's default number parser (built without
                // its `float_roundtrip` feature) is documented as imprecise. One signature for all.
                obs.json_float_last_bits += 1;
                obs.json_float_ulp_max = obs.json_float_ulp_max.max(ulp_dist(*a, *b));
                if obs.float_witness.is_none() {
                    obs.float_witness = Some((at.to_string(), format!("{a:e}"), format!("{b:e}"), ulp_dist(*a, *b)));
                }
                None
            } else {
                Some(mm(exp, got))
            }
        }
        (Val::Seq(a), Val::Seq(b)) => {
            if a.len() != b.len() {
                return Some(mm(exp, got));
            }
            let inner = match kind {
                Kind::Seq(k) => k.as_ref(),
                Kind::Opt(k) => match k.as_ref() {
                    Kind::Seq(k2) => k2.as_ref(),
                    k2 => k2,
                },
                k => k,
            };
            for (i, (x, y)) in a.iter().zip(b).enumerate() {
                if let Some(m) = cmp_val(inner, x, y, &format!("{at}[{i}]"), src, obs) {
                    return Some(m);
                }
            }
            None
        }
        (Val::Obj(a), Val::Obj(b)) => {
            let fields: Vec<(&'static str, Kind)> = match kind {
                Kind::Obj(f) => f.clone(),
                Kind::Opt(k) | Kind::Seq(k) => match k.as_ref() {
                    Kind::Obj(f) => f.clone(),
                    _ => vec![],
                },
                _ => vec![],
            };
            if a.len() != b.len() {
                return Some(mm(exp, got));
            }
            for (i, ((n, x), (_, y))) in a.iter().zip(b).enumerate() {
                let k = fields.get(i).map(|f| f.1.clone()).unwrap_or(Kind::String);
                if let Some(m) = cmp_val(&k, x, y, &format!("{at}.{n}"), src, obs) {
                    return Some(m);
                }
            }
            None
        }
        (e, g) => {
            let k2 = match kind {
                Kind::Opt(k) => k.as_ref(),
                k => k,
            };
            let _ = k2;
            Some(mm(e, g))
        }
    }
}

// ---------------------------------------------------------------------------------- expectations

#[derive(Clone, Debug, PartialEq)]
enum Expect {
    /// must be `Ok` with the original values
    OkEq,
    /// must be `Err` whose variant starts with one of these
    Err(Vec<&'static str>),
    /// `Err` of these variants, or `Ok` with exactly the original values (docs not explicit)
    ErrOrOkEq(Vec<&'static str>),
    /// `Ok` with the original values; an `Err` is only counted (docs silent)
    OkEqOrAnyErr,
    /// anything but a panic or a *different* value
    NoPanicOnly,
}

struct Case {
    src: Source,
    shape: &'static str,
    class: &'static str,
    wire: String,
    template: Option<String>,
    content_type: Option<String>,
    expected: Val,
    kind: Kind,
    expect: Expect,
    note: &'static str,
}

impl Case {
    fn describe(&self) -> Value {
        json!({
            "source": self.src.name(), "shape": self.shape, "class": self.class, "wire": self.wire,
            "template": self.template, "content_type": self.content_type,
            "original": format!("{:?}", self.expected), "expect": format!("{:?}", self.expect), "note": self.note,
            "replay": {"source": self.src.name(), "shape": self.shape, "class": self.class, "wire": self.wire,
                       "template": self.template, "content_type": self.content_type,
                       "original": val_to_json(&self.expected), "expect": expect_to_json(&self.expect)},
        })
    }
    fn from_replay(v: &Value, table: &'static [Shape]) -> Option<(Case, &'static Shape)> {
        let leak = |s: &str| -> &'static str { Box::leak(s.to_string().into_boxed_str()) };
        let shape = table.iter().find(|s| Some(s.name) == v["shape"].as_str())?;
        let src = match v["source"].as_str()? {
            "path" => Source::Path,
            "query" => Source::Query,
            "form" => Source::Form,
            _ => Source::Json,
        };
        let case = Case {
            src,
            shape: shape.name,
            class: leak(v["class"].as_str()?),
            wire: v["wire"].as_str()?.to_string(),
            template: v["template"].as_str().map(|s| s.to_string()),
            content_type: v["content_type"].as_str().map(|s| s.to_string()),
            expected: val_from_json(&v["original"])?,
            kind: Kind::Obj(shape.fields.clone()),
            expect: expect_from_json(&v["expect"])?,
            note: "replayed",
        };
        Some((case, shape))
    }
}

fn val_to_json(v: &Val) -> Value {
    match v {
        Val::U(n) => json!({"U": n.to_string()}),
        Val::I(n) => json!({"I": n.to_string()}),
        Val::F(f) => json!({"F": f.to_bits().to_string(), "text": format!("{f:e}")}),
        Val::B(b) => json!({"B": b}),
        Val::C(c) => json!({"C": (*c as u32)}),
        Val::S(s) => json!({"S": s}),
        Val::Null => Value::Null,
        Val::Seq(xs) => json!({"Seq": xs.iter().map(val_to_json).collect::<Vec<_>>()}),
        Val::Obj(fs) => json!({"Obj": fs.iter().map(|(n, x)| json!([n, val_to_json(x)])).collect::<Vec<_>>()}),
    }
}

fn val_from_json(v: &Value) -> Option<Val> {
    if v.is_null() {
        return Some(Val::Null);
    }
    let o = v.as_object()?;
    if let Some(x) = o.get("U") {
        return Some(Val::U(x.as_str()?.parse().ok()?));
    }
    if let Some(x) = o.get("I") {
        return Some(Val::I(x.as_str()?.parse().ok()?));
    }
    if let Some(x) = o.get("F") {
        return Some(Val::F(f64::from_bits(x.as_str()?.parse().ok()?)));
    }
    if let Some(x) = o.get("B") {
        return Some(Val::B(x.as_bool()?));
    }
    if let Some(x) = o.get("C") {
        return Some(Val::C(char::from_u32(x.as_u64()? as u32)?));
    }
    if let Some(x) = o.get("S") {
        return Some(Val::S(x.as_str()?.to_string()));
    }
    if let Some(x) = o.get("Seq") {
        return Some(Val::Seq(x.as_array()?.iter().map(val_from_json).collect::<Option<Vec<_>>>()?));
    }
    if let Some(x) = o.get("Obj") {
        let mut fs = vec![];
        for m in x.as_array()? {
            fs.push((m[0].as_str()?.to_string(), val_from_json(&m[1])?));
        }
        return Some(Val::Obj(fs));
    }
    None
}

fn expect_to_json(e: &Expect) -> Value {
    match e {
        Expect::OkEq => json!({"t": "OkEq"}),
        Expect::Err(v) => json!({"t": "Err", "v": v}),
        Expect::ErrOrOkEq(v) => json!({"t": "ErrOrOkEq", "v": v}),
        Expect::OkEqOrAnyErr => json!({"t": "OkEqOrAnyErr"}),
        Expect::NoPanicOnly => json!({"t": "NoPanicOnly"}),
    }
}

fn expect_from_json(v: &Value) -> Option<Expect> {
    let vs = || -> Vec<&'static str> {
        v["v"]
            .as_array()
            .map(|a| {
                a.iter()
                    .filter_map(|x| x.as_str())
                    .map(|s| -> &'static str { Box::leak(s.to_string().into_boxed_str()) })
                    .collect()
            })
            .unwrap_or_default()
    };
    Some(match v["t"].as_str()? {
        "OkEq" => Expect::OkEq,
        "Err" => Expect::Err(vs()),
        "ErrOrOkEq" => Expect::ErrOrOkEq(vs()),
        "OkEqOrAnyErr" => Expect::OkEqOrAnyErr,
        _ => Expect::NoPanicOnly,
    })
}

/// Re-execute a recorded case through the same public extractor.
fn execute_replay(env: &Env, shape: &'static Shape, case: &Case, rep: &mut Report) -> Option<Result<Outcome, String>> {
    match case.src {
        Source::Path => run_path(shape, case.template.as_deref()?, &case.wire, rep),
        Source::Query => {
            let head = head_for(&format!("/search?{}", case.wire), None)?;
            Some(guarded(|| (shape.query)(&head)))
        }
        Source::Form | Source::Json => {
            let bytes = match case.wire.strip_prefix("hex:") {
                Some(h) => (0..h.len() / 2).filter_map(|i| u8::from_str_radix(&h[2 * i..2 * i + 2], 16).ok()).collect(),
                None => case.wire.clone().into_bytes(),
            };
            let target = if case.src == Source::Form { "/form" } else { "/json" };
            let head = head_for(target, case.content_type.as_deref())?;
            let body = env.buffered(bytes);
            Some(guarded(|| if case.src == Source::Form { (shape.form)(&head, &body) } else { (shape.json)(&head, &body) }))
        }
    }
}

fn judge(case: &Case, out: Result<Outcome, String>, rep: &mut Report) {
    rep.evaluations += 1;
    let src = case.src.name();
    rep.group("cases_by_source", src);
    rep.group("cases_by_class", &format!("{src}/{}", case.class));
    let out = match out {
        Ok(o) => o,
        Err(p) => {
            rep.violation(
                json!({"kind":"panic","source":src,"site":panic_site(&p)}),
                json!({"panic": p, "case": case.describe()}),
            );
            return;
        }
    };
    let mut obs = CmpObs { json_float_last_bits: 0, json_float_ulp_max: 0, float_witness: None };
    let okind;
    match (&case.expect, &out) {
        (Expect::OkEq | Expect::ErrOrOkEq(_) | Expect::OkEqOrAnyErr | Expect::NoPanicOnly, Outcome::Ok(v)) => {
            okind = "ok";
            if let Some(m) = cmp_val(&case.kind, &case.expected, v, "", case.src, &mut obs) {
                // does the wrong value belong to another field? (positional instead of by-name matching)
                let swapped = if let Val::Obj(fs) = &case.expected {
                    fs.iter().any(|(n, ev)| !m.at.ends_with(n.as_str()) && format!("{ev:?}") == m.got && m.got != m.expected)
                } else {
                    false
                };
                let lossy = m.got.contains('\u{fffd}') && !m.expected.contains('\u{fffd}');
                let kind = if case.class == "invalid_utf8" && lossy {
                    "invalid_utf8_replaced_silently"
                } else if case.class.starts_with("good") || case.class.starts_with("pool") {
                    "value_mismatch"
                } else {
                    "malformed_accepted_with_other_value"
                };
                let good = kind == "value_mismatch";
                rep.violation(
                    json!({"kind": kind, "source": src, "class": if good { "well_formed" } else { case.class },
                           "field_kind": m.kind,
                           "feature": if swapped { "value_of_another_field" } else { m.feature }}),
                    json!({"at": m.at, "expected": m.expected, "got": m.got, "case": case.describe()}),
                );
            } else if case.expect != Expect::OkEq {
                rep.count(&format!("obs_{src}_{}_ok_with_original_values", case.class));
            }
        }
        (Expect::Err(_), Outcome::Ok(v)) => {
            okind = "ok";
            let lossy = format!("{v:?}").contains('\u{fffd}');
            let kind = if case.class == "invalid_utf8" && lossy { "invalid_utf8_replaced_silently" } else { "malformed_accepted" };
            rep.violation(
                json!({"kind": kind, "source": src, "class": case.class}),
                json!({"got": format!("{v:?}"), "case": case.describe()}),
            );
        }
        (Expect::OkEq, Outcome::Err { variant, msg }) => {
            okind = "err";
            let feat = all_leaf_features(&case.expected);
            rep.violation(
                json!({"kind":"spurious_error","source":src,"variant":variant,
                       "shape_feature": if shape_has_128(&case.kind) { "int128" } else { "other" }}),
                json!({"error": msg, "value_features": feat, "case": case.describe()}),
            );
        }
        (Expect::Err(vs) | Expect::ErrOrOkEq(vs), Outcome::Err { variant, msg }) => {
            okind = "err";
            if !vs.iter().any(|v| variant.starts_with(v)) {
                rep.violation(
                    json!({"kind":"wrong_error_variant","source":src,"class":case.class,"variant":variant}),
                    json!({"error": msg, "accepted_variants": vs, "case": case.describe()}),
                );
            }
            rep.group("error_variants", &format!("{src}/{}/{variant}", case.class));
        }
        (Expect::OkEqOrAnyErr | Expect::NoPanicOnly, Outcome::Err { variant, .. }) => {
            okind = "err";
            rep.count(&format!("obs_{src}_{}_rejected", case.class));
            rep.group("error_variants", &format!("{src}/{}/{variant}", case.class));
        }
    }
    if let Some((at, exp, got, ulps)) = obs.float_witness.take() {
        rep.add("json_floats_off_in_last_bits", obs.json_float_last_bits);
        rep.max("json_float_ulp_distance_max", obs.json_float_ulp_max);
        rep.violation(
            json!({"kind":"float_precision_loss","source":src}),
            json!({"at": at, "expected": exp, "got": got, "ulp_distance": ulps, "case": case.describe(),
                   "cause": "serde_json is built without `float_roundtrip`; JsonBody hands the application a neighbouring f64"}),
        );
    }
    rep.group("outcomes", &format!("{src}/{okind}"));
    // distinct non-trivial cases
    let feats = all_leaf_features(&case.expected);
    let key = format!("{src}|{}|{}|{feats}|{okind}|{}", case.shape, case.class, wire_signature(&case.wire));
    rep.distinct(fnv64(key.as_bytes()));
    rep.sample(&format!("{src}/{}", if case.class.starts_with("good") { "good" } else { case.class }), || {
        json!({"case": case.describe(), "outcome": format!("{out:?}").chars().take(400).collect::<String>()})
    });
}

fn shape_has_128(k: &Kind) -> bool {
    match k {
        Kind::Obj(fs) => fs.iter().any(|(_, k)| shape_has_128(k)),
        Kind::Opt(k) | Kind::Seq(k) => shape_has_128(k),
        k => k.is_128(),
    }
}

fn all_leaf_features(v: &Val) -> String {
    fn walk(v: &Val, out: &mut Vec<&'static str>) {
        match v {
            Val::Obj(fs) => fs.iter().for_each(|(_, x)| walk(x, out)),
            Val::Seq(xs) => {
                out.push("sequence");
                xs.iter().for_each(|x| walk(x, out))
            }
            x => out.push(leaf_feature(x)),
        }
    }
    let mut o = vec![];
    walk(v, &mut o);
    o.sort_unstable();
    o.dedup();
    o.join("+")
}

/// A coarse signature of the wire form: which escape styles and separators occur.
fn wire_signature(w: &str) -> String {
    let mut s = String::new();
    for (c, t) in [('%', 'p'), ('+', 's'), ('\\', 'b'), ('&', 'a'), ('/', 'l')] {
        if w.contains(c) {
            s.push(t);
        }
    }
    let lower_hex = w.as_bytes().windows(3).any(|x| x[0] == b'%' && (x[1].is_ascii_lowercase() || x[2].is_ascii_lowercase()));
    if lower_hex {
        s.push('h');
    }
    s.push_str(&format!("{}", w.len().min(40) / 4));
    s
}

// ------------------------------------------------------------------------------------- plumbing

struct Env {
    rt: tokio::runtime::Runtime,
}

impl Env {
    fn buffered(&self, bytes: Vec<u8>) -> BufferedBody {
        let head = RequestHead {
            method: http::Method::POST,
            target: "/".parse().unwrap(),
            version: http::Version::HTTP_11,
            headers: HeaderMap::new(),
        };
        self.rt
            .block_on(BufferedBody::verif_extract_with_limit(
                &head,
                Full::new(Bytes::from(bytes)),
                ByteUnit::from(u64::MAX),
            ))
            .expect("buffering an in-memory body cannot fail")
    }
}

fn head_for(target: &str, content_type: Option<&str>) -> Option<RequestHead> {
    let uri: http::Uri = target.parse().ok()?;
    let mut headers = HeaderMap::new();
    if let Some(ct) = content_type {
        headers.insert(http::header::CONTENT_TYPE, HeaderValue::from_str(ct).ok()?);
    }
    Some(RequestHead { method: http::Method::POST, target: uri, version: http::Version::HTTP_11, headers })
}

fn stringy_blocked(pairs: &[FlatPair], ctx: PctCtx) -> bool {
    pairs.iter().any(|p| p.str_kind && needs_decoding(&p.enc, ctx))
}

// ----------------------------------------------------------------------------------------- path

struct PathBuild {
    template: String,
    path: String,
}

#[allow(clippy::too_many_arguments)]
fn build_path(
    fields: &[(&'static str, Kind)],
    order: &[usize],
    wire_vals: &[String],
    tail_last: bool,
    extra_at: Option<usize>,
    rng: &mut Rng,
) -> PathBuild {
    let lits = ["x", "users", "v1", "_", "id", "a.b", "~"];
    let mut template = String::new();
    let mut path = String::new();
    for (pos, &fi) in order.iter().enumerate() {
        if extra_at == Some(pos) {
            template.push_str("/{zz_extra}");
            path.push_str("/extra");
        }
        if rng.chance(1, 2) {
            let l = rng.pick(&lits);
            template.push('/');
            template.push_str(l);
            path.push('/');
            path.push_str(l);
        }
        let name = fields[fi].0;
        if tail_last && pos + 1 == order.len() {
            template.push_str(&format!("/{{*{name}}}"));
        } else {
            template.push_str(&format!("/{{{name}}}"));
        }
        path.push('/');
        path.push_str(&wire_vals[fi]);
    }
    if order.is_empty() {
        template.push_str("/static");
        path.push_str("/static");
    }
    PathBuild { template, path }
}

fn run_path(shape: &Shape, template: &str, path: &str, rep: &mut Report) -> Option<Result<Outcome, String>> {
    let mut router = matchit::Router::new();
    if let Err(e) = router.insert(template.to_string(), ()) {
        rep.count("skipped_template_rejected_by_matchit");
        rep.sample("skipped_template", || json!({"template": template, "error": e.to_string()}));
        return None;
    }
    let target = if path.len() % 3 == 0 { format!("{path}?unrelated=%41&x=1") } else { path.to_string() };
    let Ok(uri) = target.parse::<http::Uri>() else {
        rep.count("skipped_uri_rejected_by_http_crate");
        return None;
    };
    let Ok(matched) = router.at(uri.path()) else {
        rep.count("skipped_route_not_matched");
        rep.sample("skipped_route", || json!({"template": template, "path": path}));
        return None;
    };
    let params: RawPathParams<'_, '_> = matched.params.into();
    Some(guarded(|| (shape.path)(params)))
}

fn path_case(shape: &'static Shape, rng: &mut Rng, rep: &mut Report, forced: Option<(Val, u64)>) {
    let fields = &shape.fields;
    let n = fields.len();
    let kind = Kind::Obj(fields.clone());
    let is_pool = forced.is_some();
    let (vals, style) = match forced {
        Some((v, s)) => (v, Some(s)),
        None => (gen_val(&kind, Source::Path, rng), None),
    };
    let Val::Obj(vals_v) = &vals else { unreachable!() };
    let mut order: Vec<usize> = (0..n).collect();
    rng.shuffle(&mut order);
    let last = *order.last().unwrap();
    let tail_last = fields[last].1.is_stringy() && rng.chance(1, 4);
    // encode
    let mut wire_vals = vec![];
    let mut blocked = false;
    for (i, (_, k)) in fields.iter().enumerate() {
        let raw = scalar_text(&vals_v[i].1, rng);
        let ctx = if tail_last && i == last { PctCtx::Tail } else { PctCtx::Segment };
        let enc = match style {
            Some(s) => pct_encode_style(&raw, ctx, s, rng),
            None => pct_encode(&raw, ctx, rng),
        };
        if *k == Kind::Str && needs_decoding(&enc, ctx) {
            blocked = true;
        }
        wire_vals.push(enc);
    }
    let class_roll = if is_pool { 0 } else { rng.below(100) };
    let (class, expect, template, path, note): (&'static str, Expect, String, String, &'static str);
    if class_roll < 62 {
        let pb = build_path(fields, &order, &wire_vals, tail_last, None, rng);
        class = if is_pool { "pool" } else if tail_last { "good_catch_all" } else { "good" };
        expect = if blocked { Expect::Err(vec!["PathDeserializationError"]) } else { Expect::OkEq };
        note = if blocked { "&str field whose wire form is percent-encoded: documented runtime error" } else { "" };
        template = pb.template;
        path = pb.path;
    } else if class_roll < 70 {
        let at = rng.below(n as u64) as usize;
        let pb = build_path(fields, &order, &wire_vals, tail_last, Some(at), rng);
        class = "good_extra_param";
        expect = if blocked { Expect::Err(vec!["PathDeserializationError"]) } else { Expect::OkEqOrAnyErr };
        note = "template has a parameter the struct does not name";
        template = pb.template;
        path = pb.path;
    } else if class_roll < 80 {
        // invalid UTF-8 after percent-decoding, in any one parameter
        let victim = rng.below(n as u64) as usize;
        wire_vals[victim] = rng.pick(BAD_UTF8_ESCAPES).to_string();
        let pb = build_path(fields, &order, &wire_vals, tail_last, None, rng);
        class = "invalid_utf8";
        expect = Expect::Err(vec!["InvalidUtf8InPathParameter"]);
        note = "";
        template = pb.template;
        path = pb.path;
    } else if class_roll < 92 {
        let cands: Vec<usize> = (0..n).filter(|i| fields[*i].1.is_scalar_nonstring()).collect();
        if cands.is_empty() {
            return;
        }
        let victim = *rng.pick(&cands);
        let bad = bad_text_for(&fields[victim].1, rng, false).unwrap();
        let ctx = if tail_last && victim == last { PctCtx::Tail } else { PctCtx::Segment };
        wire_vals[victim] = pct_encode(&bad, ctx, rng);
        let pb = build_path(fields, &order, &wire_vals, tail_last, None, rng);
        class = "wrong_type";
        expect = Expect::Err(vec!["PathDeserializationError"]);
        note = "";
        template = pb.template;
        path = pb.path;
    } else {
        // the template lacks a parameter the struct needs
        let drop = rng.below(n as u64) as usize;
        let order2: Vec<usize> = order.iter().copied().filter(|i| *i != drop).collect();
        let tail2 = tail_last && drop != last;
        let pb = build_path(fields, &order2, &wire_vals, tail2, None, rng);
        class = "missing_field";
        expect = Expect::Err(vec!["PathDeserializationError"]);
        note = "";
        template = pb.template;
        path = pb.path;
    }
    let Some(out) = run_path(shape, &template, &path, rep) else { return };
    let case = Case {
        src: Source::Path,
        shape: shape.name,
        class,
        wire: path,
        template: Some(template),
        content_type: None,
        expected: vals.clone(),
        kind,
        expect,
        note,
    };
    judge(&case, out, rep);
}

/// Types the guide lists as unsupported for path parameters: must be rejected, never panic.
fn path_unsupported_case(shape: &'static Shape, rng: &mut Rng, rep: &mut Report) {
    let fields = &shape.fields;
    let template: String = fields.iter().map(|(n, _)| format!("/{{{n}}}")).collect();
    let path: String = fields.iter().map(|_| format!("/{}", rng.range(0, 200))).collect();
    let Some(out) = run_path(shape, &template, &path, rep) else { return };
    let has_seq = fields.iter().any(|(_, k)| matches!(k, Kind::Seq(_) | Kind::Obj(_)));
    let case = Case {
        src: Source::Path,
        shape: shape.name,
        class: "unsupported_field_type",
        wire: path,
        template: Some(template),
        content_type: None,
        expected: Val::Null,
        kind: Kind::Obj(fields.clone()),
        expect: if has_seq { Expect::Err(vec!["PathDeserializationError"]) } else { Expect::NoPanicOnly },
        note: "collections are documented as unsupported in path parameters",
    };
    // NoPanicOnly with an Ok value would be compared against Null: only use it for Err-or-skip
    match (&case.expect, &out) {
        (Expect::NoPanicOnly, Ok(Outcome::Ok(_))) => {
            rep.evaluations += 1;
            rep.count("obs_path_option_fields_accepted");
        }
        _ => judge(&case, out, rep),
    }
}

// --------------------------------------------------------------------------------- query / form

const FORM_CT_GOOD: &[&str] = &[
    "application/x-www-form-urlencoded",
    "application/x-www-form-urlencoded; charset=UTF-8",
    "application/x-www-form-urlencoded;charset=utf-8",
];
const FORM_CT_BAD: &[&str] = &[
    "text/x-www-form-urlencoded",
    "application/form-urlencoded",
    "application/json",
    "text/plain",
    "multipart/form-data; boundary=x",
    "application/x-www-form-urlencoded2",
    "application/xml",
    "hello world",
    "text/x-www-form-urlencoded",
];
/// `mime` reports `x-www-form-urlencoded` as the subtype of these: the pinned tree accepts them. The
/// extractor has no rustdoc on this point (only the error text names the exact media type), so an
/// acceptance is counted, not flagged.
const FORM_CT_SUFFIXED: &[&str] = &["application/x-www-form-urlencoded+json", "application/x-www-form-urlencoded+xml"];
const JSON_CT_GOOD: &[&str] = &[
    "application/json",
    "application/json; charset=utf-8",
    "application/vnd.api+json",
    "application/hal+json",
    "application/ld+json;charset=UTF-8",
    "application/problem+json",
];
/// MIME types are case-insensitive (RFC 2045); the rustdoc only names the lower-case spelling, so
/// these are executed on every run but a rejection would only be counted.
const JSON_CT_CASE: &[&str] = &["APPLICATION/JSON", "Application/Json", "application/HAL+JSON", "Application/Vnd.Api+Json"];
const JSON_CT_BAD: &[&str] = &[
    "text/x.custom+json",
    "image/svg+json",
    "model/gltf+json",
    "application/x-json-stream",
    "text/plain",
    "application/x-www-form-urlencoded",
    "application/jsonx",
    "text/json",
    "application/xml",
    "multipart/form-data; boundary=x",
    "hello world",
    "application/javascript",
];

fn flat_case(env: &Env, shape: &'static Shape, src: Source, rng: &mut Rng, rep: &mut Report, forced: Option<(Val, u64)>) {
    let fields = &shape.fields;
    let n = fields.len();
    let kind = Kind::Obj(fields.clone());
    let ctx = PctCtx::FormComponent;
    let is_pool = forced.is_some();
    let (vals, style) = match forced {
        Some((v, s)) => (v, Some(s)),
        None => (gen_val(&kind, src, rng), None),
    };
    let Val::Obj(vals_v) = &vals else { unreachable!() };
    let mut pairs = flat_pairs(fields, vals_v, ctx, style, rng);
    let blocked = stringy_blocked(&pairs, ctx);
    let err_v: Vec<&'static str> = if src == Source::Query { vec!["QueryDeserializationError"] } else { vec!["DeserializationError"] };
    let mut content_type: Option<String> = if src == Source::Form { Some(rng.pick(FORM_CT_GOOD).to_string()) } else { None };
    // serde_html_form has no 128-bit integer support ("i128 is not supported"); the guide only says
    // "numbers": a clean rejection is counted, a different value would still be flagged.
    let wide = shape_has_128(&kind);
    let base_expect = if blocked {
        Expect::ErrOrOkEq(err_v.clone())
    } else if wide {
        Expect::OkEqOrAnyErr
    } else {
        Expect::OkEq
    };
    let class_roll = if is_pool { 0 } else { rng.below(100) };
    let mut class: &'static str = if is_pool { "pool" } else if wide { "good_int128" } else { "good" };
    let mut expect = base_expect.clone();
    let mut note = if blocked { "&str field whose wire form needs decoding" } else { "" };
    let mut extra: Vec<(String, String)> = vec![];
    let mut interleave = false;
    if class_roll < 56 {
    } else if class_roll < 62 {
        class = "good_extra_pair";
        extra.push(("zz_unknown".into(), pct_encode(&gen_string(rng, false), ctx, rng)));
        if !blocked {
            expect = Expect::OkEqOrAnyErr;
        }
        note = "an extra pair the struct does not name";
    } else if class_roll < 66 {
        // the members of a sequence are not adjacent on the wire
        if !fields.iter().any(|(_, k)| matches!(k, Kind::Seq(_))) {
            return;
        }
        class = "good_interleaved_sequence";
        interleave = true;
        if !blocked {
            expect = Expect::OkEqOrAnyErr;
        }
        note = "sequence members interleaved with other keys (docs only show adjacent members)";
    } else if class_roll < 76 {
        let cands: Vec<usize> = (0..pairs.len()).filter(|i| fields[pairs[*i].field].1.base().is_scalar_nonstring()).collect();
        if cands.is_empty() {
            return;
        }
        let pi = *rng.pick(&cands);
        let fk = &fields[pairs[pi].field].1;
        let allow_empty = !matches!(fk, Kind::Opt(_));
        let bad = bad_text_for(fk.base(), rng, allow_empty).unwrap();
        pairs[pi].enc = pct_encode(&bad, ctx, rng);
        class = "wrong_type";
        expect = Expect::Err(err_v.clone());
        note = "";
    } else if class_roll < 84 {
        let cands: Vec<usize> = (0..n).filter(|i| !matches!(fields[*i].1, Kind::Opt(_))).collect();
        if cands.is_empty() {
            return;
        }
        let drop = *rng.pick(&cands);
        pairs.retain(|p| p.field != drop);
        class = "missing_field";
        expect = Expect::Err(err_v.clone());
        note = "";
    } else if class_roll < 92 {
        let cands: Vec<usize> = (0..pairs.len()).filter(|i| fields[pairs[*i].field].1.base().is_stringy() || *fields[pairs[*i].field].1.base() == Kind::Char).collect();
        if cands.is_empty() {
            return;
        }
        let pi = *rng.pick(&cands);
        pairs[pi].enc = rng.pick(BAD_UTF8_ESCAPES).to_string();
        class = "invalid_utf8";
        expect = Expect::Err(err_v.clone());
        note = "percent-escapes that do not decode to UTF-8";
    } else if src == Source::Form {
        if rng.chance(1, 8) {
            content_type = Some(rng.pick(FORM_CT_SUFFIXED).to_string());
            class = "content_type_suffixed";
            expect = Expect::NoPanicOnly;
        } else if rng.chance(1, 3) {
            content_type = None;
            class = "content_type_missing";
            expect = Expect::Err(vec!["MissingContentType"]);
        } else {
            content_type = Some(rng.pick(FORM_CT_BAD).to_string());
            class = "content_type_mismatch";
            expect = Expect::Err(vec!["ContentTypeMismatch"]);
        }
        note = "";
    }
    // wire order: groups (one per field) permuted; members of a sequence stay in order
    let mut groups: Vec<Vec<(String, String)>> = vec![];
    for fi in 0..n {
        let g: Vec<(String, String)> = pairs.iter().filter(|p| p.field == fi).map(|p| (p.key.clone(), p.enc.clone())).collect();
        if !g.is_empty() {
            groups.push(g);
        }
    }
    for e in extra {
        groups.push(vec![e]);
    }
    rng.shuffle(&mut groups);
    let mut flat: Vec<(String, String)> = vec![];
    if interleave {
        // round-robin over the groups keeps the relative order inside each group
        let mut idx = vec![0usize; groups.len()];
        loop {
            let mut any = false;
            for (gi, g) in groups.iter().enumerate() {
                if idx[gi] < g.len() {
                    flat.push(g[idx[gi]].clone());
                    idx[gi] += 1;
                    any = true;
                }
            }
            if !any {
                break;
            }
        }
    } else {
        flat = groups.into_iter().flatten().collect();
    }
    let wire = join_pairs(&flat, rng);
    let out = match src {
        Source::Query => {
            let target = if wire.is_empty() && rng.chance(1, 2) { "/search".to_string() } else { format!("/search?{wire}") };
            let Some(head) = head_for(&target, None) else {
                rep.count("skipped_uri_rejected_by_http_crate");
                rep.sample("skipped_uri", || json!({"target": target}));
                return;
            };
            guarded(|| (shape.query)(&head))
        }
        _ => {
            let head = head_for("/form", content_type.as_deref()).expect("static target");
            let body = env.buffered(wire.clone().into_bytes());
            guarded(|| (shape.form)(&head, &body))
        }
    };
    let case = Case {
        src,
        shape: shape.name,
        class,
        wire,
        template: None,
        content_type,
        expected: vals.clone(),
        kind,
        expect,
        note,
    };
    judge(&case, out, rep);
}

// ----------------------------------------------------------------------------------------- json

fn json_case(env: &Env, shape: &'static Shape, rng: &mut Rng, rep: &mut Report, forced: Option<Val>) {
    let fields = &shape.fields;
    let n = fields.len();
    let kind = Kind::Obj(fields.clone());
    let is_pool = forced.is_some();
    let vals = forced.unwrap_or_else(|| gen_val(&kind, Source::Json, rng));
    let Val::Obj(vals_v) = &vals else { unreachable!() };
    let err_v = vec!["DeserializationError"];
    let mut content_type: Option<String> = Some(rng.pick(JSON_CT_GOOD).to_string());
    let mut blocked = false;
    let class_roll = if is_pool { 0 } else { rng.below(100) };
    let class: &'static str;
    let mut expect: Option<Expect> = None;
    let mut note = "";
    let mut bytes: Vec<u8>;
    if class_roll < 56 {
        class = if is_pool {
            "pool"
        } else if rng.chance(1, 12) {
            content_type = Some(rng.pick(JSON_CT_CASE).to_string());
            expect = Some(Expect::OkEqOrAnyErr);
            note = "upper/mixed case media type (case-insensitive per RFC 2045; rustdoc names the lower-case form)";
            "good_content_type_case"
        } else {
            "good"
        };
        bytes = json_object(fields, vals_v, rng, &mut blocked, &[], None).into_bytes();
    } else if class_roll < 62 {
        class = "good_extra_member";
        let lit = rng.pick(&["1", "\"x\"", "null", "[1,2]", "{\"a\":{\"b\":[]}}", "true"]).to_string();
        bytes = json_object(fields, vals_v, rng, &mut blocked, &[("zz_unknown".into(), lit)], None).into_bytes();
        expect = Some(Expect::OkEqOrAnyErr);
        note = "an extra member the struct does not name";
    } else if class_roll < 72 {
        class = "wrong_type";
        let victim = rng.below(n as u64) as usize;
        let lit = bad_json_literal_for(&fields[victim].1, rng);
        bytes = json_object(fields, vals_v, rng, &mut blocked, &[], Some((victim, Some(lit)))).into_bytes();
        expect = Some(Expect::Err(err_v.clone()));
    } else if class_roll < 79 {
        let cands: Vec<usize> = (0..n).filter(|i| !matches!(fields[*i].1, Kind::Opt(_))).collect();
        if cands.is_empty() {
            return;
        }
        class = "missing_field";
        let victim = *rng.pick(&cands);
        bytes = json_object(fields, vals_v, rng, &mut blocked, &[], Some((victim, None))).into_bytes();
        expect = Some(Expect::Err(err_v.clone()));
    } else if class_roll < 86 {
        class = "truncated";
        let full = json_object(fields, vals_v, rng, &mut blocked, &[], None).into_bytes();
        let trimmed_len = full.len(); // the printer never emits trailing blanks after '}'
        let cut = rng.below(trimmed_len as u64) as usize;
        bytes = full[..cut].to_vec();
        expect = Some(Expect::Err(err_v.clone()));
    } else if class_roll < 92 {
        class = "invalid_utf8";
        let text = json_object(fields, vals_v, rng, &mut blocked, &[], None);
        // put a stray byte inside the first string literal of the document (a member name at least)
        let pos = text.find('"').map(|p| p + 1).unwrap_or(0);
        bytes = text.into_bytes();
        let bad: &[u8] = *rng.pick(&[&[0xffu8][..], &[0xc3, 0x28], &[0xe2, 0x82], &[0xed, 0xa0, 0x80], &[0x80]]);
        for (i, b) in bad.iter().enumerate() {
            bytes.insert(pos + i, *b);
        }
        expect = Some(Expect::Err(err_v.clone()));
    } else {
        bytes = json_object(fields, vals_v, rng, &mut blocked, &[], None).into_bytes();
        if rng.chance(1, 3) {
            content_type = None;
            class = "content_type_missing";
            expect = Some(Expect::Err(vec!["MissingContentType"]));
        } else {
            content_type = Some(rng.pick(JSON_CT_BAD).to_string());
            class = "content_type_mismatch";
            expect = Some(Expect::Err(vec!["ContentTypeMismatch"]));
        }
    }
    // trailing / leading blanks around the document are allowed by JSON
    if class.starts_with("good") && rng.chance(1, 6) {
        bytes.insert(0, b' ');
        bytes.push(b'\n');
    }
    let expect = match expect {
        Some(Expect::OkEqOrAnyErr) if blocked => Expect::Err(err_v.clone()),
        Some(e) => e,
        None => {
            if blocked {
                note = "&str field written with an escape sequence: documented runtime error";
                Expect::Err(err_v.clone())
            } else {
                Expect::OkEq
            }
        }
    };
    let head = head_for("/json", content_type.as_deref()).expect("static target");
    let wire = String::from_utf8(bytes.clone()).unwrap_or_else(|_| format!("hex:{}", bodyx::hex_preview(&bytes, usize::MAX)));
    let body = env.buffered(bytes);
    let out = guarded(|| (shape.json)(&head, &body));
    let case = Case {
        src: Source::Json,
        shape: shape.name,
        class,
        wire,
        template: None,
        content_type,
        expected: vals.clone(),
        kind,
        expect,
        note,
    };
    judge(&case, out, rep);
}

// ------------------------------------------------------------------------------------ workloads

/// Every string of the hostile pool and every ordered pair of hostile characters, through every
/// source, every escaping style, for the one-field string shapes.
fn pool_workload(env: &Env, table: &'static [Shape], rng: &mut Rng, rep: &mut Report, dl: &Deadline) -> Value {
    let mut pool: Vec<String> = HOSTILE_STRINGS.iter().map(|s| s.to_string()).collect();
    let chars = hostile_chars();
    for a in chars {
        for b in chars {
            pool.push(format!("{a}{b}"));
        }
    }
    let names = ["OneString", "OneCow", "OneCowBorrow", "OneStr"];
    let mut complete = true;
    let mut n = 0u64;
    'o: for shape in table.iter().filter(|s| names.contains(&s.name)) {
        let fname = shape.fields[0].0.to_string();
        for s in &pool {
            for style in 0..4u64 {
                if dl.past(0.35) {
                    complete = false;
                    break 'o;
                }
                let v = Val::Obj(vec![(fname.clone(), Val::S(s.clone()))]);
                if !s.is_empty() {
                    path_case(shape, rng, rep, Some((v.clone(), style)));
                }
                flat_case(env, shape, Source::Query, rng, rep, Some((v.clone(), style)));
                flat_case(env, shape, Source::Form, rng, rep, Some((v.clone(), style)));
                if style == 0 {
                    json_case(env, shape, rng, rep, Some(v.clone()));
                    json_case(env, shape, rng, rep, Some(v));
                }
                n += 1;
            }
        }
    }
    json!({"hostile_pool_x_escape_styles_x_sources": complete, "pool_strings": pool.len(), "shapes": names,
           "escape_styles": 4, "combinations": n})
}

/// Fixed inputs executed on every run (one per finding reproduced on the pinned tree, plus their
/// well-behaved twins), so that those verdicts never depend on what the random generators draw.
fn regression_inputs(env: &Env, table: &'static [Shape], rep: &mut Report) {
    let shape = |n: &str| table.iter().find(|s| s.name == n).expect("shape");
    let one_string = shape("OneString");
    let kind_s = Kind::Obj(one_string.fields.clone());
    let name = |s: &str| Val::Obj(vec![("name".to_string(), Val::S(s.to_string()))]);
    for (wire, twin) in [("name=%FF", false), ("name=%C3%28", false), ("name=%C3%A9", true)] {
        // query
        let head = head_for(&format!("/search?{wire}"), None).expect("uri");
        let out = guarded(|| (one_string.query)(&head));
        let case = Case {
            src: Source::Query,
            shape: one_string.name,
            class: if twin { "good" } else { "invalid_utf8" },
            wire: wire.to_string(),
            template: None,
            content_type: None,
            expected: name("\u{e9}"),
            kind: kind_s.clone(),
            expect: if twin { Expect::OkEq } else { Expect::Err(vec!["QueryDeserializationError"]) },
            note: "regression input",
        };
        judge(&case, out, rep);
        // form
        let ct = "application/x-www-form-urlencoded";
        let head = head_for("/form", Some(ct)).expect("uri");
        let body = env.buffered(wire.as_bytes().to_vec());
        let out = guarded(|| (one_string.form)(&head, &body));
        let case = Case { src: Source::Form, content_type: Some(ct.to_string()),
            expect: if twin { Expect::OkEq } else { Expect::Err(vec!["DeserializationError"]) }, ..case };
        judge(&case, out, rep);
    }
    // path twin: the same bytes are rejected there
    {
        let out = run_path(one_string, "/u/{name}", "/u/%FF", rep);
        if let Some(out) = out {
            let case = Case {
                src: Source::Path, shape: one_string.name, class: "invalid_utf8", wire: "/u/%FF".into(),
                template: Some("/u/{name}".into()), content_type: None, expected: name("x"), kind: kind_s.clone(),
                expect: Expect::Err(vec!["InvalidUtf8InPathParameter"]), note: "regression input",
            };
            judge(&case, out, rep);
        }
    }
    // every content-type spelling of the tables, on a body that is otherwise fine
    let one_u8 = shape("OneU8");
    let kind_u = Kind::Obj(one_u8.fields.clone());
    let seven = Val::Obj(vec![("id".to_string(), Val::U(7))]);
    let ct_case = |src: Source, ct: Option<&str>, class: &'static str, expect: Expect, rep: &mut Report| {
        let (target, wire) = if src == Source::Json { ("/json", "{\"id\":7}") } else { ("/form", "id=7") };
        let Some(head) = head_for(target, ct) else { return };
        let body = env.buffered(wire.as_bytes().to_vec());
        let out = guarded(|| if src == Source::Json { (one_u8.json)(&head, &body) } else { (one_u8.form)(&head, &body) });
        let case = Case {
            src, shape: one_u8.name, class, wire: wire.to_string(), template: None,
            content_type: ct.map(|s| s.to_string()), expected: seven.clone(), kind: kind_u.clone(), expect,
            note: "regression input",
        };
        judge(&case, out, rep);
    };
    for ct in JSON_CT_GOOD {
        ct_case(Source::Json, Some(ct), "good", Expect::OkEq, rep);
    }
    for ct in JSON_CT_CASE {
        ct_case(Source::Json, Some(ct), "good_content_type_case", Expect::OkEqOrAnyErr, rep);
    }
    for ct in JSON_CT_BAD {
        ct_case(Source::Json, Some(ct), "content_type_mismatch", Expect::Err(vec!["ContentTypeMismatch"]), rep);
    }
    ct_case(Source::Json, None, "content_type_missing", Expect::Err(vec!["MissingContentType"]), rep);
    for ct in FORM_CT_GOOD {
        ct_case(Source::Form, Some(ct), "good", Expect::OkEq, rep);
    }
    for ct in FORM_CT_BAD {
        ct_case(Source::Form, Some(ct), "content_type_mismatch", Expect::Err(vec!["ContentTypeMismatch"]), rep);
    }
    for ct in FORM_CT_SUFFIXED {
        ct_case(Source::Form, Some(ct), "content_type_suffixed", Expect::NoPanicOnly, rep);
    }
    ct_case(Source::Form, None, "content_type_missing", Expect::Err(vec!["MissingContentType"]), rep);
    // 128-bit path values at the edges
    let wide = shape("Wide");
    for (big, neg) in [(u64::MAX as u128 + 1, i64::MIN as i128 - 1), (u128::MAX, i128::MIN), (0, i128::MAX)] {
        let path = format!("/w/{big}/{neg}");
        if let Some(out) = run_path(wide, "/w/{big}/{neg}", &path, rep) {
            let case = Case {
                src: Source::Path, shape: wide.name, class: "good", wire: path, template: Some("/w/{big}/{neg}".into()),
                content_type: None,
                expected: Val::Obj(vec![("big".to_string(), Val::U(big)), ("neg".to_string(), Val::I(neg))]),
                kind: Kind::Obj(wide.fields.clone()), expect: Expect::OkEq, note: "regression input",
            };
            judge(&case, out, rep);
        }
    }
    let one_f64 = shape("OneF64");
    let kind_f = Kind::Obj(one_f64.fields.clone());
    for f in [9.785020615791257e-228_f64, -1.0137042589778987e300, 0.1, 1.5] {
        let wire = format!("{{\"x\":{f:e}}}");
        let head = head_for("/json", Some("application/json")).expect("uri");
        let body = env.buffered(wire.clone().into_bytes());
        let out = guarded(|| (one_f64.json)(&head, &body));
        let case = Case {
            src: Source::Json, shape: one_f64.name, class: "good", wire, template: None,
            content_type: Some("application/json".into()),
            expected: Val::Obj(vec![("x".to_string(), Val::F(f))]), kind: kind_f.clone(), expect: Expect::OkEq,
            note: "regression input",
        };
        judge(&case, out, rep);
    }
}

fn random_workload(env: &Env, table: &'static [Shape], args: &Args, rep: &mut Report, dl: &Deadline) -> Value {
    let mut rng = Rng::new(args.seed).derive(0xC15 + args.shard * 7907);
    let planned: u64 = if args.thorough { 25_000_000 } else { 1_500_000 };
    let mut done = 0u64;
    for _ in 0..planned {
        if dl.past(0.95) {
            break;
        }
        let shape = &table[rng.below(table.len() as u64) as usize];
        let mut srcs = vec![];
        if shape.sources & P != 0 {
            srcs.push(Source::Path);
        }
        if shape.sources & Q != 0 {
            srcs.push(Source::Query);
        }
        if shape.sources & F != 0 {
            srcs.push(Source::Form);
        }
        if shape.sources & J != 0 {
            srcs.push(Source::Json);
            srcs.push(Source::Json);
        }
        match *rng.pick(&srcs) {
            Source::Path => path_case(shape, &mut rng, rep, None),
            Source::Query => flat_case(env, shape, Source::Query, &mut rng, rep, None),
            Source::Form => flat_case(env, shape, Source::Form, &mut rng, rep, None),
            Source::Json => json_case(env, shape, &mut rng, rep, None),
        }
        if shape.sources & P == 0 && shape.sources & Q != 0 && rng.chance(1, 40) {
            path_unsupported_case(shape, &mut rng, rep);
        }
        done += 1;
    }
    json!({"random_cases": done, "planned": planned})
}

fn main() {
    let args = bodyx::parse_args();
    bodyx::install_silent_panic_hook();
    let dl = Deadline::new(args.budget);
    let table: &'static [Shape] = Box::leak(table().into_boxed_slice());
    let env = Env { rt: tokio::runtime::Builder::new_current_thread().build().unwrap() };
    let mut rep = Report::new();
    let mut extra = serde_json::Map::new();
    if let Some(file) = &args.replay {
        let doc: Value = std::fs::read_to_string(file)
            .ok()
            .and_then(|t| serde_json::from_str(&t).ok())
            .unwrap_or(Value::Null);
        match Case::from_replay(&doc["detail"]["case"]["replay"], table) {
            Some((case, shape)) => match execute_replay(&env, shape, &case, &mut rep) {
                Some(out) => judge(&case, out, &mut rep),
                None => rep.inconclusive("the recorded input is rejected before reaching the extractor", json!({"file": file})),
            },
            None => rep.inconclusive("replay file does not describe a case of this harness", json!({"file": file})),
        }
        rep.finish("extract:replay", json!({"replayed": file}));
        return;
    }
    regression_inputs(&env, table, &mut rep);
    if args.shard == 0 {
        let mut rng = Rng::new(args.seed).derive(0x9001);
        extra.insert("exhaustive".into(), pool_workload(&env, table, &mut rng, &mut rep, &dl));
    }
    extra.insert("random".into(), random_workload(&env, table, &args, &mut rep, &dl));
    extra.insert("shapes".into(), json!(table.len()));
    extra.insert(
        "shape_table".into(),
        json!(table.iter().map(|s| format!("{}{{{}}}", s.name, s.fields.iter().map(|(n, k)| format!("{n}:{}", k.name())).collect::<Vec<_>>().join(","))).collect::<Vec<_>>()),
    );
    extra.insert("elapsed_s".into(), json!(dl.elapsed_s()));
    extra.insert("shard".into(), json!(format!("{}/{}", args.shard, args.shards)));
    rep.finish("extract", Value::Object(extra));
}
