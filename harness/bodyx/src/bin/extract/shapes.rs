//! The shape table: target types for the typed extractors, produced by one macro, plus the glue that
//! turns an extracted value back into a dynamic `Val` so that the oracle needs no generics.
use std::borrow::Cow;

use pavex::request::RequestHead;
use pavex::request::body::errors::{ExtractJsonBodyError, ExtractUrlEncodedBodyError};
use pavex::request::body::{BufferedBody, JsonBody, UrlEncodedBody};
use pavex::request::path::errors::{ErrorKind, ExtractPathParamsError};
use pavex::request::path::{PathParams, RawPathParams};
use pavex::request::query::QueryParams;
use pavex::request::query::errors::ExtractQueryParamsError;
use serde::Deserialize;

#[derive(Clone, Debug, PartialEq)]
pub enum Kind {
    U8,
    U16,
    U32,
    U64,
    I8,
    I16,
    I32,
    I64,
    U128,
    I128,
    F64,
    Bool,
    Char,
    String,
    /// `&'a str`: can only be produced by borrowing from the wire.
    Str,
    Cow,
    Opt(Box<Kind>),
    Seq(Box<Kind>),
    Obj(Vec<(&'static str, Kind)>),
}

impl Kind {
    pub fn name(&self) -> String {
        match self {
            Kind::Opt(k) => format!("Option<{}>", k.name()),
            Kind::Seq(k) => format!("Vec<{}>", k.name()),
            Kind::Obj(_) => "struct".into(),
            Kind::Str => "&str".into(),
            Kind::Cow => "Cow<str>".into(),
            k => format!("{k:?}").to_lowercase().replace("string", "String"),
        }
    }
    /// Through `Option`/`Vec`.
    pub fn base(&self) -> &Kind {
        match self {
            Kind::Opt(k) | Kind::Seq(k) => k.base(),
            k => k,
        }
    }
    pub fn is_128(&self) -> bool {
        matches!(self.base(), Kind::U128 | Kind::I128)
    }
    pub fn is_stringy(&self) -> bool {
        matches!(self, Kind::String | Kind::Str | Kind::Cow)
    }
    pub fn is_scalar_nonstring(&self) -> bool {
        !self.is_stringy() && !matches!(self, Kind::Opt(_) | Kind::Seq(_) | Kind::Obj(_))
    }
}

#[derive(Clone, Debug)]
pub enum Val {
    U(u128),
    I(i128),
    F(f64),
    B(bool),
    C(char),
    S(String),
    Null,
    Seq(Vec<Val>),
    Obj(Vec<(String, Val)>),
}

pub trait Field {
    fn kind() -> Kind;
    fn to_val(&self) -> Val;
}

macro_rules! int_field {
    ($($t:ty => $k:ident, $v:ident, $w:ty;)*) => {$(
        impl Field for $t {
            fn kind() -> Kind { Kind::$k }
            fn to_val(&self) -> Val { Val::$v(*self as $w) }
        }
    )*};
}
int_field! {
    u8 => U8, U, u128; u16 => U16, U, u128; u32 => U32, U, u128; u64 => U64, U, u128; u128 => U128, U, u128;
    i8 => I8, I, i128; i16 => I16, I, i128; i32 => I32, I, i128; i64 => I64, I, i128; i128 => I128, I, i128;
}
impl Field for f64 {
    fn kind() -> Kind {
        Kind::F64
    }
    fn to_val(&self) -> Val {
        Val::F(*self)
    }
}
impl Field for bool {
    fn kind() -> Kind {
        Kind::Bool
    }
    fn to_val(&self) -> Val {
        Val::B(*self)
    }
}
impl Field for char {
    fn kind() -> Kind {
        Kind::Char
    }
    fn to_val(&self) -> Val {
        Val::C(*self)
    }
}
impl Field for String {
    fn kind() -> Kind {
        Kind::String
    }
    fn to_val(&self) -> Val {
        Val::S(self.clone())
    }
}
impl Field for &str {
    fn kind() -> Kind {
        Kind::Str
    }
    fn to_val(&self) -> Val {
        Val::S(self.to_string())
    }
}
impl Field for Cow<'_, str> {
    fn kind() -> Kind {
        Kind::Cow
    }
    fn to_val(&self) -> Val {
        Val::S(self.to_string())
    }
}
impl<T: Field> Field for Option<T> {
    fn kind() -> Kind {
        Kind::Opt(Box::new(T::kind()))
    }
    fn to_val(&self) -> Val {
        match self {
            None => Val::Null,
            Some(v) => v.to_val(),
        }
    }
}
impl<T: Field> Field for Vec<T> {
    fn kind() -> Kind {
        Kind::Seq(Box::new(T::kind()))
    }
    fn to_val(&self) -> Val {
        Val::Seq(self.iter().map(|v| v.to_val()).collect())
    }
}

#[derive(Debug, Clone)]
pub enum Outcome {
    Ok(Val),
    Err { variant: String, msg: String },
}

pub fn drive_path<'a, T: Deserialize<'a> + Field>(p: RawPathParams<'a, 'a>) -> Outcome {
    match PathParams::<T>::extract(p) {
        Ok(v) => Outcome::Ok(v.0.to_val()),
        Err(e) => {
            let msg = e.to_string();
            let variant = match &e {
                ExtractPathParamsError::InvalidUtf8InPathParameter(_) => "InvalidUtf8InPathParameter".to_string(),
                ExtractPathParamsError::PathDeserializationError(d) => {
                    let k = match d.kind() {
                        ErrorKind::ParseErrorAtKey { .. } => "ParseErrorAtKey",
                        ErrorKind::ParseError { .. } => "ParseError",
                        ErrorKind::UnsupportedType { .. } => "UnsupportedType",
                        ErrorKind::Message(_) => "Message",
                        _ => "other",
                    };
                    format!("PathDeserializationError/{k}")
                }
                _ => "other".to_string(),
            };
            Outcome::Err { variant, msg }
        }
    }
}

pub fn drive_query<'a, T: Deserialize<'a> + Field>(h: &'a RequestHead) -> Outcome {
    match QueryParams::<T>::extract(h) {
        Ok(v) => Outcome::Ok(v.0.to_val()),
        Err(e) => {
            let msg = e.to_string();
            let variant = match &e {
                ExtractQueryParamsError::QueryDeserializationError(_) => "QueryDeserializationError",
                _ => "other",
            };
            Outcome::Err { variant: variant.into(), msg }
        }
    }
}

pub fn drive_json<'a, T: Deserialize<'a> + Field>(h: &'a RequestHead, b: &'a BufferedBody) -> Outcome {
    match JsonBody::<T>::extract(h, b) {
        Ok(v) => Outcome::Ok(v.0.to_val()),
        Err(e) => {
            let msg = e.to_string();
            let variant = match &e {
                ExtractJsonBodyError::MissingContentType(_) => "MissingContentType",
                ExtractJsonBodyError::ContentTypeMismatch(_) => "ContentTypeMismatch",
                ExtractJsonBodyError::DeserializationError(_) => "DeserializationError",
                _ => "other",
            };
            Outcome::Err { variant: variant.into(), msg }
        }
    }
}

pub fn drive_form<'a, T: Deserialize<'a> + Field>(h: &'a RequestHead, b: &'a BufferedBody) -> Outcome {
    match UrlEncodedBody::<T>::extract(h, b) {
        Ok(v) => Outcome::Ok(v.0.to_val()),
        Err(e) => {
            let msg = e.to_string();
            let variant = match &e {
                ExtractUrlEncodedBodyError::MissingContentType(_) => "MissingContentType",
                ExtractUrlEncodedBodyError::ContentTypeMismatch(_) => "ContentTypeMismatch",
                ExtractUrlEncodedBodyError::DeserializationError(_) => "DeserializationError",
                _ => "other",
            };
            Outcome::Err { variant: variant.into(), msg }
        }
    }
}

pub const P: u8 = 1;
pub const Q: u8 = 2;
pub const F: u8 = 4;
pub const J: u8 = 8;

pub struct Shape {
    pub name: &'static str,
    pub sources: u8,
    pub fields: Vec<(&'static str, Kind)>,
    pub path: for<'a> fn(RawPathParams<'a, 'a>) -> Outcome,
    pub query: for<'a> fn(&'a RequestHead) -> Outcome,
    pub json: for<'a> fn(&'a RequestHead, &'a BufferedBody) -> Outcome,
    pub form: for<'a> fn(&'a RequestHead, &'a BufferedBody) -> Outcome,
}

macro_rules! wire_name {
    ($f:ident) => {
        stringify!($f)
    };
    ($f:ident, $w:literal) => {
        $w
    };
}

/// `shape!(Name<'a>? { [attrs] field (as "wire name")? : Type, ... })` defines the struct, derives
/// `Deserialize`, and implements `Field` for it (so that it can also be nested).
macro_rules! shape {
    ($name:ident $(<$lt:lifetime>)? { $( $(#[$m:meta])* $f:ident $(as $w:literal)? : $t:ty ),* $(,)? }) => {
        #[derive(serde::Deserialize, Debug)]
        #[allow(dead_code)]
        pub struct $name $(<$lt>)? {
            $( $(#[$m])* $(#[serde(rename = $w)])? pub $f: $t, )*
        }
        impl $(<$lt>)? Field for $name $(<$lt>)? {
            fn kind() -> Kind {
                Kind::Obj(vec![ $( (wire_name!($f $(, $w)?), <$t as Field>::kind()), )* ])
            }
            fn to_val(&self) -> Val {
                Val::Obj(vec![ $( (wire_name!($f $(, $w)?).to_string(), self.$f.to_val()), )* ])
            }
        }
    };
}

macro_rules! entry {
    ($name:ident, $src:expr) => {{
        fn path<'a>(p: RawPathParams<'a, 'a>) -> Outcome {
            drive_path::<$name>(p)
        }
        fn query<'a>(h: &'a RequestHead) -> Outcome {
            drive_query::<$name>(h)
        }
        fn json<'a>(h: &'a RequestHead, b: &'a BufferedBody) -> Outcome {
            drive_json::<$name>(h, b)
        }
        fn form<'a>(h: &'a RequestHead, b: &'a BufferedBody) -> Outcome {
            drive_form::<$name>(h, b)
        }
        let Kind::Obj(fields) = <$name as Field>::kind() else { unreachable!() };
        Shape { name: stringify!($name), sources: $src, fields, path, query, json, form }
    }};
}

// ---- every source ------------------------------------------------------------------------------
shape!(OneU8 { id: u8 });
shape!(OneU64 { id: u64 });
shape!(TwoSigned { a: i8, b: i64 });
shape!(FourInts { a: u16, b: u32, c: i16, d: i32 });
shape!(OneString { name: String });
shape!(OneStr<'a> { name: &'a str });
shape!(OneCow<'a> { name: Cow<'a, str> });
shape!(OneCowBorrow<'a> { #[serde(borrow)] name: Cow<'a, str> });
shape!(TwoStrings { a: String, b: String });
shape!(TwoStringsRev { b: String, a: String });
shape!(MixedBorrow<'a> { z: &'a str, a: String, #[serde(borrow)] m: Cow<'a, str>, n: u32 });
shape!(BoolChar { flag: bool, c: char });
shape!(OneF64 { x: f64 });
shape!(Mixed4 { a: u8, b: String, c: bool, d: f64 });
shape!(ThreeIds { home_id: u32, room_id: u32, street_id: u32 });
shape!(CharString { c: char, s: String });
shape!(TwoStrs<'a> { a: &'a str, b: &'a str });
shape!(Extremes { lo: i64, hi: u64, w: i32, t: u8 });
shape!(Wide { big: u128, neg: i128 });
shape!(WideMixed { id: u128, name: String, n: i128, k: u8 });
// ---- query / form / json -----------------------------------------------------------------------
shape!(OptU32 { a: Option<u32> });
shape!(OptStringU8 { a: Option<String>, b: u8 });
shape!(OptStrBool<'a> { a: Option<&'a str>, b: Option<bool> });
shape!(OptMany { a: Option<f64>, b: Option<char>, c: Option<i64> });
shape!(SeqU32 { ids: Vec<u32> });
shape!(SeqStringI32 { tags: Vec<String>, n: i32 });
shape!(SeqBrackets { ids as "ids[]": Vec<u64>, q: String });
shape!(HostileKeys { name as "na me": String, kv as "k&v=": u8, ty as "type": bool });
shape!(SeqCharBool { cs: Vec<char>, bs: Vec<bool> });
// ---- json only ---------------------------------------------------------------------------------
shape!(Inner { a: u8, s: String });
shape!(InnerB<'a> { s: &'a str, #[serde(borrow)] c: Cow<'a, str> });
shape!(Nested { inner: Inner, x: bool });
shape!(NestedSeq { items: Vec<Inner>, n: i16 });
shape!(SeqOpt { a: Vec<Option<i32>>, b: Option<Vec<String>> });
shape!(NestedBorrow<'a> { #[serde(borrow)] inner: InnerB<'a>, n: u64 });
shape!(SeqF64 { v: Vec<f64>, e: Vec<u8> });
shape!(OptNested { inner: Option<Inner>, k: char });

pub fn table() -> Vec<Shape> {
    const ALL: u8 = P | Q | F | J;
    const QFJ: u8 = Q | F | J;
    vec![
        entry!(OneU8, ALL),
        entry!(OneU64, ALL),
        entry!(TwoSigned, ALL),
        entry!(FourInts, ALL),
        entry!(OneString, ALL),
        entry!(OneStr, ALL),
        entry!(OneCow, ALL),
        entry!(OneCowBorrow, ALL),
        entry!(TwoStrings, ALL),
        entry!(TwoStringsRev, ALL),
        entry!(MixedBorrow, ALL),
        entry!(BoolChar, ALL),
        entry!(OneF64, ALL),
        entry!(Mixed4, ALL),
        entry!(ThreeIds, ALL),
        entry!(CharString, ALL),
        entry!(TwoStrs, ALL),
        entry!(Extremes, ALL),
        entry!(Wide, ALL),
        entry!(WideMixed, ALL),
        entry!(OptU32, QFJ),
        entry!(OptStringU8, QFJ),
        entry!(OptStrBool, QFJ),
        entry!(OptMany, QFJ),
        entry!(SeqU32, QFJ),
        entry!(SeqStringI32, QFJ),
        entry!(SeqBrackets, QFJ),
        entry!(HostileKeys, QFJ),
        entry!(SeqCharBool, QFJ),
        entry!(Nested, J),
        entry!(NestedSeq, J),
        entry!(SeqOpt, J),
        entry!(NestedBorrow, J),
        entry!(SeqF64, J),
        entry!(OptNested, J),
    ]
}
