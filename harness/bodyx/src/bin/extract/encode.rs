//! Value generators and the *independent* encoders (the oracle's side of the round trip):
//! an own percent-encoder over the RFC 3986 unreserved set, an own `k=v&` joiner, an own JSON object /
//! array / string printer (`serde_json` is only used to print some leaf literals).
use bodyx::Rng;

use crate::shapes::{Kind, Val};

#[derive(Clone, Copy, Debug, PartialEq, Eq)]
pub enum Source {
    Path,
    Query,
    Form,
    Json,
}

impl Source {
    pub fn name(self) -> &'static str {
        match self {
            Source::Path => "path",
            Source::Query => "query",
            Source::Form => "form",
            Source::Json => "json",
        }
    }
}

// --------------------------------------------------------------------------------- value pools

pub const HOSTILE_STRINGS: &[&str] = &[
    "", " ", "a b", "a+b", "+", " +", "1+1=2", "a&b=c", "&", "&&", "=", "a=b", "/", "a/b", "../x", ".", "..",
    "?", "a?b", "#", "#frag", "%", "%25", "%2541", "%41", "100%", "%%", "%zz", "%2", "%2F", "%20", "a%20b",
    "%E2%82%AC", "+%2B+", "é", "e\u{301}", "ß", "日本語", "😀", "a😀b", "👩‍👩‍👧", "\u{0}", "\n", "\t", "\r\n", "a\nb",
    "\u{7f}", "\u{80}", "\u{ff}", "\u{fffd}", "\u{feff}x", "\u{200b}", "\u{202e}abc", ";", "a;b", "'", "\"",
    "\\", "\\n", "\\u0041", "{}", "[]", "{\"a\":1}", "null", "true", "false", "123", "-0", "1e5", "NaN",
    "<script>", "a|b", "^`", "~", "-._~", "key=val&key2=val2", "http://h/p?q#f", "@:", "!$'()*,", "\u{10ffff}",
    "\u{d7ff}\u{e000}", "İ", "ǅ", "ﬁ",
];

const HOSTILE_CHARS: &[char] = &[
    'a', 'Z', '0', ' ', '%', '+', '&', '=', '/', '?', '#', ';', ':', '@', '"', '\'', '\\', '<', '{', '}', '[', ']',
    '|', '^', '`', '~', '.', '-', '_', 'é', 'ß', '日', '😀', '\u{0}', '\n', '\t', '\r', '\u{7f}', '\u{80}',
    '\u{fffd}', '\u{feff}', '\u{200b}', '\u{10ffff}', '\u{301}', '2', '5', '4', '1',
];

pub fn hostile_chars() -> &'static [char] {
    HOSTILE_CHARS
}

const UNRESERVED: &[u8] = b"ABCDEFGHIJKLMNOPQRSTUVWXYZabcdefghijklmnopqrstuvwxyz0123456789-._~";

pub fn gen_string(rng: &mut Rng, nonempty: bool) -> String {
    let s = match rng.below(20) {
        0..=6 => {
            let n = rng.range(1, 12);
            (0..n).map(|_| *rng.pick(UNRESERVED) as char).collect()
        }
        7..=15 => rng.pick(HOSTILE_STRINGS).to_string(),
        16..=18 => {
            let n = rng.range(0, 16);
            (0..n).map(|_| *rng.pick(HOSTILE_CHARS)).collect()
        }
        _ => {
            // long, mostly plain with a few hostile characters
            let n = rng.range(100, 400);
            (0..n)
                .map(|_| if rng.chance(1, 12) { *rng.pick(HOSTILE_CHARS) } else { *rng.pick(UNRESERVED) as char })
                .collect()
        }
    };
    if nonempty && s.is_empty() { "x".to_string() } else { s }
}

fn gen_char(rng: &mut Rng) -> char {
    if rng.chance(3, 4) {
        *rng.pick(HOSTILE_CHARS)
    } else {
        loop {
            if let Some(c) = char::from_u32(rng.below(0x11_0000) as u32) {
                return c;
            }
        }
    }
}

fn gen_unsigned(rng: &mut Rng, max: u64) -> u64 {
    match rng.below(8) {
        0 => 0,
        1 => 1,
        2 => max,
        3 => max - 1,
        4 => max / 2 + 1,
        _ => {
            if max == u64::MAX {
                rng.next()
            } else {
                rng.below(max + 1)
            }
        }
    }
}

fn gen_signed(rng: &mut Rng, min: i64, max: i64) -> i64 {
    match rng.below(9) {
        0 => 0,
        1 => -1,
        2 => max,
        3 => min,
        4 => min + 1,
        5 => max - 1,
        _ => {
            let span = (max as i128 - min as i128 + 1) as u128;
            (min as i128 + (rng.next() as u128 % span) as i128) as i64
        }
    }
}

fn gen_u128(rng: &mut Rng) -> u128 {
    match rng.below(12) {
        0 => 0,
        1 => 1,
        2 => u64::MAX as u128,
        3 => u64::MAX as u128 + 1,
        4 => u128::MAX,
        5 => u128::MAX - 1,
        6 => i128::MAX as u128,
        7 => i128::MAX as u128 + 1,
        8 => rng.next() as u128,
        _ => ((rng.next() as u128) << 64) | rng.next() as u128,
    }
}

fn gen_i128(rng: &mut Rng) -> i128 {
    match rng.below(14) {
        0 => 0,
        1 => -1,
        2 => i128::MIN,
        3 => i128::MAX,
        4 => i128::MIN + 1,
        5 => i64::MIN as i128 - 1,
        6 => i64::MAX as i128 + 1,
        7 => u64::MAX as i128,
        8 => u64::MAX as i128 + 1,
        9 => -(u64::MAX as i128) - 1,
        10 => rng.next() as i64 as i128,
        _ => (((rng.next() as u128) << 64) | rng.next() as u128) as i128,
    }
}

const FLOATS: &[f64] = &[
    0.0, -0.0, 1.0, -1.0, 0.5, 1.5, -2.25, 0.1, 0.2, 0.30000000000000004, 1e21, 1e-7, 123456789.125,
    f64::MAX, f64::MIN, f64::MIN_POSITIVE, 5e-324, 2.2250738585072011e-308, 9007199254740993.0, 1e308, 1.7976931348623157e308,
    4.35, 0.000001, 1e15, 1e16, 1e17, 8.41e21, 3.141592653589793,
];

fn gen_f64(rng: &mut Rng) -> f64 {
    if rng.chance(1, 2) {
        *rng.pick(FLOATS)
    } else {
        loop {
            let f = f64::from_bits(rng.next());
            if f.is_finite() {
                return f;
            }
        }
    }
}

pub fn gen_val(kind: &Kind, src: Source, rng: &mut Rng) -> Val {
    let flat = src != Source::Json; // path / query / form: text values
    match kind {
        Kind::U8 => Val::U(gen_unsigned(rng, u8::MAX as u64) as u128),
        Kind::U16 => Val::U(gen_unsigned(rng, u16::MAX as u64) as u128),
        Kind::U32 => Val::U(gen_unsigned(rng, u32::MAX as u64) as u128),
        Kind::U64 => Val::U(gen_unsigned(rng, u64::MAX) as u128),
        Kind::U128 => Val::U(gen_u128(rng)),
        Kind::I128 => Val::I(gen_i128(rng)),
        Kind::I8 => Val::I(gen_signed(rng, i8::MIN as i64, i8::MAX as i64) as i128),
        Kind::I16 => Val::I(gen_signed(rng, i16::MIN as i64, i16::MAX as i64) as i128),
        Kind::I32 => Val::I(gen_signed(rng, i32::MIN as i64, i32::MAX as i64) as i128),
        Kind::I64 => Val::I(gen_signed(rng, i64::MIN, i64::MAX) as i128),
        Kind::F64 => Val::F(gen_f64(rng)),
        Kind::Bool => Val::B(rng.chance(1, 2)),
        Kind::Char => Val::C(gen_char(rng)),
        Kind::String | Kind::Str | Kind::Cow => Val::S(gen_string(rng, src == Source::Path)),
        Kind::Opt(inner) => {
            if rng.chance(3, 10) {
                Val::Null
            } else {
                let mut v = gen_val(inner, src, rng);
                // In the flat encodings "absent" is how `None` is written and there is no agreed way to
                // tell `Some("")` from `None`: not generated (the docs are silent).
                if flat {
                    if let Val::S(s) = &v {
                        if s.is_empty() {
                            v = Val::S("x".into());
                        }
                    }
                }
                v
            }
        }
        Kind::Seq(inner) => {
            let lo = if flat { 1 } else { 0 };
            let n = rng.range(lo, 4);
            Val::Seq((0..n).map(|_| gen_val(inner, src, rng)).collect())
        }
        Kind::Obj(fields) => Val::Obj(
            fields
                .iter()
                .map(|(n, k)| (n.to_string(), gen_val(k, src, rng)))
                .collect(),
        ),
    }
}

// ------------------------------------------------------------------------------- percent-encoding

#[derive(Clone, Copy, PartialEq)]
pub enum PctCtx {
    /// one path segment (`pchar`, but '/' always encoded)
    Segment,
    /// a catch-all tail: '/' may stay literal
    Tail,
    /// a query / form component: space may become '+', '+' is always escaped
    FormComponent,
}

/// Own percent-encoder. Everything outside the unreserved set is escaped, except that characters
/// that RFC 3986 allows literally in that position are left alone half of the time; unreserved
/// characters are occasionally over-escaped (which a conforming decoder must undo); hex digit case
/// varies.
pub fn pct_encode(s: &str, ctx: PctCtx, rng: &mut Rng) -> String {
    let style = rng.below(4);
    pct_encode_style(s, ctx, style, rng)
}

/// style 0: strict minimal, 1: allowed literals stay half of the time, 2: + over-escaping of
/// unreserved characters, 3: escape every byte.
pub fn pct_encode_style(s: &str, ctx: PctCtx, style: u64, rng: &mut Rng) -> String {
    let literal_ok: &[u8] = match ctx {
        PctCtx::Segment => b"!$&'()*+,;=:@",
        PctCtx::Tail => b"!$&'()*+,;=:@/",
        PctCtx::FormComponent => b"!$'()*,:@/?",
    };
    let mut out = String::with_capacity(s.len() * 3);
    for &b in s.as_bytes() {
        let unreserved = UNRESERVED.contains(&b);
        let keep = if style == 3 {
            false
        } else if unreserved {
            !(style == 2 && rng.chance(1, 10))
        } else if b == b' ' && ctx == PctCtx::FormComponent {
            if rng.chance(1, 2) {
                out.push('+');
                continue;
            }
            false
        } else if literal_ok.contains(&b) {
            style != 0 && rng.chance(1, 2)
        } else {
            false
        };
        if keep {
            out.push(b as char);
        } else if rng.chance(1, 3) {
            out.push_str(&format!("%{b:02x}"));
        } else {
            out.push_str(&format!("%{b:02X}"));
        }
    }
    out
}

pub fn needs_decoding(wire: &str, ctx: PctCtx) -> bool {
    wire.contains('%') || (ctx == PctCtx::FormComponent && wire.contains('+'))
}

/// Text form of a scalar in the flat encodings.
pub fn scalar_text(v: &Val, rng: &mut Rng) -> String {
    match v {
        Val::U(n) => n.to_string(),
        Val::I(n) => n.to_string(),
        Val::F(f) => {
            if rng.chance(1, 3) {
                format!("{f:e}")
            } else {
                format!("{f}")
            }
        }
        Val::B(b) => (if *b { "true" } else { "false" }).to_string(),
        Val::C(c) => c.to_string(),
        Val::S(s) => s.clone(),
        _ => unreachable!("not a scalar: {v:?}"),
    }
}

/// The wire form of a flat struct as `(key, encoded value, is_borrowed_str_kind)` pairs, in
/// declaration order; sequences expand to repeated keys, `None` to no pair at all.
pub struct FlatPair {
    pub field: usize,
    pub key: String,
    pub enc: String,
    pub str_kind: bool,
}

pub fn flat_pairs(
    fields: &[(&'static str, Kind)],
    vals: &[(String, Val)],
    ctx: PctCtx,
    style: Option<u64>,
    rng: &mut Rng,
) -> Vec<FlatPair> {
    let mut out = vec![];
    for (i, ((name, kind), (_, val))) in fields.iter().zip(vals).enumerate() {
        let str_kind = *kind.base() == Kind::Str;
        let mut push = |v: &Val, rng: &mut Rng| {
            let raw = scalar_text(v, rng);
            let enc = match style {
                Some(st) => pct_encode_style(&raw, ctx, st, rng),
                None => pct_encode(&raw, ctx, rng),
            };
            out.push(FlatPair { field: i, key: name.to_string(), enc, str_kind });
        };
        match val {
            Val::Null => {}
            Val::Seq(items) => {
                for it in items {
                    push(it, rng);
                }
            }
            v => push(v, rng),
        }
    }
    out
}

/// Own `k=v&` joiner; keys are escaped with the same encoder.
pub fn join_pairs(pairs: &[(String, String)], rng: &mut Rng) -> String {
    let mut s = String::new();
    for (i, (k, v)) in pairs.iter().enumerate() {
        if i > 0 {
            s.push('&');
        }
        s.push_str(&pct_encode(k, PctCtx::FormComponent, rng));
        s.push('=');
        s.push_str(v);
    }
    s
}

// ------------------------------------------------------------------------------------------ json

fn json_string(s: &str, rng: &mut Rng) -> String {
    if rng.chance(1, 2) {
        return serde_json::to_string(s).unwrap();
    }
    let escape_unicode = rng.chance(1, 2);
    let mut o = String::from("\"");
    for c in s.chars() {
        match c {
            '"' => o.push_str("\\\""),
            '\\' => o.push_str("\\\\"),
            '\n' if rng.chance(1, 2) => o.push_str("\\n"),
            '\t' if rng.chance(1, 2) => o.push_str("\\t"),
            '\r' if rng.chance(1, 2) => o.push_str("\\r"),
            '/' if rng.chance(1, 4) => o.push_str("\\/"),
            c if (c as u32) < 0x20 => o.push_str(&format!("\\u{:04x}", c as u32)),
            c if c.is_ascii() => {
                if rng.chance(1, 24) {
                    o.push_str(&format!("\\u{:04X}", c as u32));
                } else {
                    o.push(c);
                }
            }
            c => {
                if escape_unicode && rng.chance(1, 2) {
                    let mut buf = [0u16; 2];
                    for u in c.encode_utf16(&mut buf) {
                        o.push_str(&format!("\\u{:04x}", u));
                    }
                } else {
                    o.push(c);
                }
            }
        }
    }
    o.push('"');
    o
}

fn ws(rng: &mut Rng) -> &'static str {
    match rng.below(8) {
        0 => " ",
        1 => "\n",
        2 => "\t ",
        _ => "",
    }
}

pub fn json_encode(kind: &Kind, v: &Val, rng: &mut Rng, blocked: &mut bool) -> String {
    match (kind, v) {
        (Kind::Opt(_), Val::Null) => "null".into(),
        (Kind::Opt(inner), v) => json_encode(inner, v, rng, blocked),
        (Kind::Seq(inner), Val::Seq(items)) => {
            let mut s = String::from("[");
            for (i, it) in items.iter().enumerate() {
                if i > 0 {
                    s.push(',');
                }
                s.push_str(ws(rng));
                s.push_str(&json_encode(inner, it, rng, blocked));
            }
            s.push_str(ws(rng));
            s.push(']');
            s
        }
        (Kind::Obj(fields), Val::Obj(vals)) => json_object(fields, vals, rng, blocked, &[], None),
        (_, Val::U(n)) => n.to_string(),
        (_, Val::I(n)) => n.to_string(),
        (_, Val::F(f)) => match rng.below(3) {
            0 => format!("{f:e}"),
            _ => serde_json::to_string(f).unwrap(),
        },
        (_, Val::B(b)) => b.to_string(),
        (_, Val::C(c)) => json_string(&c.to_string(), rng),
        (k, Val::S(s)) => {
            let t = json_string(s, rng);
            if *k == Kind::Str && t.contains('\\') {
                *blocked = true;
            }
            t
        }
        (k, v) => unreachable!("kind/value mismatch {k:?} {v:?}"),
    }
}

/// Own object printer: members in a random order (fields are matched by name), `None` members are
/// either `null` or left out, optional unknown members, optional replacement literal for one member.
pub fn json_object(
    fields: &[(&'static str, Kind)],
    vals: &[(String, Val)],
    rng: &mut Rng,
    blocked: &mut bool,
    extra_members: &[(String, String)],
    replace: Option<(usize, Option<String>)>,
) -> String {
    let mut members: Vec<(String, String)> = vec![];
    for (i, ((name, kind), (_, v))) in fields.iter().zip(vals).enumerate() {
        if let Some((ri, lit)) = &replace {
            if *ri == i {
                if let Some(l) = lit {
                    members.push((name.to_string(), l.clone()));
                }
                continue;
            }
        }
        if matches!((kind, v), (Kind::Opt(_), Val::Null)) && rng.chance(1, 2) {
            continue; // absent member == None
        }
        members.push((name.to_string(), json_encode(kind, v, rng, blocked)));
    }
    for (k, l) in extra_members {
        members.push((k.clone(), l.clone()));
    }
    rng.shuffle(&mut members);
    let mut s = String::from("{");
    for (i, (k, v)) in members.iter().enumerate() {
        if i > 0 {
            s.push(',');
        }
        s.push_str(ws(rng));
        s.push_str(&json_string(k, rng));
        s.push_str(ws(rng));
        s.push(':');
        s.push_str(ws(rng));
        s.push_str(v);
    }
    s.push_str(ws(rng));
    s.push('}');
    s
}

// ----------------------------------------------------------------------------- malformed literals

pub fn bad_text_for(kind: &Kind, rng: &mut Rng, allow_empty: bool) -> Option<String> {
    let v: Vec<String> = match kind {
        Kind::U8 | Kind::U16 | Kind::U32 | Kind::U64 => {
            let max: u128 = match kind {
                Kind::U8 => u8::MAX as u128,
                Kind::U16 => u16::MAX as u128,
                Kind::U32 => u32::MAX as u128,
                _ => u64::MAX as u128,
            };
            vec![
                "abc".into(), "-1".into(), (max + 1).to_string(), "1.5".into(), "1e2".into(), "0x10".into(),
                "".into(), " 1".into(), "1 ".into(), "١".into(), "99999999999999999999999999".into(), "1_0".into(),
                "12a".into(), "true".into(),
            ]
        }
        Kind::I8 | Kind::I16 | Kind::I32 | Kind::I64 => {
            let (min, max): (i128, i128) = match kind {
                Kind::I8 => (i8::MIN as i128, i8::MAX as i128),
                Kind::I16 => (i16::MIN as i128, i16::MAX as i128),
                Kind::I32 => (i32::MIN as i128, i32::MAX as i128),
                _ => (i64::MIN as i128, i64::MAX as i128),
            };
            vec![
                "abc".into(), (max + 1).to_string(), (min - 1).to_string(), "1.5".into(), "--1".into(), "".into(),
                "- 1".into(), "1e2".into(), "-".into(),
            ]
        }
        Kind::U128 => vec![
            "abc".into(), "-1".into(), "340282366920938463463374607431768211456".into(), "1.5".into(), "1e2".into(),
            "0x10".into(), "".into(), " 1".into(), "12a".into(), "9".repeat(45),
        ],
        Kind::I128 => vec![
            "abc".into(), "170141183460469231731687303715884105728".into(),
            "-170141183460469231731687303715884105729".into(), "1.5".into(), "--1".into(), "".into(), "-".into(),
            "1e2".into(),
        ],
        Kind::F64 => vec!["abc".into(), "1.2.3".into(), "".into(), "1,5".into(), "--1".into(), "1e".into(), "e5".into(), "0x1p3".into()],
        Kind::Bool => vec!["abc".into(), "tru".into(), "truee".into(), "".into(), "t rue".into(), "2".into()],
        Kind::Char => vec!["ab".into(), "".into(), "éé".into(), "😀😀".into()],
        _ => return None,
    };
    let v: Vec<String> = v.into_iter().filter(|s| allow_empty || !s.is_empty()).collect();
    if rng.below(100) < 18 {
        // a long value that can never be a number, a bool or a single char: multi-byte characters at every alignment around the
        // sizes at which implementations cut, abbreviate or switch buffers (error paths echo the offending value)
        return Some(long_hostile_text(rng));
    }
    Some(rng.pick(&v).clone())
}

/// 1-3 ASCII bytes followed by a run of one multi-byte character, total byte length next to a power of two (or 100/1000).
pub fn long_hostile_text(rng: &mut Rng) -> String {
    let unit = *rng.pick(&["\u{e9}", "\u{65e5}", "\u{1F600}", "\u{df}\u{10348}"]);
    let around = *rng.pick(&[32usize, 64, 100, 128, 255, 256, 512, 1000, 1024, 2048, 4096]);
    let target = (around + rng.below(9) as usize).saturating_sub(4).max(8);
    let mut out = String::new();
    for _ in 0..rng.below(4) {
        out.push('x');
    }
    while out.len() < target {
        out.push_str(unit);
    }
    out
}

pub fn bad_json_literal_for(kind: &Kind, rng: &mut Rng) -> String {
    let optional = matches!(kind, Kind::Opt(_));
    let base = match kind {
        Kind::Opt(k) => k.as_ref(),
        k => k,
    };
    let mut v: Vec<String> = match base {
        Kind::U8 | Kind::U16 | Kind::U32 | Kind::U64 => {
            let max: u128 = match base {
                Kind::U8 => u8::MAX as u128,
                Kind::U16 => u16::MAX as u128,
                Kind::U32 => u32::MAX as u128,
                _ => u64::MAX as u128,
            };
            vec!["\"abc\"".into(), "-1".into(), (max + 1).to_string(), "1.5".into(), "true".into(), "[]".into(), "{}".into(), "\"12\"".into(), "[1]".into()]
        }
        Kind::I8 | Kind::I16 | Kind::I32 | Kind::I64 => {
            let (min, max): (i128, i128) = match base {
                Kind::I8 => (i8::MIN as i128, i8::MAX as i128),
                Kind::I16 => (i16::MIN as i128, i16::MAX as i128),
                Kind::I32 => (i32::MIN as i128, i32::MAX as i128),
                _ => (i64::MIN as i128, i64::MAX as i128),
            };
            vec!["\"abc\"".into(), (max + 1).to_string(), (min - 1).to_string(), "1.5".into(), "false".into(), "{}".into()]
        }
        Kind::U128 => vec![
            "\"abc\"".into(), "-1".into(), "340282366920938463463374607431768211456".into(), "1.5".into(), "true".into(),
            "[]".into(), "\"12\"".into(),
        ],
        Kind::I128 => vec![
            "\"abc\"".into(), "170141183460469231731687303715884105728".into(),
            "-170141183460469231731687303715884105729".into(), "1.5".into(), "false".into(), "{}".into(),
        ],
        Kind::F64 => vec!["\"abc\"".into(), "true".into(), "[]".into(), "\"1.5\"".into(), "{}".into()],
        Kind::Bool => vec!["\"true\"".into(), "1".into(), "0".into(), "[]".into()],
        Kind::Char => vec!["\"ab\"".into(), "\"\"".into(), "5".into(), "true".into()],
        Kind::String | Kind::Str | Kind::Cow => vec!["5".into(), "true".into(), "[]".into(), "{}".into(), "1.5".into()],
        Kind::Seq(_) => vec!["5".into(), "\"a\"".into(), "{}".into(), "true".into()],
        Kind::Obj(_) => vec!["5".into(), "\"a\"".into(), "[]".into(), "true".into()],
        Kind::Opt(_) => vec!["{}".into()],
    };
    if !optional {
        v.push("null".into());
    }
    rng.pick(&v).clone()
}

pub const BAD_UTF8_ESCAPES: &[&str] = &[
    "%FF", "%ff", "a%80b", "%C3%28", "%E2%82", "%F0%9F%98", "%ED%A0%80", "%C0%AF", "%F8%88%80%80%80", "x%FEy",
    "%E2%28%A1", "%F4%90%80%80",
];
