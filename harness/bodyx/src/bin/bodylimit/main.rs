//! C14 — "A buffered request body never exceeds the configured size limit".
//!
//! Part (i), `--mode hook`: a scripted `hyper::body::Body` (data frames of chosen sizes, empty
//! frames, trailers, a transport error, `Poll::Pending`, lying `size_hint`/`is_end_stream`) is fed to
//! the real `BufferedBody::_extract_with_limit` through the `verif_extract_with_limit` hook.
//! Part (ii), `--mode net`: the public `BufferedBody::extract` is called by a handler served by the
//! real `pavex::server::Server`; a raw TCP client controls framing (see `net.rs`).
//!
//! The oracle only uses the script (what the client sent), the limit and the header text.
mod net;

use std::cell::Cell;
use std::collections::VecDeque;
use std::pin::Pin;
use std::rc::Rc;
use std::task::{Context, Poll};

use bodyx::{Args, Deadline, Report, Rng, fnv64, guarded, hex_preview, panic_site};
use bytes::Bytes;
use http::{HeaderMap, HeaderValue};
use http_body::{Body, Frame, SizeHint};
use pavex::request::RequestHead;
use pavex::request::body::errors::{
    ExtractBufferedBodyError, ExtractJsonBodyError, ExtractUrlEncodedBodyError,
};
use pavex::request::body::{BodySizeLimit, BufferedBody, JsonBody, UrlEncodedBody};
use pavex::unit::ByteUnit;
use serde_json::{Value, json};

// --------------------------------------------------------------------------------- frame scripts

#[derive(Clone, Copy, Debug, PartialEq)]
pub enum Step {
    Data(usize),
    Trailers,
    Error,
    Pending,
}

#[derive(Clone, Copy, Debug, PartialEq)]
pub enum Hint {
    Honest,
    LyingLow,
    LyingHigh,
    Unknown,
}

#[derive(Debug)]
pub struct ScriptError;
impl std::fmt::Display for ScriptError {
    fn fmt(&self, f: &mut std::fmt::Formatter<'_>) -> std::fmt::Result {
        f.write_str("scripted transport error")
    }
}
impl std::error::Error for ScriptError {}

#[derive(Default)]
struct Probe {
    bytes_handed: Cell<usize>,
    polls: Cell<usize>,
    polls_after_end: Cell<usize>,
    hint_calls: Cell<usize>,
}

struct ScriptBody {
    payload: Bytes,
    off: usize,
    steps: VecDeque<Step>,
    hint: Hint,
    lie_end: bool,
    finished: bool,
    probe: Rc<Probe>,
}

impl ScriptBody {
    fn remaining_data(&self) -> u64 {
        self.steps
            .iter()
            .map(|s| if let Step::Data(n) = s { *n as u64 } else { 0 })
            .sum()
    }
}

impl Body for ScriptBody {
    type Data = Bytes;
    type Error = ScriptError;

    fn poll_frame(
        mut self: Pin<&mut Self>,
        cx: &mut Context<'_>,
    ) -> Poll<Option<Result<Frame<Bytes>, ScriptError>>> {
        let this = &mut *self;
        this.probe.polls.set(this.probe.polls.get() + 1);
        if this.finished {
            this.probe.polls_after_end.set(this.probe.polls_after_end.get() + 1);
            return Poll::Ready(None);
        }
        match this.steps.pop_front() {
            None => {
                this.finished = true;
                Poll::Ready(None)
            }
            Some(Step::Pending) => {
                cx.waker().wake_by_ref();
                Poll::Pending
            }
            Some(Step::Data(n)) => {
                let chunk = this.payload.slice(this.off..this.off + n);
                this.off += n;
                this.probe.bytes_handed.set(this.probe.bytes_handed.get() + n);
                Poll::Ready(Some(Ok(Frame::data(chunk))))
            }
            Some(Step::Trailers) => {
                let mut h = HeaderMap::new();
                h.insert("x-trailer", HeaderValue::from_static("1"));
                Poll::Ready(Some(Ok(Frame::trailers(h))))
            }
            Some(Step::Error) => {
                this.finished = true;
                this.steps.clear();
                Poll::Ready(Some(Err(ScriptError)))
            }
        }
    }

    fn is_end_stream(&self) -> bool {
        if self.lie_end {
            // Lies in both directions: claims the end while frames are pending, denies it at the end.
            !self.steps.is_empty()
        } else {
            self.finished || self.steps.is_empty()
        }
    }

    fn size_hint(&self) -> SizeHint {
        self.probe.hint_calls.set(self.probe.hint_calls.get() + 1);
        let rem = self.remaining_data();
        match self.hint {
            Hint::Honest => SizeHint::with_exact(rem),
            Hint::LyingLow => {
                let mut h = SizeHint::new();
                h.set_upper(rem / 2);
                h
            }
            Hint::LyingHigh => {
                let mut h = SizeHint::new();
                h.set_lower(rem.saturating_mul(3).saturating_add(1000));
                h
            }
            Hint::Unknown => SizeHint::default(),
        }
    }
}

// -------------------------------------------------------------------------------- content-length

/// The header values (possibly several, possibly not UTF-8) plus a label for evidence/signatures.
#[derive(Clone, Debug)]
pub struct ClHeader {
    pub class: &'static str,
    pub values: Vec<Vec<u8>>,
}

/// What the *text* of the header says, decided without looking at the implementation.
#[derive(Clone, Copy, Debug, PartialEq)]
pub enum Claim {
    /// Absent, or text that cannot be read as a number larger than the limit by any reading.
    NotAbove,
    /// A plain decimal number, larger than the limit.
    Above,
    /// Could be read either way (leading '+', list syntax, surrounding blanks, does not fit in a
    /// machine word, several values that disagree): a size-limit error is tolerated, so is `Ok`.
    Ambiguous,
}

fn claim_one(v: &[u8], limit: u64) -> Claim {
    let all_digits = |s: &[u8]| !s.is_empty() && s.iter().all(|b| b.is_ascii_digit());
    if all_digits(v) {
        let sig: Vec<u8> = v.iter().copied().skip_while(|b| *b == b'0').collect();
        if sig.len() > 20 {
            return Claim::Ambiguous; // does not fit in usize: "garbage" or "huge", both defensible
        }
        let n: u128 = std::str::from_utf8(&sig)
            .unwrap()
            .parse()
            .unwrap_or(0);
        if n > u64::MAX as u128 {
            return Claim::Ambiguous;
        }
        return if n > limit as u128 { Claim::Above } else { Claim::NotAbove };
    }
    let trimmed: &[u8] = {
        let mut s = v;
        while let [b' ' | b'\t', rest @ ..] = s {
            s = rest;
        }
        while let [rest @ .., b' ' | b'\t'] = s {
            s = rest;
        }
        s
    };
    if trimmed.len() != v.len() && all_digits(trimmed) {
        return Claim::Ambiguous;
    }
    if let [b'+', rest @ ..] = v {
        if all_digits(rest) {
            return Claim::Ambiguous;
        }
    }
    if v.contains(&b',') && v.iter().any(|b| b.is_ascii_digit()) {
        return Claim::Ambiguous;
    }
    Claim::NotAbove
}

pub fn claim_of(values: &[Vec<u8>], limit: u64) -> Claim {
    let claims: Vec<Claim> = values.iter().map(|v| claim_one(v, limit)).collect();
    if claims.is_empty() || claims.iter().all(|c| *c == Claim::NotAbove) {
        Claim::NotAbove
    } else if claims.iter().all(|c| *c == Claim::Above) {
        Claim::Above
    } else {
        Claim::Ambiguous
    }
}

fn cl_variants(len: u64, limit: u64, rng: &mut Rng, all: bool) -> Vec<ClHeader> {
    let n = |class: &'static str, v: u64| ClHeader { class, values: vec![v.to_string().into_bytes()] };
    let raw = |class: &'static str, v: &[u8]| ClHeader { class, values: vec![v.to_vec()] };
    let mut out = vec![
        ClHeader { class: "absent", values: vec![] },
        n("truthful", len),
        n("eq_limit", limit),
        n("limit_plus_1", limit.saturating_add(1)),
        n("twice_limit_plus_1", limit.saturating_mul(2).saturating_add(1)),
        n("zero", 0),
        raw("usize_max", b"18446744073709551615"),
        raw("overflow", b"18446744073709551616"),
        raw("garbage_text", b"abc"),
        raw("negative", b"-1"),
        ClHeader {
            class: "dup_same",
            values: vec![len.to_string().into_bytes(), len.to_string().into_bytes()],
        },
        ClHeader {
            class: "dup_low_then_high",
            values: vec![len.to_string().into_bytes(), b"99999999999".to_vec()],
        },
        ClHeader {
            class: "dup_high_then_low",
            values: vec![b"99999999999".to_vec(), len.to_string().into_bytes()],
        },
    ];
    if len > 0 {
        out.push(n("too_small", len - 1));
    }
    out.push(n("too_large_by_1", len + 1));
    let more = vec![
        raw("empty_value", b""),
        raw("digits_then_text", b"12abc"),
        raw("hex", b"0x10"),
        raw("exponent", b"1e9"),
        raw("non_ascii", &[0xd9, 0xa1, 0xd9, 0xa2]),
        raw("opaque_bytes", &[0xff, 0xfe, b'7']),
        raw("leading_blank", b" 99999999999"),
        raw("plus_sign_small", b"+0"),
        raw("plus_sign_huge", b"+99999999999"),
        raw("list_syntax", b"5, 99999999999"),
        raw("negative_zero", b"-0"),
        raw("leading_zeros", b"000000000000000000000000000001"),
        raw("many_digits", b"99999999999999999999999999999999999999999999"),
        raw("decimal_point", b"7.0"),
    ];
    if all {
        out.extend(more);
    } else {
        // random subset of the exotic spellings
        for v in more {
            if rng.chance(1, 5) {
                out.push(v);
            }
        }
    }
    out
}

// ------------------------------------------------------------------------------------- the case

#[derive(Clone, Copy, Debug, PartialEq)]
pub enum PayloadKind {
    Raw,
    JsonString,
    Form,
}

#[derive(Clone, Debug)]
pub struct Case {
    pub limit: u64,
    pub limit_is_default: bool,
    pub steps: Vec<Step>,
    pub hint: Hint,
    pub lie_end: bool,
    pub cl: ClHeader,
    pub payload_kind: PayloadKind,
    pub payload_seed: u64,
}

impl Case {
    fn data_total(&self) -> usize {
        self.steps
            .iter()
            .map(|s| if let Step::Data(n) = s { *n } else { 0 })
            .sum()
    }
    fn has_error(&self) -> bool {
        self.steps.contains(&Step::Error)
    }
    fn n_data_frames(&self) -> usize {
        self.steps.iter().filter(|s| matches!(s, Step::Data(_))).count()
    }
    fn describe(&self) -> Value {
        let steps: Vec<String> = self
            .steps
            .iter()
            .take(64)
            .map(|s| match s {
                Step::Data(n) => format!("data({n})"),
                Step::Trailers => "trailers".into(),
                Step::Error => "error".into(),
                Step::Pending => "pending".into(),
            })
            .collect();
        json!({
            "limit": self.limit, "default_limit": self.limit_is_default,
            "body_len": self.data_total(), "steps": steps, "n_steps": self.steps.len(),
            "size_hint": format!("{:?}", self.hint), "lie_is_end_stream": self.lie_end,
            "content_length_class": self.cl.class,
            "content_length_values": self.cl.values.iter().map(|v| String::from_utf8_lossy(v).to_string()).collect::<Vec<_>>(),
            "payload": format!("{:?}", self.payload_kind), "payload_seed": self.payload_seed,
            "replay": self.replay_form(),
        })
    }
    /// Machine readable, complete form of the case (used by `--replay`).
    fn replay_form(&self) -> Value {
        let script: Vec<String> = self
            .steps
            .iter()
            .map(|s| match s {
                Step::Data(n) => format!("d{n}"),
                Step::Trailers => "t".into(),
                Step::Error => "e".into(),
                Step::Pending => "p".into(),
            })
            .collect();
        json!({
            "limit": self.limit.to_string(), "default_limit": self.limit_is_default, "script": script.join(","),
            "hint": format!("{:?}", self.hint), "lie_end": self.lie_end, "cl_class": self.cl.class,
            "cl_hex": self.cl.values.iter().map(|v| hex_preview(v, usize::MAX)).collect::<Vec<_>>(),
            "payload": format!("{:?}", self.payload_kind), "payload_seed": self.payload_seed.to_string(),
        })
    }
    fn from_replay(v: &Value) -> Option<Case> {
        let steps = v["script"]
            .as_str()?
            .split(',')
            .filter(|x| !x.is_empty())
            .map(|x| match x {
                "t" => Some(Step::Trailers),
                "e" => Some(Step::Error),
                "p" => Some(Step::Pending),
                d => d.strip_prefix('d').and_then(|n| n.parse().ok()).map(Step::Data),
            })
            .collect::<Option<Vec<_>>>()?;
        let unhex = |s: &str| -> Vec<u8> {
            (0..s.len() / 2).filter_map(|i| u8::from_str_radix(&s[2 * i..2 * i + 2], 16).ok()).collect()
        };
        Some(Case {
            limit: v["limit"].as_str()?.parse().ok()?,
            limit_is_default: v["default_limit"].as_bool().unwrap_or(false),
            steps,
            hint: match v["hint"].as_str()? {
                "Honest" => Hint::Honest,
                "LyingLow" => Hint::LyingLow,
                "LyingHigh" => Hint::LyingHigh,
                _ => Hint::Unknown,
            },
            lie_end: v["lie_end"].as_bool().unwrap_or(false),
            cl: ClHeader {
                class: Box::leak(v["cl_class"].as_str().unwrap_or("replayed").to_string().into_boxed_str()),
                values: v["cl_hex"].as_array()?.iter().filter_map(|x| x.as_str()).map(unhex).collect(),
            },
            payload_kind: match v["payload"].as_str()? {
                "JsonString" => PayloadKind::JsonString,
                "Form" => PayloadKind::Form,
                _ => PayloadKind::Raw,
            },
            payload_seed: v["payload_seed"].as_str()?.parse().ok()?,
        })
    }
}

pub fn make_payload(kind: PayloadKind, len: usize, seed: u64) -> Bytes {
    let mut v = vec![0u8; len];
    match kind {
        PayloadKind::Raw => {
            if len <= 4096 {
                let mut r = Rng::new(seed);
                for b in v.iter_mut() {
                    *b = r.next() as u8;
                }
            } else {
                // cheap, position dependent pattern for multi-megabyte payloads
                let mut x = seed | 1;
                for (i, b) in v.iter_mut().enumerate() {
                    if i % 8 == 0 {
                        x = x.wrapping_mul(6364136223846793005).wrapping_add(1442695040888963407);
                    }
                    *b = (x >> ((i % 8) * 8)) as u8;
                }
            }
        }
        PayloadKind::JsonString | PayloadKind::Form => {
            const AL: &[u8] = b"abcdefghijklmnopqrstuvwxyz0123456789";
            let mut x = seed | 1;
            for b in v.iter_mut() {
                x = x.wrapping_mul(6364136223846793005).wrapping_add(1442695040888963407);
                *b = AL[((x >> 33) % AL.len() as u64) as usize];
            }
            if kind == PayloadKind::JsonString {
                v[0] = b'"';
                v[len - 1] = b'"';
            } else {
                v[0] = b'k';
                v[1] = b'=';
            }
        }
    }
    Bytes::from(v)
}

/// The string a JSON / form extractor must produce for a payload built by `make_payload`.
pub fn typed_inner(kind: PayloadKind, payload: &[u8]) -> String {
    match kind {
        PayloadKind::JsonString => String::from_utf8_lossy(&payload[1..payload.len() - 1]).to_string(),
        PayloadKind::Form => String::from_utf8_lossy(&payload[2..]).to_string(),
        PayloadKind::Raw => String::new(),
    }
}

#[derive(Debug, PartialEq, Clone)]
pub enum Outcome {
    Ok { len: usize, hash: u64 },
    SizeLimit,
    Unexpected,
}

#[derive(serde::Deserialize)]
struct KForm<'a> {
    #[serde(borrow)]
    k: std::borrow::Cow<'a, str>,
}

/// Verdict shared by the hooked and the networked part. `sent` is what the client put on the wire
/// as body data (before a transport error, if any); `crossed` = more than `limit` bytes of it.
pub struct Facts<'a> {
    pub via: &'static str,
    pub limit: Option<u64>,
    pub sent: &'a [u8],
    pub transport_error: bool,
    pub claim: Claim,
    pub cl_class: &'a str,
}

pub fn len_rel(len: u64, limit: Option<u64>) -> &'static str {
    match limit {
        None => "unlimited",
        Some(l) if len < l => "below",
        Some(l) if len == l => "at",
        Some(l) if len == l + 1 => "limit_plus_1",
        Some(_) => "above",
    }
}

/// Returns `Some((sig, reason))` when the outcome contradicts the property.
pub fn judge(f: &Facts, got: &Outcome, same: bool) -> Option<(Value, String)> {
    let total = f.sent.len() as u64;
    let crossed = f.limit.is_some_and(|l| total > l);
    let rel = len_rel(total, f.limit);
    let sig = |kind: &str| {
        json!({"kind": kind, "via": f.via, "len_vs_limit": rel, "content_length": f.cl_class,
               "transport_error": f.transport_error})
    };
    match got {
        Outcome::Ok { len, .. } => {
            if let Some(l) = f.limit {
                if *len as u64 > l {
                    return Some((sig("ok_over_limit"), format!("Ok with {len} bytes, limit {l}")));
                }
            }
            if f.transport_error {
                return Some((
                    sig("ok_despite_transport_error"),
                    "the body stream failed but a (truncated) body was returned as Ok".into(),
                ));
            }
            if !same || *len as u64 != total {
                return Some((
                    sig("ok_bytes_differ"),
                    format!("Ok with {len} bytes that are not the {total} bytes sent"),
                ));
            }
            None
        }
        Outcome::SizeLimit => {
            if crossed || f.claim != Claim::NotAbove {
                None
            } else if f.limit.is_none() {
                Some((sig("size_limit_error_without_limit"), "limit disabled".into()))
            } else {
                Some((
                    sig("spurious_size_limit_error"),
                    format!(
                        "size-limit error although {total} bytes were sent, the limit is {:?} and the header does not claim more",
                        f.limit
                    ),
                ))
            }
        }
        Outcome::Unexpected => {
            if f.transport_error {
                None
            } else if crossed || f.claim == Claim::Above {
                Some((
                    sig("wrong_error_variant"),
                    "over the limit, but the error is not the size-limit variant".into(),
                ))
            } else {
                Some((
                    sig("error_without_cause"),
                    "no transport error was scripted and nothing exceeds the limit".into(),
                ))
            }
        }
    }
}

// ------------------------------------------------------------------------------ hooked execution

struct HookRun {
    outcome: Outcome,
    body: Option<BufferedBody>,
    err_max_size: Option<u64>,
    bytes_handed: usize,
    polls: usize,
    polls_after_end: usize,
    hint_calls: usize,
}

fn head_with(cl: &ClHeader, content_type: Option<&'static str>) -> RequestHead {
    let mut headers = HeaderMap::new();
    for v in &cl.values {
        match HeaderValue::from_bytes(v) {
            Ok(hv) => {
                headers.append(http::header::CONTENT_LENGTH, hv);
            }
            Err(_) => unreachable!("harness bug: header value not representable: {v:?}"),
        }
    }
    if let Some(ct) = content_type {
        headers.insert(http::header::CONTENT_TYPE, HeaderValue::from_static(ct));
    }
    RequestHead {
        method: http::Method::POST,
        target: "/c14".parse().unwrap(),
        version: http::Version::HTTP_11,
        headers,
    }
}

fn run_hook(rt: &tokio::runtime::Runtime, case: &Case, payload: &Bytes, head: &RequestHead) -> Result<HookRun, String> {
    let probe = Rc::new(Probe::default());
    let body = ScriptBody {
        payload: payload.clone(),
        off: 0,
        steps: case.steps.iter().copied().collect(),
        hint: case.hint,
        lie_end: case.lie_end,
        finished: false,
        probe: probe.clone(),
    };
    let max_size = ByteUnit::from(case.limit);
    let res = guarded(|| rt.block_on(BufferedBody::verif_extract_with_limit(head, body, max_size)))?;
    let (outcome, body, err_max) = match res {
        Ok(b) => (
            Outcome::Ok { len: b.bytes.len(), hash: fnv64(b.bytes.as_ref()) },
            Some(b),
            None,
        ),
        Err(ExtractBufferedBodyError::SizeLimitExceeded(e)) => {
            (Outcome::SizeLimit, None, Some(e.max_size.as_u64()))
        }
        Err(_) => (Outcome::Unexpected, None, None),
    };
    Ok(HookRun {
        outcome,
        body,
        err_max_size: err_max,
        bytes_handed: probe.bytes_handed.get(),
        polls: probe.polls.get(),
        polls_after_end: probe.polls_after_end.get(),
        hint_calls: probe.hint_calls.get(),
    })
}

fn eval_case(rt: &tokio::runtime::Runtime, case: &Case, rep: &mut Report) {
    rep.evaluations += 1;
    let total = case.data_total();
    let payload = make_payload(case.payload_kind, total, case.payload_seed);
    // What the client managed to send: all data frames up to a scripted transport error.
    let mut sent_len = 0usize;
    for s in &case.steps {
        match s {
            Step::Data(n) => sent_len += n,
            Step::Error => break,
            _ => {}
        }
    }
    let sent = &payload[..sent_len];
    let ct = match case.payload_kind {
        PayloadKind::Raw => None,
        PayloadKind::JsonString => Some("application/json"),
        PayloadKind::Form => Some("application/x-www-form-urlencoded"),
    };
    let head = head_with(&case.cl, ct);
    let claim = claim_of(&case.cl.values, case.limit);
    let facts = Facts {
        via: "hook",
        limit: Some(case.limit),
        sent,
        transport_error: case.has_error(),
        claim,
        cl_class: case.cl.class,
    };
    let run = match run_hook(rt, case, &payload, &head) {
        Ok(r) => r,
        Err(p) => {
            rep.violation(
                json!({"kind":"panic","via":"hook","site":panic_site(&p)}),
                json!({"panic": p, "case": case.describe()}),
            );
            return;
        }
    };
    let got_bytes = run.body.as_ref().map(|b| b.bytes.as_ref());
    let same = got_bytes.is_none_or(|b| b == sent);
    if let Some((sig, why)) = judge(&facts, &run.outcome, same) {
        rep.violation(
            sig,
            json!({"why": why, "outcome": format!("{:?}", run.outcome), "case": case.describe(),
                   "sent_prefix_hex": hex_preview(sent, 32),
                   "got_prefix_hex": got_bytes.map(|b| hex_preview(b, 32))}),
        );
    }

    // ---- observations (never verdicts)
    let rel = len_rel(sent_len as u64, Some(case.limit));
    let okind = match run.outcome {
        Outcome::Ok { .. } => "ok",
        Outcome::SizeLimit => "size_limit_error",
        Outcome::Unexpected => "unexpected_buffer_error",
    };
    rep.group("outcomes", okind);
    rep.group("by_len_vs_limit", &format!("{rel}/{okind}"));
    rep.group("by_content_length", &format!("{}/{okind}", case.cl.class));
    if run.outcome == Outcome::SizeLimit {
        if run.polls == 0 {
            rep.count("rejected_on_header_without_reading");
        } else {
            rep.count("rejected_while_reading");
        }
        if let Some(m) = run.err_max_size {
            if m != case.limit {
                rep.count("obs_error_reports_other_max_size");
            }
        }
        rep.max("bytes_pulled_beyond_limit_max", (run.bytes_handed as u64).saturating_sub(case.limit));
    }
    if matches!(run.outcome, Outcome::Ok { .. }) && claim == Claim::Above {
        rep.count("obs_ok_although_header_claims_more");
    }
    if matches!(run.outcome, Outcome::Ok { .. }) && case.cl.class == "too_small" {
        rep.count("ok_with_header_lying_low");
    }
    rep.max("frames_in_one_body_max", case.n_data_frames() as u64);
    rep.add("polls_after_end_of_stream", run.polls_after_end as u64);
    rep.add("size_hint_calls", run.hint_calls as u64);
    if case.steps.contains(&Step::Pending) {
        rep.count("cases_with_pending_polls");
    }
    if case.steps.contains(&Step::Trailers) {
        rep.count("cases_with_trailers");
    }
    if case.has_error() {
        rep.count("cases_with_transport_error");
    }
    if case.steps.contains(&Step::Data(0)) {
        rep.count("cases_with_empty_frames");
    }
    if case.hint != Hint::Honest {
        rep.count("cases_with_lying_or_unknown_size_hint");
    }

    // ---- the typed extractors built on top must see exactly these bytes
    if let (Some(b), true) = (&run.body, case.payload_kind != PayloadKind::Raw) {
        if b.bytes.as_ref() == sent && !case.has_error() {
            let expected = typed_inner(case.payload_kind, sent);
            let typed: Result<Result<String, String>, String> = match case.payload_kind {
                PayloadKind::JsonString => guarded(|| match JsonBody::<String>::extract(&head, b) {
                    Ok(j) => Ok(j.0),
                    Err(ExtractJsonBodyError::DeserializationError(e)) => Err(format!("DeserializationError: {e}")),
                    Err(e) => Err(format!("{e:?}")),
                }),
                _ => guarded(|| match UrlEncodedBody::<KForm>::extract(&head, b) {
                    Ok(j) => Ok(j.0.k.to_string()),
                    Err(ExtractUrlEncodedBodyError::DeserializationError(e)) => {
                        Err(format!("DeserializationError: {e}"))
                    }
                    Err(e) => Err(format!("{e:?}")),
                }),
            };
            let via = if case.payload_kind == PayloadKind::JsonString { "json_on_hook" } else { "form_on_hook" };
            rep.count(&format!("typed_on_top_checked_{via}"));
            match typed {
                Err(p) => rep.violation(
                    json!({"kind":"panic","via":via,"site":panic_site(&p)}),
                    json!({"panic": p, "case": case.describe()}),
                ),
                Ok(Ok(s)) => {
                    if s != expected || s.len() as u64 > case.limit {
                        rep.violation(
                            json!({"kind":"typed_extractor_sees_other_bytes","via":via,"len_vs_limit":rel}),
                            json!({"expected_len": expected.len(), "got_len": s.len(), "case": case.describe()}),
                        );
                    }
                }
                Ok(Err(e)) => rep.violation(
                    json!({"kind":"typed_extractor_rejects_valid_body","via":via,"len_vs_limit":rel}),
                    json!({"error": e, "case": case.describe()}),
                ),
            }
        }
    }

    // ---- distinct non-trivial cases: at least one byte, or a header, or a non-data step
    let nontrivial = total > 0 || !case.cl.values.is_empty() || case.steps.iter().any(|s| !matches!(s, Step::Data(_)));
    if nontrivial {
        let mut shape = String::new();
        for s in case.steps.iter().take(24) {
            match s {
                Step::Data(n) => shape.push_str(&format!("d{n},")),
                Step::Trailers => shape.push('t'),
                Step::Error => shape.push('e'),
                Step::Pending => shape.push('p'),
            }
        }
        let key = format!("{}|{}|{}|{:?}|{okind}", case.limit, shape, case.cl.class, case.payload_kind);
        rep.distinct(fnv64(key.as_bytes()));
    }
    let tag = format!("{okind}/{rel}");
    rep.sample(&tag, || json!({"case": case.describe(), "outcome": format!("{:?}", run.outcome)}));
}

// ------------------------------------------------------------------------------------ workloads

/// All weak compositions of `total` into exactly `k` parts (parts may be 0 = empty frames).
fn compositions(total: usize, k: usize, cur: &mut Vec<usize>, out: &mut Vec<Vec<usize>>) {
    if k == 1 {
        cur.push(total);
        out.push(cur.clone());
        cur.pop();
        return;
    }
    for first in 0..=total {
        cur.push(first);
        compositions(total - first, k - 1, cur, out);
        cur.pop();
    }
}

fn exhaustive(rt: &tokio::runtime::Runtime, args: &Args, rep: &mut Report, dl: &Deadline) -> Value {
    let mut rng = Rng::new(args.seed).derive(0xE0);
    let limits: &[u64] = &[0, 1, 2, 7];
    let mut n_splits = 0u64;
    let mut complete = true;
    let mut max_len_seen = 0;
    'outer: for &limit in limits {
        let max_len = (2 * limit + 2) as usize;
        max_len_seen = max_len_seen.max(max_len);
        for len in 0..=max_len {
            for k in 1..=4usize {
                let mut all = vec![];
                compositions(len, k, &mut vec![], &mut all);
                for parts in all {
                    n_splits += 1;
                    if dl.past(0.45) {
                        complete = false;
                        break 'outer;
                    }
                    let cls = cl_variants(len as u64, limit, &mut rng, true);
                    for cl in cls {
                        let r = rng.next();
                        let mut steps: Vec<Step> = vec![];
                        for (i, p) in parts.iter().enumerate() {
                            if (r >> (i + 8)) & 7 == 0 {
                                steps.push(Step::Pending);
                            }
                            steps.push(Step::Data(*p));
                        }
                        if r & 3 == 0 {
                            steps.push(Step::Trailers);
                        }
                        let hint = [Hint::Honest, Hint::LyingLow, Hint::LyingHigh, Hint::Unknown][((r >> 2) & 3) as usize];
                        let payload_kind = match (r >> 4) & 3 {
                            0 if len >= 2 => PayloadKind::JsonString,
                            1 if len >= 2 => PayloadKind::Form,
                            _ => PayloadKind::Raw,
                        };
                        let case = Case {
                            limit,
                            limit_is_default: false,
                            steps,
                            hint,
                            lie_end: (r >> 6) & 7 == 0,
                            cl,
                            payload_kind,
                            payload_seed: r,
                        };
                        eval_case(rt, &case, rep);
                    }
                }
            }
        }
    }
    json!({"splits_into_1_to_4_frames_incl_empty": complete, "limits": limits, "body_len": "0..=2*limit+2",
           "content_length_variants": "all", "splits_enumerated": n_splits})
}

fn random_case(rng: &mut Rng, limit: u64, is_default: bool, cheap: bool) -> Case {
    let l = limit;
    let len = match rng.below(10) {
        0 => 0,
        1 => l.saturating_sub(1),
        2 | 3 => l,
        4 | 5 => l + 1,
        6 => 2 * l,
        7 => 2 * l + 1,
        8 => rng.range(0, l),
        _ => rng.range(l + 1, 3 * l + 3),
    };
    let len = if cheap { len.min(l + 2) } else { len } as usize;
    let n_frames = match rng.below(10) {
        0 => 1,
        1..=6 => rng.range(1, 6),
        7 | 8 => rng.range(6, 14),
        _ => rng.range(14, 48),
    } as usize;
    let mut cuts: Vec<usize> = (0..n_frames.saturating_sub(1))
        .map(|_| rng.range(0, len as u64) as usize)
        .collect();
    // bias towards cuts at the boundary
    if rng.chance(2, 5) {
        for c in [l.saturating_sub(1), l, l + 1] {
            if (c as usize) <= len && rng.chance(1, 2) {
                cuts.push(c as usize);
            }
        }
    }
    cuts.sort_unstable();
    let mut sizes = vec![];
    let mut prev = 0;
    for c in cuts {
        sizes.push(c - prev);
        prev = c;
    }
    sizes.push(len - prev);
    let mut steps = vec![];
    let err_at = if rng.chance(1, 8) { Some(rng.below(sizes.len() as u64 + 1) as usize) } else { None };
    let mid_trailers = rng.chance(1, 20);
    for (i, s) in sizes.iter().enumerate() {
        if err_at == Some(i) {
            steps.push(Step::Error);
            break;
        }
        if rng.chance(1, 5) {
            steps.push(Step::Pending);
        }
        if mid_trailers && i == sizes.len() / 2 {
            steps.push(Step::Trailers);
        }
        steps.push(Step::Data(*s));
    }
    if err_at == Some(sizes.len()) {
        steps.push(Step::Error);
    } else if err_at.is_none() && rng.chance(3, 10) {
        steps.push(Step::Trailers);
    }
    let total: usize = steps.iter().map(|s| if let Step::Data(n) = s { *n } else { 0 }).sum();
    let cls = cl_variants(total as u64, limit, rng, false);
    let cl = rng.pick(&cls).clone();
    let payload_kind = match rng.below(4) {
        0 if total >= 2 => PayloadKind::JsonString,
        1 if total >= 2 => PayloadKind::Form,
        _ => PayloadKind::Raw,
    };
    Case {
        limit,
        limit_is_default: is_default,
        steps,
        hint: *rng.pick(&[Hint::Honest, Hint::LyingLow, Hint::LyingHigh, Hint::Unknown]),
        lie_end: rng.chance(1, 10),
        cl,
        payload_kind,
        payload_seed: rng.next(),
    }
}

fn random_workload(rt: &tokio::runtime::Runtime, args: &Args, rep: &mut Report, dl: &Deadline) -> Value {
    let mut rng = Rng::new(args.seed).derive(0xA1 + args.shard * 7919);
    let n_small: u64 = if args.thorough { 30_000_000 } else { 1_000_000 };
    // (inside the Miri interpreter a 2 MB body takes minutes: the default-limit cases are left to the native run)
    let n_default: u64 = if cfg!(miri) { 0 } else if args.thorough { 600 } else { 60 };
    let default_limit = match BodySizeLimit::new() {
        BodySizeLimit::Enabled { max_size } => max_size.as_u64(),
        BodySizeLimit::Disabled => 0,
    };
    let fixed: &[u64] = &[0, 1, 2, 7, 64, 1000, 255, 256, 257, 4096];
    let mut done_small = 0;
    for _ in 0..n_small {
        if dl.past(0.8) {
            break;
        }
        let limit = if rng.chance(4, 5) { *rng.pick(fixed) } else { rng.range(3, 5000) };
        let case = random_case(&mut rng, limit, false, false);
        eval_case(rt, &case, rep);
        done_small += 1;
    }
    let mut done_default = 0;
    if default_limit > 0 {
        for i in 0..n_default {
            if dl.past(0.97) {
                break;
            }
            // 2/3 of the default-limit cases stay at the boundary (cheap: <= limit+2 bytes)
            let case = random_case(&mut rng, default_limit, true, i % 3 != 0);
            eval_case(rt, &case, rep);
            done_default += 1;
        }
    }
    json!({"random_cases_small_limits": done_small, "random_cases_default_limit": done_default,
           "planned_small": n_small, "planned_default": n_default, "default_limit_bytes": default_limit})
}

fn main() {
    let args = bodyx::parse_args();
    bodyx::install_silent_panic_hook();
    let dl = Deadline::new(args.budget);
    let mut rep = Report::new();
    let mut extra = serde_json::Map::new();
    if let Some(file) = &args.replay {
        // Re-execute exactly the recorded case (hooked cases only; networked witnesses are
        // regenerated by re-running the tier with the recorded seed).
        let doc: Value = std::fs::read_to_string(file)
            .ok()
            .and_then(|t| serde_json::from_str(&t).ok())
            .unwrap_or(Value::Null);
        match Case::from_replay(&doc["detail"]["case"]["replay"]) {
            Some(case) => {
                let rt = tokio::runtime::Builder::new_current_thread().build().unwrap();
                eval_case(&rt, &case, &mut rep);
            }
            None => rep.inconclusive("replay file does not describe a hooked case", json!({"file": file})),
        }
        rep.finish("bodylimit:replay", json!({"replayed": file}));
        return;
    }
    if args.mode == "hook" || args.mode == "all" {
        let rt = tokio::runtime::Builder::new_current_thread().build().unwrap();
        if args.shard == 0 {
            let ex = exhaustive(&rt, &args, &mut rep, &dl);
            extra.insert("exhaustive".into(), ex);
        }
        let rw = random_workload(&rt, &args, &mut rep, &dl);
        extra.insert("random".into(), rw);
    }
    if args.mode == "net" || args.mode == "all" {
        let nw = net::run(&args, &mut rep, &dl);
        extra.insert("net".into(), nw);
    }
    extra.insert("elapsed_s".into(), json!(dl.elapsed_s()));
    extra.insert("shard".into(), json!(format!("{}/{}", args.shard, args.shards)));
    rep.finish(&format!("bodylimit:{}", args.mode), Value::Object(extra));
}
