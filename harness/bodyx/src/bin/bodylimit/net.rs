//! C14 part (ii): no hook. The real `pavex::server::Server` serves a hand-written handler that calls
//! the public `BufferedBody::extract(&head, RawIncomingBody::from(incoming), limit)` (and the JSON /
//! form extractors on top) and answers with length + hash of what it was handed, or the error kind.
//! A raw TCP client sends `Content-Length` and `Transfer-Encoding: chunked` bodies with controlled
//! chunking and write boundaries. Verdicts depend only on the bytes exchanged, never on timing:
//! a missing/garbled answer is `inconclusive`.
use std::future::Future;
use std::io::{Read, Write};
use std::net::{SocketAddr, TcpStream};
use std::panic::{AssertUnwindSafe, catch_unwind};
use std::pin::Pin;
use std::task::{Context, Poll};
use std::time::Duration;

use bodyx::{Args, Deadline, Report, Rng, fnv64, take_last_panic};
use http::Request;
use hyper::body::Incoming;
use pavex::Response;
use pavex::connection::ConnectionInfo;
use pavex::request::RequestHead;
use pavex::request::body::errors::ExtractBufferedBodyError;
use pavex::request::body::{BodySizeLimit, BufferedBody, JsonBody, RawIncomingBody, UrlEncodedBody};
use pavex::server::{IncomingStream, Server, ServerConfiguration};
use pavex::unit::ByteUnit;
use serde_json::{Value, json};

use crate::{Claim, Facts, Outcome, PayloadKind, claim_of, judge, len_rel, make_payload, typed_inner};

// ------------------------------------------------------------------------------------ the server

struct CatchPanic<F>(Pin<Box<F>>);

impl<F: Future> Future for CatchPanic<F> {
    type Output = Result<F::Output, String>;
    fn poll(mut self: Pin<&mut Self>, cx: &mut Context<'_>) -> Poll<Self::Output> {
        let inner = self.0.as_mut();
        match catch_unwind(AssertUnwindSafe(|| inner.poll(cx))) {
            Ok(Poll::Pending) => Poll::Pending,
            Ok(Poll::Ready(v)) => Poll::Ready(Ok(v)),
            Err(_) => Poll::Ready(Err(take_last_panic())),
        }
    }
}

#[derive(serde::Deserialize)]
struct KForm {
    k: String,
}

fn hex(b: &[u8]) -> String {
    b.iter().map(|x| format!("{x:02x}")).collect()
}

async fn extract_and_describe(req: Request<Incoming>) -> String {
    let (parts, body) = req.into_parts();
    let head: RequestHead = parts.into();
    let limit = match head.headers.get("x-limit").and_then(|v| v.to_str().ok()) {
        Some("disabled") => BodySizeLimit::Disabled,
        Some("default") | None => BodySizeLimit::new(),
        Some(n) => BodySizeLimit::Enabled { max_size: ByteUnit::from(n.parse::<u64>().unwrap_or(0)) },
    };
    let mode = head
        .headers
        .get("x-mode")
        .and_then(|v| v.to_str().ok())
        .unwrap_or("raw")
        .to_string();
    let cl: Vec<String> = head
        .headers
        .get_all(http::header::CONTENT_LENGTH)
        .iter()
        .map(|v| hex(v.as_bytes()))
        .collect();
    let cl = format!("cl={}", cl.join(","));
    match BufferedBody::extract(&head, RawIncomingBody::from(body), limit).await {
        Ok(b) => {
            let mut s = format!("ok {} {:016x} {cl}", b.bytes.len(), fnv64(b.bytes.as_ref()));
            match mode.as_str() {
                "json" => match JsonBody::<String>::extract(&head, &b) {
                    Ok(j) => s.push_str(&format!(" typed=ok:{}:{:016x}", j.0.len(), fnv64(j.0.as_bytes()))),
                    Err(e) => s.push_str(&format!(" typed=err:{}", format!("{e:?}").split('(').next().unwrap_or("?"))),
                },
                "form" => match UrlEncodedBody::<KForm>::extract(&head, &b) {
                    Ok(j) => s.push_str(&format!(" typed=ok:{}:{:016x}", j.0.k.len(), fnv64(j.0.k.as_bytes()))),
                    Err(e) => s.push_str(&format!(" typed=err:{}", format!("{e:?}").split('(').next().unwrap_or("?"))),
                },
                _ => {}
            }
            s
        }
        Err(ExtractBufferedBodyError::SizeLimitExceeded(e)) => {
            format!("err size_limit {cl} max={}", e.max_size.as_u64())
        }
        Err(ExtractBufferedBodyError::UnexpectedBufferError(_)) => format!("err unexpected {cl}"),
        Err(_) => format!("err other {cl}"),
    }
}

async fn handler(req: Request<Incoming>, _ci: Option<ConnectionInfo>, _state: ()) -> Response {
    let text = match CatchPanic(Box::pin(extract_and_describe(req))).await {
        Ok(t) => t,
        Err(p) => format!("panic {p}"),
    };
    Response::ok().set_typed_body(text)
}

fn start_server() -> SocketAddr {
    let (tx, rx) = std::sync::mpsc::channel();
    std::thread::Builder::new()
        .name("c14-server".into())
        .spawn(move || {
            let rt = tokio::runtime::Builder::new_current_thread()
                .enable_all()
                .build()
                .expect("runtime");
            rt.block_on(async move {
                let incoming = IncomingStream::bind("127.0.0.1:0".parse().unwrap())
                    .await
                    .expect("bind");
                let addr = incoming.local_addr().expect("addr");
                let handle = Server::new()
                    .set_config(ServerConfiguration::new().set_n_workers(2))
                    .listen(incoming)
                    .serve(handler, ());
                tx.send(addr).unwrap();
                handle.await;
            });
        })
        .expect("spawn server thread");
    rx.recv_timeout(Duration::from_secs(20)).expect("server did not start")
}

// ------------------------------------------------------------------------------------ the client

#[derive(Clone, Debug)]
enum Framing {
    /// `Content-Length: declared`, then `body` (which may be shorter or longer than declared).
    Length { declared_text: Vec<Vec<u8>>, declared: Option<u64> },
    /// chunked, chunk sizes as given; `terminate` = send the last-chunk; `cl_first` = a (lying)
    /// Content-Length header placed before Transfer-Encoding (hyper keeps it in the header map).
    Chunked { chunks: Vec<usize>, terminate: bool, trailers: bool, extensions: bool, lying_cl: Option<u64> },
}

#[derive(Clone, Debug)]
struct NetCase {
    limit: Option<u64>, // None = disabled
    use_default: bool,
    framing: Framing,
    body_len: usize,
    payload_kind: PayloadKind,
    payload_seed: u64,
    n_writes: usize,
    pause: bool,
    class: &'static str,
}

impl NetCase {
    fn describe(&self) -> Value {
        json!({"limit": self.limit, "default_limit": self.use_default, "framing": format!("{:?}", self.framing),
               "body_len": self.body_len, "payload": format!("{:?}", self.payload_kind),
               "payload_seed": self.payload_seed, "n_writes": self.n_writes, "class": self.class})
    }
}

struct Wire {
    bytes: Vec<u8>,
    head_len: usize,
    /// body data per HTTP framing
    effective: Vec<u8>,
    incomplete: bool,
}

fn build_wire(c: &NetCase, payload: &[u8]) -> Wire {
    let mut w: Vec<u8> = Vec::new();
    w.extend_from_slice(b"POST /c14 HTTP/1.1\r\nHost: localhost\r\nConnection: close\r\n");
    let lim = if c.use_default {
        "default".to_string()
    } else {
        match c.limit {
            None => "disabled".to_string(),
            Some(n) => n.to_string(),
        }
    };
    w.extend_from_slice(format!("X-Limit: {lim}\r\n").as_bytes());
    match c.payload_kind {
        PayloadKind::Raw => w.extend_from_slice(b"X-Mode: raw\r\n"),
        PayloadKind::JsonString => w.extend_from_slice(b"X-Mode: json\r\nContent-Type: application/json\r\n"),
        PayloadKind::Form => {
            w.extend_from_slice(b"X-Mode: form\r\nContent-Type: application/x-www-form-urlencoded\r\n")
        }
    }
    let effective;
    let incomplete;
    let head_len;
    match &c.framing {
        Framing::Length { declared_text, declared } => {
            for v in declared_text {
                w.extend_from_slice(b"Content-Length: ");
                w.extend_from_slice(v);
                w.extend_from_slice(b"\r\n");
            }
            w.extend_from_slice(b"\r\n");
            head_len = w.len();
            w.extend_from_slice(payload);
            match declared {
                Some(d) => {
                    let d = (*d).min(usize::MAX as u64) as usize;
                    effective = payload[..d.min(payload.len())].to_vec();
                    incomplete = payload.len() < d;
                }
                None => {
                    effective = vec![];
                    incomplete = false;
                }
            }
        }
        Framing::Chunked { chunks, terminate, trailers, extensions, lying_cl } => {
            if let Some(n) = lying_cl {
                w.extend_from_slice(format!("Content-Length: {n}\r\n").as_bytes());
            }
            w.extend_from_slice(b"Transfer-Encoding: chunked\r\n\r\n");
            head_len = w.len();
            let mut off = 0;
            for (i, n) in chunks.iter().enumerate() {
                debug_assert!(*n > 0);
                let size = if i % 2 == 0 { format!("{n:x}") } else { format!("{n:X}") };
                w.extend_from_slice(size.as_bytes());
                if *extensions && i % 3 == 0 {
                    w.extend_from_slice(b";ext=1");
                }
                w.extend_from_slice(b"\r\n");
                w.extend_from_slice(&payload[off..off + n]);
                w.extend_from_slice(b"\r\n");
                off += n;
            }
            if *terminate {
                w.extend_from_slice(b"0\r\n");
                if *trailers {
                    w.extend_from_slice(b"X-Trailer: 1\r\n");
                }
                w.extend_from_slice(b"\r\n");
            }
            effective = payload[..off].to_vec();
            incomplete = !*terminate;
        }
    }
    Wire { bytes: w, head_len, effective, incomplete }
}

#[derive(Debug)]
enum Answer {
    Handler(String),
    HttpLayer(u16),
    None(String),
}

fn exchange(addr: SocketAddr, wire: &Wire, c: &NetCase, rng: &mut Rng) -> Answer {
    let mut s = match TcpStream::connect_timeout(&addr, Duration::from_secs(5)) {
        Ok(s) => s,
        Err(e) => return Answer::None(format!("connect: {e}")),
    };
    let _ = s.set_nodelay(true);
    let _ = s.set_read_timeout(Some(Duration::from_secs(15)));
    let _ = s.set_write_timeout(Some(Duration::from_secs(15)));
    // write boundaries: the head, then the body in `n_writes` pieces at random offsets
    let mut cuts: Vec<usize> = vec![wire.head_len];
    let body_len = wire.bytes.len() - wire.head_len;
    for _ in 1..c.n_writes {
        if body_len > 0 {
            cuts.push(wire.head_len + rng.below(body_len as u64 + 1) as usize);
        }
    }
    if rng.chance(1, 4) {
        cuts[0] = rng.range(1, wire.head_len as u64) as usize; // also split inside the head
        cuts.push(wire.head_len);
    }
    cuts.push(wire.bytes.len());
    cuts.sort_unstable();
    cuts.dedup();
    let mut prev = 0;
    let mut write_failed = None;
    for (i, cut) in cuts.iter().enumerate() {
        if *cut == prev {
            continue;
        }
        if let Err(e) = s.write_all(&wire.bytes[prev..*cut]) {
            // The server may legitimately stop reading (early rejection): not an error of ours.
            write_failed = Some(e.to_string());
            break;
        }
        prev = *cut;
        if c.pause && i < 6 {
            std::thread::sleep(Duration::from_micros(300));
        }
    }
    let _ = s.flush();
    if wire.incomplete {
        let _ = s.shutdown(std::net::Shutdown::Write);
    }
    let mut resp = Vec::new();
    let mut buf = [0u8; 4096];
    loop {
        match s.read(&mut buf) {
            Ok(0) => break,
            Ok(n) => resp.extend_from_slice(&buf[..n]),
            Err(e) => {
                if resp.is_empty() {
                    return Answer::None(format!("read: {e}; write_failed={write_failed:?}"));
                }
                break;
            }
        }
        if resp.len() > 1 << 20 {
            break;
        }
    }
    parse_answer(&resp)
}

fn parse_answer(resp: &[u8]) -> Answer {
    let text = String::from_utf8_lossy(resp);
    let Some((head, rest)) = text.split_once("\r\n\r\n") else {
        return Answer::None(format!("no complete response head ({} bytes)", resp.len()));
    };
    let status: u16 = head
        .split_whitespace()
        .nth(1)
        .and_then(|s| s.parse().ok())
        .unwrap_or(0);
    if status != 200 {
        return Answer::HttpLayer(status);
    }
    let mut len: Option<usize> = None;
    let mut chunked = false;
    for line in head.lines().skip(1) {
        if let Some((k, v)) = line.split_once(':') {
            if k.eq_ignore_ascii_case("content-length") {
                len = v.trim().parse().ok();
            }
            if k.eq_ignore_ascii_case("transfer-encoding") && v.to_ascii_lowercase().contains("chunked") {
                chunked = true;
            }
        }
    }
    if chunked {
        // our answers are one short line; decode the first chunk only
        if let Some((sz, after)) = rest.split_once("\r\n") {
            if let Ok(n) = usize::from_str_radix(sz.trim(), 16) {
                if after.len() >= n {
                    return Answer::Handler(after[..n].to_string());
                }
            }
        }
        return Answer::None("garbled chunked response".into());
    }
    match len {
        Some(n) if rest.len() >= n => Answer::Handler(rest[..n].to_string()),
        Some(n) => Answer::None(format!("short response body: {} of {n}", rest.len())),
        None => Answer::Handler(rest.to_string()),
    }
}

fn unhex(s: &str) -> Vec<u8> {
    (0..s.len() / 2)
        .filter_map(|i| u8::from_str_radix(&s[2 * i..2 * i + 2], 16).ok())
        .collect()
}

fn gen_case(rng: &mut Rng, default_limit: u64, thorough: bool) -> NetCase {
    // limit
    let (limit, use_default) = match rng.below(20) {
        0 => (None, false),
        1 => (Some(default_limit), true),
        _ => (
            Some(*rng.pick(&[0u64, 1, 2, 7, 64, 1000, 1000, 4096, 70_000])),
            false,
        ),
    };
    // with the limit disabled, some bodies are larger than the 2 MB default
    let l = match limit {
        Some(l) => l,
        None => if rng.chance(1, 8) { default_limit + 1 } else { 3_000 },
    };
    let big = l > 100_000;
    let body_len = if big && !rng.chance(1, if thorough { 3 } else { 6 }) {
        // stay at the boundary of the 2 MB default most of the time
        *rng.pick(&[l - 1, l, l + 1, l + 2])
    } else {
        match rng.below(10) {
            0 => 0,
            1 => l.saturating_sub(1),
            2 | 3 => l,
            4 | 5 => l + 1,
            6 => 2 * l,
            7 => 2 * l + 1,
            8 => rng.range(0, l),
            _ => rng.range(l + 1, 2 * l + 3),
        }
    } as usize;
    let payload_kind = match rng.below(4) {
        0 if body_len >= 2 => PayloadKind::JsonString,
        1 if body_len >= 2 => PayloadKind::Form,
        _ => PayloadKind::Raw,
    };
    let (framing, class): (Framing, &'static str) = match rng.below(12) {
        0..=2 => (
            Framing::Length {
                declared_text: vec![body_len.to_string().into_bytes()],
                declared: Some(body_len as u64),
            },
            "cl_truthful",
        ),
        3 => {
            // declared more than sent; the client then half-closes
            let d = body_len as u64 + rng.range(1, 5);
            (Framing::Length { declared_text: vec![d.to_string().into_bytes()], declared: Some(d) }, "cl_too_large_then_eof")
        }
        4 if body_len > 0 => {
            // declared less than sent: the excess is not part of this request's body
            let d = body_len as u64 - rng.range(1, (body_len as u64).min(4));
            (Framing::Length { declared_text: vec![d.to_string().into_bytes()], declared: Some(d) }, "cl_too_small")
        }
        5 => {
            let t = body_len.to_string().into_bytes();
            (Framing::Length { declared_text: vec![t.clone(), t], declared: Some(body_len as u64) }, "cl_duplicated_same")
        }
        6 => {
            let bad: &[&[u8]] = &[b"abc", b"-1", b"18446744073709551616", b"+5", b"1e3", b"5, 6", b""];
            (Framing::Length { declared_text: vec![rng.pick(bad).to_vec()], declared: None }, "cl_invalid_text")
        }
        _ => {
            // chunked
            let mut chunks = vec![];
            let mut left = body_len;
            let boundary_cut = rng.chance(2, 5);
            if boundary_cut {
                // first chunk ends exactly at the limit (or one short / one past)
                let want = (l as usize + rng.below(3) as usize).saturating_sub(1);
                if want > 0 && want <= left {
                    chunks.push(want);
                    left -= want;
                }
            }
            let max_chunks = if big { 6 } else { 12 };
            while left > 0 {
                let n = if chunks.len() + 1 >= max_chunks { left } else { rng.range(1, left as u64) as usize };
                chunks.push(n);
                left -= n;
            }
            let lying = match rng.below(8) {
                0 => Some(0),
                1 => Some(l),
                2 => Some(l + 1),
                3 => Some(body_len as u64),
                _ => None,
            };
            let terminate = !rng.chance(1, 10);
            (
                Framing::Chunked {
                    chunks,
                    terminate,
                    trailers: rng.chance(1, 4),
                    extensions: rng.chance(1, 4),
                    lying_cl: lying,
                },
                if !terminate {
                    "chunked_unterminated"
                } else if lying.is_some() {
                    "chunked_with_content_length"
                } else {
                    "chunked"
                },
            )
        }
    };
    NetCase {
        limit,
        use_default,
        framing,
        body_len,
        payload_kind,
        payload_seed: rng.next(),
        n_writes: rng.range(1, 6) as usize,
        pause: rng.chance(1, 6),
        class,
    }
}

fn eval_net(addr: SocketAddr, c: &NetCase, rng: &mut Rng, rep: &mut Report) {
    rep.evaluations += 1;
    let payload = make_payload(c.payload_kind, c.body_len, c.payload_seed);
    let wire = build_wire(c, &payload);
    let ans = exchange(addr, &wire, c, rng);
    rep.group("net_classes", c.class);
    let text = match ans {
        Answer::Handler(t) => t,
        Answer::HttpLayer(code) => {
            rep.group("net_outcomes", &format!("rejected_by_http_layer_{code}"));
            return;
        }
        Answer::None(why) => {
            // With a declared length smaller than what we sent, or an early rejection, the server
            // may reset the connection before we read the answer: nothing can be concluded.
            rep.group("net_outcomes", "no_answer");
            rep.inconclusive("no answer from the server", json!({"why": why, "case": c.describe()}));
            return;
        }
    };
    if let Some(p) = text.strip_prefix("panic ") {
        rep.violation(
            json!({"kind":"panic","via":"public_tcp","site":bodyx::panic_site(p)}),
            json!({"panic": p, "case": c.describe()}),
        );
        return;
    }
    let words: Vec<&str> = text.split_whitespace().collect();
    let cl_seen: Vec<Vec<u8>> = words
        .iter()
        .find_map(|w| w.strip_prefix("cl="))
        .map(|v| v.split(',').filter(|x| !x.is_empty()).map(unhex).collect())
        .unwrap_or_default();
    let outcome = match (words.first().copied(), words.get(1).copied()) {
        (Some("ok"), Some(n)) => Outcome::Ok {
            len: n.parse().unwrap_or(usize::MAX),
            hash: u64::from_str_radix(words.get(2).copied().unwrap_or("0"), 16).unwrap_or(0),
        },
        (Some("err"), Some("size_limit")) => Outcome::SizeLimit,
        (Some("err"), Some(_)) => Outcome::Unexpected,
        _ => {
            rep.inconclusive("unparseable handler answer", json!({"answer": text, "case": c.describe()}));
            return;
        }
    };
    let claim = match c.limit {
        Some(l) => claim_of(&cl_seen, l),
        None => Claim::NotAbove,
    };
    let facts = Facts {
        via: "public_tcp",
        limit: c.limit,
        sent: &wire.effective,
        transport_error: wire.incomplete,
        claim,
        cl_class: c.class,
    };
    let same = match &outcome {
        Outcome::Ok { len, hash } => *len == wire.effective.len() && *hash == fnv64(&wire.effective),
        _ => true,
    };
    let verdict = judge(&facts, &outcome, same);
    if let Some((sig, why)) = verdict {
        rep.violation(sig, json!({"why": why, "answer": text, "case": c.describe()}));
    }
    let okind = match outcome {
        Outcome::Ok { .. } => "ok",
        Outcome::SizeLimit => "size_limit_error",
        Outcome::Unexpected => "unexpected_buffer_error",
    };
    let rel = len_rel(wire.effective.len() as u64, c.limit);
    rep.group("net_outcomes", okind);
    rep.group("net_by_len_vs_limit", &format!("{rel}/{okind}"));
    if c.limit.is_none() {
        rep.count("net_limit_disabled_cases");
        rep.max("net_unlimited_body_len_max", wire.effective.len() as u64);
    }
    if c.use_default {
        rep.count("net_default_limit_cases");
    }
    // typed extractors on top
    if let (Outcome::Ok { .. }, true, Some(t)) = (
        &outcome,
        same && c.payload_kind != PayloadKind::Raw && !wire.incomplete,
        words.iter().find_map(|w| w.strip_prefix("typed=")),
    ) {
        let via = if c.payload_kind == PayloadKind::JsonString { "json_on_tcp" } else { "form_on_tcp" };
        rep.count(&format!("typed_on_top_checked_{via}"));
        let full_payload_seen = wire.effective.len() == c.body_len;
        if full_payload_seen {
            let inner = typed_inner(c.payload_kind, &wire.effective);
            let expect = format!("ok:{}:{:016x}", inner.len(), fnv64(inner.as_bytes()));
            if t != expect {
                let kind = if t.starts_with("ok:") { "typed_extractor_sees_other_bytes" } else { "typed_extractor_rejects_valid_body" };
                rep.violation(
                    json!({"kind": kind, "via": via, "len_vs_limit": rel}),
                    json!({"expected": expect, "got": t, "case": c.describe()}),
                );
            }
        }
    }
    let key = format!("{:?}|{}|{}|{:?}|{okind}|{}", c.limit, c.class, c.body_len, c.payload_kind, match &c.framing {
        Framing::Chunked { chunks, .. } => format!("{chunks:?}"),
        _ => String::new(),
    });
    rep.distinct(fnv64(key.as_bytes()));
    rep.sample(&format!("net/{okind}/{}", c.class), || json!({"case": c.describe(), "answer": text}));
}

pub fn run(args: &Args, rep: &mut Report, dl: &Deadline) -> Value {
    let addr = start_server();
    let default_limit = match BodySizeLimit::new() {
        BodySizeLimit::Enabled { max_size } => max_size.as_u64(),
        BodySizeLimit::Disabled => 0,
    };
    let n_threads: u64 = if args.thorough { 4 } else { 3 };
    let per_thread: u64 = if args.thorough { 150_000 } else { 4_000 };
    let base = Rng::new(args.seed).derive(0xBEEF + args.shard * 104_729);
    let thorough = args.thorough;
    let stop_at = dl_snapshot(dl);
    let handles: Vec<_> = (0..n_threads)
        .map(|t| {
            let mut rng = base.derive(t + 1);
            std::thread::spawn(move || {
                let mut rep = Report::new();
                let mut done = 0u64;
                for _ in 0..per_thread {
                    if std::time::Instant::now() >= stop_at {
                        break;
                    }
                    let c = gen_case(&mut rng, default_limit, thorough);
                    eval_net(addr, &c, &mut rng, &mut rep);
                    done += 1;
                }
                (rep, done)
            })
        })
        .collect();
    // (HTTP/2 clients run on this thread meanwhile)
    let h2_done = run_h2(addr, args, rep, stop_at);
    let mut total = 0;
    for h in handles {
        match h.join() {
            Ok((r, d)) => {
                rep.merge(r);
                total += d;
            }
            Err(_) => rep.inconclusive("client thread died", json!({"panic": take_last_panic()})),
        }
    }
    json!({"requests": total, "planned": n_threads * per_thread, "server": "pavex::server::Server, 2 workers, loopback",
           "client_threads": n_threads, "h2_requests": h2_done})
}

// ------------------------------------------------------------------------------------ HTTP/2 clients

/// A request body that hands out exactly the scripted DATA frames.
struct H2Frames(std::collections::VecDeque<bytes::Bytes>);

impl hyper::body::Body for H2Frames {
    type Data = bytes::Bytes;
    type Error = std::convert::Infallible;
    fn poll_frame(mut self: Pin<&mut Self>, _cx: &mut Context<'_>) -> Poll<Option<Result<hyper::body::Frame<Self::Data>, Self::Error>>> {
        Poll::Ready(self.0.pop_front().map(|b| Ok(hyper::body::Frame::data(b))))
    }
}

async fn send_h2(addr: SocketAddr, limit: &str, body: &[u8], sizes: &[usize], content_length: Option<u64>, kind: &str) -> Result<(u16, String), String> {
    use http_body_util::BodyExt;
    let stream = tokio::net::TcpStream::connect(addr).await.map_err(|e| format!("connect: {e}"))?;
    let (mut sender, conn) = hyper::client::conn::http2::handshake(hyper_util::rt::TokioExecutor::new(), hyper_util::rt::TokioIo::new(stream))
        .await
        .map_err(|e| format!("handshake: {e}"))?;
    let driver = tokio::spawn(conn);
    let mut frames = std::collections::VecDeque::new();
    let mut off = 0;
    for n in sizes {
        frames.push_back(bytes::Bytes::copy_from_slice(&body[off..off + n]));
        off += n;
    }
    let mut req = Request::builder().method("POST").uri(format!("http://{addr}/")).header("x-limit", limit).header("x-kind", kind);
    if let Some(cl) = content_length {
        req = req.header("content-length", cl.to_string());
    }
    let resp = sender.send_request(req.body(H2Frames(frames)).map_err(|e| e.to_string())?).await.map_err(|e| format!("send: {e}"))?;
    let status = resp.status().as_u16();
    let text = resp.into_body().collect().await.map(|c| String::from_utf8_lossy(&c.to_bytes()).to_string()).map_err(|e| format!("body: {e}"))?;
    driver.abort();
    Ok((status, text))
}

/// HTTP/2 (prior knowledge, cleartext) against the same server: a body needs no `content-length` there, and its DATA
/// frames reach the extractor as the client cut them.
fn run_h2(addr: SocketAddr, args: &Args, rep: &mut Report, stop_at: std::time::Instant) -> u64 {
    let rt = match tokio::runtime::Builder::new_current_thread().enable_all().build() {
        Ok(rt) => rt,
        Err(e) => {
            rep.inconclusive("no runtime for the HTTP/2 client", json!({"error": e.to_string()}));
            return 0;
        }
    };
    let mut rng = Rng::new(args.seed).derive(0x4832 + args.shard * 7919);
    let planned: u64 = if args.thorough { 40_000 } else { 600 };
    let mut done = 0;
    for _ in 0..planned {
        if std::time::Instant::now() >= stop_at {
            break;
        }
        let l = *rng.pick(&[0u64, 1, 2, 7, 16, 64, 1000, 4096]);
        let body_len = match rng.below(9) {
            0 => 0,
            1 => l.saturating_sub(1),
            2 | 3 => l,
            4 | 5 => l + 1,
            6 => 2 * l + 1,
            7 => rng.range(0, l),
            _ => rng.range(l + 1, 2 * l + 3),
        } as usize;
        let body = make_payload(PayloadKind::Raw, body_len, rng.next());
        let mut sizes = vec![];
        let mut left = body.len();
        while left > 0 {
            let n = if sizes.len() >= 5 || rng.chance(1, 3) { left } else { rng.range(1, left as u64) as usize };
            sizes.push(n);
            left -= n;
        }
        let with_cl = rng.chance(1, 3);
        let class = if with_cl { "h2_cl_truthful" } else { "h2_cl_absent" };
        let cl = if with_cl { Some(body.len() as u64) } else { None };
        let answer = rt.block_on(async { tokio::time::timeout(Duration::from_secs(10), send_h2(addr, &l.to_string(), &body, &sizes, cl, "raw")).await });
        let describe = || json!({"via": "public_h2", "limit": l, "body_len": body.len(), "frames": sizes, "content_length": cl});
        let (status, text) = match answer {
            Ok(Ok(x)) => x,
            Ok(Err(why)) => {
                rep.group("h2_outcomes", "no_answer");
                rep.inconclusive("no HTTP/2 answer from the server", json!({"why": why, "case": describe()}));
                continue;
            }
            Err(_) => {
                rep.inconclusive("HTTP/2 request timed out", json!({"case": describe()}));
                continue;
            }
        };
        done += 1;
        if status != 200 {
            rep.group("h2_outcomes", "http_layer_rejection");
            continue;
        }
        if let Some(p) = text.strip_prefix("panic ") {
            rep.violation(json!({"kind":"panic","via":"public_h2","site":bodyx::panic_site(p)}), json!({"panic": p, "case": describe()}));
            continue;
        }
        let words: Vec<&str> = text.split_whitespace().collect();
        let outcome = match (words.first().copied(), words.get(1).copied()) {
            (Some("ok"), Some(n)) => Outcome::Ok {
                len: n.parse().unwrap_or(usize::MAX),
                hash: u64::from_str_radix(words.get(2).copied().unwrap_or("0"), 16).unwrap_or(0),
            },
            (Some("err"), Some("size_limit")) => Outcome::SizeLimit,
            (Some("err"), Some(_)) => Outcome::Unexpected,
            _ => {
                rep.inconclusive("unparseable handler answer (h2)", json!({"answer": text, "case": describe()}));
                continue;
            }
        };
        let claim = match cl {
            Some(v) => claim_of(&[v.to_string().into_bytes()], l),
            None => Claim::NotAbove,
        };
        let facts = Facts { via: "public_h2", limit: Some(l), sent: &body, transport_error: false, claim, cl_class: class };
        let same = match &outcome {
            Outcome::Ok { len, hash } => *len == body.len() && *hash == fnv64(&body),
            _ => true,
        };
        if let Some((sig, why)) = judge(&facts, &outcome, same) {
            rep.violation(sig, json!({"why": why, "answer": text, "case": describe()}));
        }
        let okind = match outcome {
            Outcome::Ok { .. } => "ok",
            Outcome::SizeLimit => "size_limit_error",
            Outcome::Unexpected => "unexpected_buffer_error",
        };
        rep.group("h2_outcomes", okind);
        rep.group("h2_by_len_vs_limit", &format!("{}/{class}/{okind}", len_rel(body.len() as u64, Some(l))));
        rep.distinct(fnv64(format!("h2|{l}|{}|{sizes:?}|{class}|{okind}", body.len()).as_bytes()));
    }
    done
}

fn dl_snapshot(dl: &Deadline) -> std::time::Instant {
    // the networked part may use what is left of the budget, minus a margin for reporting
    let left = (dl_budget(dl) - dl.elapsed_s() - 2.0).max(1.0);
    std::time::Instant::now() + Duration::from_secs_f64(left)
}

fn dl_budget(dl: &Deadline) -> f64 {
    dl.budget_s()
}
