//! Shared plumbing for the `bodylimit` (C14) and `extract` (C15) harness binaries:
//! seeded RNG, argv parsing, panic capture, JSONL emission helpers.
use std::collections::BTreeMap;
use std::io::Write;
use std::panic::{AssertUnwindSafe, catch_unwind};
use std::sync::Mutex;
use std::time::{Duration, Instant};

use serde_json::{Value, json};

// ------------------------------------------------------------------------------------------ rng

/// SplitMix64: all the randomness of a run derives from `--seed`.
#[derive(Clone)]
pub struct Rng(pub u64);

impl Rng {
    pub fn new(seed: u64) -> Self {
        Rng(seed ^ 0x9E37_79B9_7F4A_7C15)
    }
    /// A generator for an independent stream (shards, sub-workloads).
    pub fn derive(&self, salt: u64) -> Rng {
        let mut r = Rng(self.0 ^ salt.wrapping_mul(0xD6E8_FEB8_6659_FD93));
        r.next();
        r.next();
        r
    }
    #[allow(clippy::should_implement_trait)]
    pub fn next(&mut self) -> u64 {
        self.0 = self.0.wrapping_add(0x9E37_79B9_7F4A_7C15);
        let mut z = self.0;
        z = (z ^ (z >> 30)).wrapping_mul(0xBF58_476D_1CE4_E5B9);
        z = (z ^ (z >> 27)).wrapping_mul(0x94D0_49BB_1331_11EB);
        z ^ (z >> 31)
    }
    /// Uniform in `0..n` (n > 0).
    pub fn below(&mut self, n: u64) -> u64 {
        debug_assert!(n > 0);
        self.next() % n
    }
    pub fn range(&mut self, lo: u64, hi_incl: u64) -> u64 {
        lo + self.below(hi_incl - lo + 1)
    }
    pub fn chance(&mut self, num: u64, den: u64) -> bool {
        self.below(den) < num
    }
    pub fn pick<'a, T>(&mut self, xs: &'a [T]) -> &'a T {
        &xs[self.below(xs.len() as u64) as usize]
    }
    pub fn shuffle<T>(&mut self, xs: &mut [T]) {
        for i in (1..xs.len()).rev() {
            let j = self.below(i as u64 + 1) as usize;
            xs.swap(i, j);
        }
    }
}

pub fn fnv64(bytes: &[u8]) -> u64 {
    let mut h: u64 = 0xcbf2_9ce4_8422_2325;
    for b in bytes {
        h ^= *b as u64;
        h = h.wrapping_mul(0x0000_0100_0000_01b3);
    }
    h
}

pub fn key_hash(s: &str) -> String {
    format!("{:016x}", fnv64(s.as_bytes()))
}

// ----------------------------------------------------------------------------------------- args

#[derive(Clone, Debug)]
pub struct Args {
    pub seed: u64,
    pub thorough: bool,
    pub budget: Duration,
    pub replay: Option<String>,
    pub shard: u64,
    pub shards: u64,
    pub mode: String,
    pub extra: BTreeMap<String, String>,
}

pub fn parse_args() -> Args {
    let mut a = Args {
        seed: 1,
        thorough: false,
        budget: Duration::from_secs(0),
        replay: None,
        shard: 0,
        shards: 1,
        mode: "all".into(),
        extra: BTreeMap::new(),
    };
    let argv: Vec<String> = std::env::args().skip(1).collect();
    let mut i = 0;
    let mut budget_given = false;
    while i < argv.len() {
        let k = argv[i].as_str();
        let v = argv.get(i + 1).cloned().unwrap_or_default();
        match k {
            "--seed" => a.seed = v.parse().expect("--seed <u64>"),
            "--tier" => a.thorough = v == "thorough",
            "--budget-s" => {
                a.budget = Duration::from_secs_f64(v.parse().expect("--budget-s <secs>"));
                budget_given = true;
            }
            "--replay" => a.replay = Some(v),
            "--shard" => {
                let (x, y) = v.split_once('/').expect("--shard i/n");
                a.shard = x.parse().unwrap();
                a.shards = y.parse().unwrap();
            }
            "--mode" => a.mode = v,
            _ => {
                a.extra.insert(k.trim_start_matches("--").to_string(), v);
            }
        }
        i += 2;
    }
    if !budget_given {
        a.budget = Duration::from_secs(if a.thorough { 420 } else { 45 });
    }
    a
}

pub struct Deadline {
    t0: Instant,
    budget: Duration,
}

impl Deadline {
    pub fn new(budget: Duration) -> Self {
        Deadline { t0: Instant::now(), budget }
    }
    pub fn expired(&self) -> bool {
        self.t0.elapsed() >= self.budget
    }
    /// True once `frac` (0..1) of the budget is gone.
    pub fn past(&self, frac: f64) -> bool {
        self.t0.elapsed().as_secs_f64() >= self.budget.as_secs_f64() * frac
    }
    pub fn budget_s(&self) -> f64 {
        self.budget.as_secs_f64()
    }
    pub fn elapsed_s(&self) -> f64 {
        self.t0.elapsed().as_secs_f64()
    }
}

// --------------------------------------------------------------------------------------- panics

static LAST_PANIC: Mutex<Option<String>> = Mutex::new(None);

/// Install a hook that prints nothing and remembers message + location of the last panic.
pub fn install_silent_panic_hook() {
    std::panic::set_hook(Box::new(|info| {
        let msg = if let Some(s) = info.payload().downcast_ref::<&str>() {
            s.to_string()
        } else if let Some(s) = info.payload().downcast_ref::<String>() {
            s.clone()
        } else {
            "<non-string panic payload>".to_string()
        };
        let loc = info
            .location()
            .map(|l| format!("{}:{}", l.file(), l.line()))
            .unwrap_or_default();
        if let Ok(mut g) = LAST_PANIC.lock() {
            *g = Some(format!("{msg} @ {loc}"));
        }
    }));
}

pub fn take_last_panic() -> String {
    LAST_PANIC
        .lock()
        .ok()
        .and_then(|mut g| g.take())
        .unwrap_or_else(|| "<unknown panic>".to_string())
}

/// Run `f`, turning a panic of the code under test into `Err(message @ location)`.
pub fn guarded<T>(f: impl FnOnce() -> T) -> Result<T, String> {
    match catch_unwind(AssertUnwindSafe(f)) {
        Ok(v) => Ok(v),
        Err(_) => Err(take_last_panic()),
    }
}

/// Strip the machine-specific prefix of a panic location so that signatures are stable.
pub fn panic_site(msg: &str) -> String {
    match msg.rsplit_once(" @ ") {
        Some((_, loc)) => {
            let loc = loc.rsplit_once("/src/").map(|(a, b)| {
                let krate = a.rsplit('/').next().unwrap_or("");
                format!("{krate}/src/{b}")
            });
            loc.unwrap_or_default()
        }
        None => String::new(),
    }
}

// ------------------------------------------------------------------------------------ reporting

/// Collects violations (de-duplicated per signature, first witness kept + count), counters,
/// distinct keys and samples; prints the JSONL protocol on `finish`.
pub struct Report {
    pub evaluations: u64,
    pub counters: BTreeMap<String, u64>,
    pub groups: BTreeMap<String, BTreeMap<String, u64>>,
    distinct: std::collections::BTreeSet<u64>,
    distinct_total_seen: u64,
    samples: Vec<Value>,
    sample_tags: std::collections::BTreeSet<String>,
    violations: BTreeMap<String, (Value, Value, u64)>,
    inconclusive: Vec<(String, Value)>,
    pub extra: BTreeMap<String, Value>,
}

pub const DISTINCT_CAP: usize = 20_000;

impl Default for Report {
    fn default() -> Self {
        Self::new()
    }
}

impl Report {
    pub fn new() -> Self {
        Report {
            evaluations: 0,
            counters: BTreeMap::new(),
            groups: BTreeMap::new(),
            distinct: Default::default(),
            distinct_total_seen: 0,
            samples: vec![],
            sample_tags: Default::default(),
            violations: BTreeMap::new(),
            inconclusive: vec![],
            extra: BTreeMap::new(),
        }
    }
    pub fn count(&mut self, k: &str) {
        *self.counters.entry(k.to_string()).or_insert(0) += 1;
    }
    pub fn add(&mut self, k: &str, n: u64) {
        *self.counters.entry(k.to_string()).or_insert(0) += n;
    }
    pub fn max(&mut self, k: &str, n: u64) {
        let e = self.counters.entry(k.to_string()).or_insert(0);
        if n > *e {
            *e = n;
        }
    }
    pub fn group(&mut self, g: &str, k: &str) {
        *self
            .groups
            .entry(g.to_string())
            .or_default()
            .entry(k.to_string())
            .or_insert(0) += 1;
    }
    pub fn distinct(&mut self, key: u64) {
        if self.distinct.len() < DISTINCT_CAP {
            if self.distinct.insert(key) {
                self.distinct_total_seen += 1;
            }
        }
    }
    /// Keep one sample per tag, at most 6.
    pub fn sample(&mut self, tag: &str, v: impl FnOnce() -> Value) {
        if self.samples.len() < 6 && !self.sample_tags.contains(tag) {
            self.sample_tags.insert(tag.to_string());
            self.samples.push(v());
        }
    }
    pub fn violation(&mut self, sig: Value, detail: Value) {
        let k = sig.to_string();
        let e = self.violations.entry(k).or_insert((sig, detail, 0));
        e.2 += 1;
    }
    pub fn n_violation_sigs(&self) -> usize {
        self.violations.len()
    }
    pub fn inconclusive(&mut self, what: &str, detail: Value) {
        if self.inconclusive.len() < 20 {
            self.inconclusive.push((what.to_string(), detail));
        }
        self.count("inconclusive_cases");
    }
    pub fn merge(&mut self, o: Report) {
        self.evaluations += o.evaluations;
        for (k, v) in o.counters {
            if k.ends_with("_max") {
                self.max(&k, v);
            } else {
                self.add(&k, v);
            }
        }
        for (g, m) in o.groups {
            let d = self.groups.entry(g).or_default();
            for (k, v) in m {
                *d.entry(k).or_insert(0) += v;
            }
        }
        for k in o.distinct {
            self.distinct(k);
        }
        for s in o.samples {
            if self.samples.len() < 6 {
                self.samples.push(s);
            }
        }
        for (k, (sig, det, n)) in o.violations {
            let e = self.violations.entry(k).or_insert((sig, det, 0));
            e.2 += n;
        }
        for (w, d) in o.inconclusive {
            if self.inconclusive.len() < 20 {
                self.inconclusive.push((w, d));
            }
        }
        for (k, v) in o.extra {
            self.extra.entry(k).or_insert(v);
        }
    }
    pub fn finish(self, name: &str, extra: Value) {
        let out = std::io::stdout();
        let mut out = out.lock();
        // Never flood the protocol: the first 40 signatures are reported, the rest is counted.
        let n_sigs = self.violations.len();
        for (_, (sig, mut detail, n)) in self.violations.into_iter().take(40) {
            if let Value::Object(m) = &mut detail {
                m.insert("occurrences".into(), json!(n));
            }
            let _ = writeln!(out, "{}", json!({"kind":"violation","sig":sig,"detail":detail}));
        }
        for (w, d) in self.inconclusive {
            let _ = writeln!(out, "{}", json!({"kind":"inconclusive","what":w,"detail":d}));
        }
        let mut s = serde_json::Map::new();
        s.insert("kind".into(), json!("summary"));
        s.insert("workload".into(), json!(name));
        s.insert("evaluations".into(), json!(self.evaluations));
        s.insert(
            "distinct_keys".into(),
            json!(self.distinct.iter().map(|k| format!("{k:016x}")).collect::<Vec<_>>()),
        );
        s.insert("samples".into(), json!(self.samples));
        s.insert("violation_signatures".into(), json!(n_sigs));
        let (maxima, counters): (BTreeMap<_, _>, BTreeMap<_, _>) =
            self.counters.into_iter().partition(|(k, _)| k.ends_with("_max"));
        s.insert("counters".into(), json!(counters));
        s.insert("maxima".into(), json!(maxima));
        for (g, m) in self.groups {
            s.insert(g, json!(m));
        }
        for (k, v) in self.extra {
            s.insert(k, v);
        }
        if let Value::Object(m) = extra {
            for (k, v) in m {
                s.insert(k, v);
            }
        }
        let _ = writeln!(out, "{}", Value::Object(s));
        let _ = out.flush();
    }
}

pub fn hex_preview(bytes: &[u8], max: usize) -> String {
    let mut s = String::new();
    for b in bytes.iter().take(max) {
        s.push_str(&format!("{b:02x}"));
    }
    if bytes.len() > max {
        s.push_str(&format!("..(+{})", bytes.len() - max));
    }
    s
}
