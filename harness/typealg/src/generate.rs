//! Seeded generator of types, the mutation operators that turn one type into a related or
//! unrelated partner, and the exhaustive enumerator over a reduced alphabet.

use std::collections::BTreeMap;

use crate::ast::*;

// --------------------------------------------------------------------------------------------- rng

#[derive(Clone)]
pub struct Rng(u64);

impl Rng {
    pub fn new(seed: u64) -> Rng {
        Rng(seed ^ 0x9E37_79B9_7F4A_7C15)
    }
    pub fn next(&mut self) -> u64 {
        // SplitMix64
        self.0 = self.0.wrapping_add(0x9E37_79B9_7F4A_7C15);
        let mut z = self.0;
        z = (z ^ (z >> 30)).wrapping_mul(0xBF58_476D_1CE4_E5B9);
        z = (z ^ (z >> 27)).wrapping_mul(0x94D0_49BB_1331_11EB);
        z ^ (z >> 31)
    }
    pub fn below(&mut self, n: usize) -> usize {
        debug_assert!(n > 0);
        (self.next() % n as u64) as usize
    }
    pub fn chance(&mut self, num: usize, den: usize) -> bool {
        self.below(den) < num
    }
    pub fn pick<'a, T>(&mut self, xs: &'a [T]) -> &'a T {
        &xs[self.below(xs.len())]
    }
    pub fn shuffle<T>(&mut self, xs: &mut [T]) {
        for i in (1..xs.len()).rev() {
            let j = self.below(i + 1);
            xs.swap(i, j);
        }
    }
}

// ---------------------------------------------------------------------------------- path universe

/// (package id repr, crate name in the id<>name map). Package 2 is a renamed dependency (the
/// first segment of its paths is *not* the name it is rendered with), package 3 is a second
/// version of package 1 (same paths, different package id).
pub const PKGS: [(&str, &str); 5] = [
    ("registry+https://github.com/rust-lang/crates.io-index#alloc@1.90.0", "alloc"),
    ("path+file:///w/app#0.1.0", "app"),
    ("registry+https://github.com/rust-lang/crates.io-index#dep@1.2.3", "dep_renamed"),
    ("path+file:///w/old/app#app@0.2.0", "app_0_2_0"),
    ("registry+https://github.com/rust-lang/crates.io-index#core@1.90.0", "core"),
];

pub fn crate_name(pkg: &str) -> String {
    PKGS.iter()
        .find(|(id, _)| *id == pkg)
        .map(|(_, n)| n.to_string())
        .unwrap_or_else(|| "unknown_pkg".to_string())
}

#[derive(Clone, Copy, PartialEq, Eq, Debug)]
pub enum K {
    T,
    L,
    C,
}

pub struct Def {
    pub pkg: usize,
    pub segs: &'static [&'static str],
    pub id: Option<u32>,
    pub sig: &'static [K],
    pub alias: bool,
}

pub const DEFS: &[Def] = &[
    Def { pkg: 1, segs: &["app", "Foo"], id: Some(11), sig: &[], alias: false },
    Def { pkg: 3, segs: &["app", "Foo"], id: Some(11), sig: &[], alias: false },
    Def { pkg: 2, segs: &["dep", "Foo"], id: None, sig: &[], alias: false },
    Def { pkg: 0, segs: &["alloc", "string", "String"], id: Some(7), sig: &[], alias: false },
    Def { pkg: 1, segs: &["app", "AliasUnit"], id: Some(15), sig: &[], alias: true },
    Def { pkg: 1, segs: &["app", "Bar"], id: Some(12), sig: &[K::T], alias: false },
    Def { pkg: 3, segs: &["app", "Bar"], id: Some(12), sig: &[K::T], alias: false },
    Def { pkg: 2, segs: &["dep", "nested", "Bar"], id: None, sig: &[K::T], alias: false },
    Def { pkg: 0, segs: &["alloc", "vec", "Vec"], id: Some(8), sig: &[K::T], alias: false },
    Def { pkg: 4, segs: &["core", "option", "Option"], id: Some(9), sig: &[K::T], alias: false },
    Def { pkg: 1, segs: &["app", "Alias"], id: Some(16), sig: &[K::T], alias: true },
    Def { pkg: 1, segs: &["app", "Pair"], id: Some(13), sig: &[K::T, K::T], alias: false },
    Def { pkg: 4, segs: &["core", "result", "Result"], id: Some(10), sig: &[K::T, K::T], alias: false },
    Def { pkg: 0, segs: &["alloc", "borrow", "Cow"], id: Some(6), sig: &[K::L, K::T], alias: false },
    Def { pkg: 2, segs: &["dep", "View"], id: None, sig: &[K::L, K::L], alias: false },
    Def { pkg: 1, segs: &["app", "Buf"], id: Some(14), sig: &[K::L, K::T, K::C], alias: false },
    Def { pkg: 1, segs: &["app", "Size"], id: Some(17), sig: &[K::C], alias: false },
    Def { pkg: 2, segs: &["dep", "Size"], id: None, sig: &[K::C], alias: false },
];

pub const CONSTS: [&str; 5] = ["8", "0", "true", "'x'", "-3"];
pub const GENERIC_POOL: [&str; 4] = ["T", "U", "V", "W"];
pub const LT_POOL: [&str; 3] = ["a", "b", "c"];
pub const FN_ARG_NAMES: [&str; 3] = ["x", "y", "len"];

pub fn path_from_def(d: &Def, args: Vec<Arg>) -> Ty {
    Ty::Path {
        alias: d.alias,
        pkg: PKGS[d.pkg].0.to_string(),
        id: d.id,
        segs: d.segs.iter().map(|s| s.to_string()).collect(),
        args,
    }
}

// --------------------------------------------------------------------------------------- generator

#[derive(Clone, Copy)]
pub struct GenCfg {
    pub generics: bool,
}

fn gen_lt(rng: &mut Rng) -> Lt {
    match rng.below(8) {
        0 | 1 | 2 => Lt::Elided,
        3 | 4 => Lt::Named(rng.pick(&LT_POOL).to_string()),
        5 => Lt::Inferred,
        _ => Lt::Static,
    }
}

fn gen_glt(rng: &mut Rng) -> GLt {
    match rng.below(6) {
        0 | 1 | 2 => GLt::Named(rng.pick(&LT_POOL).to_string()),
        3 => GLt::Inferred,
        _ => GLt::Static,
    }
}

pub fn gen_leaf(rng: &mut Rng, cfg: GenCfg) -> Ty {
    loop {
        match rng.below(10) {
            0..=2 => return Ty::Scalar(rng.below(SCALARS.len())),
            3..=5 => {
                if cfg.generics {
                    return Ty::Generic(rng.pick(&GENERIC_POOL).to_string());
                }
            }
            6..=8 => {
                let nullary: Vec<&Def> = DEFS.iter().filter(|d| d.sig.is_empty()).collect();
                let d: &Def = nullary[rng.below(nullary.len())];
                return path_from_def(d, vec![]);
            }
            _ => return Ty::Tuple(vec![]),
        }
    }
}

/// A type of nesting depth at most `depth` (a leaf has depth 0).
pub fn gen_ty(rng: &mut Rng, depth: usize, cfg: GenCfg) -> Ty {
    if depth == 0 {
        return gen_leaf(rng, cfg);
    }
    if cfg.generics && rng.chance(1, 45) {
        // many distinct generic parameters: around 26, 52 and 78 (canonical names are drawn from an alphabet)
        let n = *rng.pick(&[24usize, 25, 26, 27, 28, 29, 51, 52, 53, 54, 79]);
        let elems: Vec<Ty> = (0..n).map(|i| Ty::Generic(format!("P{i}"))).collect();
        let wide = Ty::Tuple(elems);
        return if rng.chance(1, 2) { wide } else { Ty::Ref { mutable: rng.chance(1, 2), lt: gen_lt(rng), inner: Box::new(wide) } };
    }
    // children may be shallower than the budget
    let sub = |rng: &mut Rng| {
        let d = if rng.chance(1, 3) { rng.below(depth) } else { depth - 1 };
        gen_ty(rng, d, cfg)
    };
    match rng.below(100) {
        0..=24 => {
            let with_args: Vec<&Def> = DEFS.iter().filter(|d| !d.sig.is_empty()).collect();
            let d: &Def = with_args[rng.below(with_args.len())];
            let args = d
                .sig
                .iter()
                .map(|k| match k {
                    K::T => Arg::Ty(sub(rng)),
                    K::L => Arg::Lt(gen_glt(rng)),
                    K::C => Arg::Const(rng.pick(&CONSTS).to_string()),
                })
                .collect();
            path_from_def(d, args)
        }
        25..=44 => Ty::Ref {
            mutable: rng.chance(1, 2),
            lt: gen_lt(rng),
            inner: Box::new(sub(rng)),
        },
        45..=59 => {
            let n = match rng.below(10) {
                0 => 1,
                1..=6 => 2,
                _ => 3,
            };
            Ty::Tuple((0..n).map(|_| sub(rng)).collect())
        }
        60..=65 => Ty::Slice(Box::new(sub(rng))),
        66..=73 => Ty::Array(Box::new(sub(rng)), *rng.pick(&[0usize, 1, 2, 4, 32])),
        74..=81 => Ty::Ptr {
            mutable: rng.chance(1, 2),
            inner: Box::new(sub(rng)),
        },
        82..=91 => {
            let n = rng.below(3);
            let named = rng.chance(1, 3);
            Ty::Fn {
                inputs: (0..n)
                    .map(|i| {
                        (
                            if named { Some(FN_ARG_NAMES[i].to_string()) } else { None },
                            sub(rng),
                        )
                    })
                    .collect(),
                output: if rng.chance(2, 3) { Some(Box::new(sub(rng))) } else { None },
                abi: if rng.chance(1, 2) { AbiK::Rust } else { *rng.pick(&ALL_ABIS) },
                unsafe_: rng.chance(1, 4),
            }
        }
        _ => gen_leaf(rng, cfg),
    }
}

// ---------------------------------------------------------------------------------------- mutation

/// Mutation operators. `renaming()` tells which of them produce a partner that differs in
/// nothing but names (generic parameters via a bijection, non-static lifetimes, fn parameter names).
#[derive(Clone, Copy, PartialEq, Eq, Debug, Hash, PartialOrd, Ord)]
pub enum Op {
    Identity,
    RenameBijective,
    RenameMerge,
    RenameSplit,
    RenameLifetimes,
    LifetimeNonStaticKind,
    LifetimeStaticFlip,
    RenameFnInputs,
    FlipRefMut,
    FlipPtrMut,
    ChangeScalar,
    ChangeArrayLen,
    SwapTuple,
    ChangeTupleArity,
    ChangePathDef,
    FlipAlias,
    ChangeConst,
    ChangeFnAbi,
    FlipFnUnsafe,
    ToggleFnOutput,
    ChangeFnArity,
    SubstituteGeneric,
    SubstituteOneOccurrence,
    AbstractSubterm,
    ReplaceSubterm,
}

#[allow(dead_code)]
pub const ALL_OPS: [Op; 25] = [
    Op::Identity,
    Op::RenameBijective,
    Op::RenameMerge,
    Op::RenameSplit,
    Op::RenameLifetimes,
    Op::LifetimeNonStaticKind,
    Op::LifetimeStaticFlip,
    Op::RenameFnInputs,
    Op::FlipRefMut,
    Op::FlipPtrMut,
    Op::ChangeScalar,
    Op::ChangeArrayLen,
    Op::SwapTuple,
    Op::ChangeTupleArity,
    Op::ChangePathDef,
    Op::FlipAlias,
    Op::ChangeConst,
    Op::ChangeFnAbi,
    Op::FlipFnUnsafe,
    Op::ToggleFnOutput,
    Op::ChangeFnArity,
    Op::SubstituteGeneric,
    Op::SubstituteOneOccurrence,
    Op::AbstractSubterm,
    Op::ReplaceSubterm,
];

impl Op {
    pub fn name(self) -> &'static str {
        match self {
            Op::Identity => "identity",
            Op::RenameBijective => "rename_generics_bijective",
            Op::RenameMerge => "rename_generics_merge",
            Op::RenameSplit => "rename_generics_split",
            Op::RenameLifetimes => "rename_lifetimes",
            Op::LifetimeNonStaticKind => "lifetime_nonstatic_kind",
            Op::LifetimeStaticFlip => "lifetime_static_flip",
            Op::RenameFnInputs => "rename_fn_inputs",
            Op::FlipRefMut => "flip_reference_mutability",
            Op::FlipPtrMut => "flip_raw_pointer_mutability",
            Op::ChangeScalar => "change_scalar",
            Op::ChangeArrayLen => "change_array_len",
            Op::SwapTuple => "swap_tuple_elements",
            Op::ChangeTupleArity => "change_tuple_arity",
            Op::ChangePathDef => "change_path",
            Op::FlipAlias => "flip_alias",
            Op::ChangeConst => "change_const",
            Op::ChangeFnAbi => "change_fn_abi",
            Op::FlipFnUnsafe => "flip_fn_unsafe",
            Op::ToggleFnOutput => "toggle_fn_output",
            Op::ChangeFnArity => "change_fn_arity",
            Op::SubstituteGeneric => "substitute_generic",
            Op::SubstituteOneOccurrence => "substitute_one_occurrence",
            Op::AbstractSubterm => "abstract_subterm",
            Op::ReplaceSubterm => "replace_subterm",
        }
    }

    /// The partner differs only by a bijective renaming of generic parameters, by names/kinds of
    /// non-static lifetimes or by fn parameter names: it must be equivalent and have the same
    /// canonical form as documented on `CanonicalType`.
    pub fn renaming(self) -> bool {
        matches!(
            self,
            Op::Identity
                | Op::RenameBijective
                | Op::RenameLifetimes
                | Op::LifetimeNonStaticKind
                | Op::RenameFnInputs
        )
    }
}

fn fresh_names() -> Vec<String> {
    let mut v: Vec<String> = GENERIC_POOL.iter().map(|s| s.to_string()).collect();
    v.push("X".into());
    v.push("Item".into());
    v
}

/// A random injective, non-identity renaming of the parameters of `x`.
pub fn random_bijection(rng: &mut Rng, x: &Ty) -> Option<BTreeMap<String, String>> {
    let ps = x.params();
    if ps.is_empty() {
        return None;
    }
    for _ in 0..8 {
        let mut names = fresh_names();
        // (as many target names as there are parameters, or the renaming would not be injective)
        let mut k = 0;
        while names.len() < ps.len() {
            names.push(format!("Q{k}"));
            k += 1;
        }
        rng.shuffle(&mut names);
        let m: BTreeMap<String, String> = ps.iter().cloned().zip(names).collect();
        if m.iter().any(|(k, v)| k != v) {
            return Some(m);
        }
    }
    None
}

pub fn rename_lifetimes(rng: &mut Rng, x: &Ty) -> Option<Ty> {
    let mut y = x.clone();
    let mut changed = false;
    let names = ["a", "b", "c", "d", "de"];
    y.visit_lifetimes_mut(&mut |slot| match slot {
        LtSlot::Ref(Lt::Named(n)) | LtSlot::Arg(GLt::Named(n)) => {
            let new = rng.pick(&names).to_string();
            if *n != new {
                changed = true;
                *n = new;
            }
        }
        _ => {}
    });
    changed.then_some(y)
}

fn concrete_small(rng: &mut Rng) -> Ty {
    let d = rng.below(3);
    gen_ty(rng, d, GenCfg { generics: false })
}

/// Apply `op` to `x`; `None` when the operator does not apply to this type.
pub fn mutate(rng: &mut Rng, x: &Ty, op: Op) -> Option<Ty> {
    let mut y = x.clone();
    match op {
        Op::Identity => Some(y),
        Op::RenameBijective => {
            let m = random_bijection(rng, x)?;
            Some(x.rename_generics(&m))
        }
        Op::RenameMerge => {
            let ps = x.params();
            if ps.len() < 2 {
                return None;
            }
            let i = rng.below(ps.len());
            let mut j = rng.below(ps.len() - 1);
            if j >= i {
                j += 1;
            }
            let m: BTreeMap<String, String> = [(ps[i].clone(), ps[j].clone())].into();
            Some(x.rename_generics(&m))
        }
        Op::RenameSplit => {
            // rename a single occurrence of a parameter that occurs at least twice
            let ps = x.params();
            let multi: Vec<&String> = ps
                .iter()
                .filter(|p| x.count(&|t| matches!(t, Ty::Generic(n) if n == *p)) >= 2)
                .collect();
            if multi.is_empty() {
                return None;
            }
            let p = (*rng.pick(&multi)).clone();
            let n = x.count(&|t| matches!(t, Ty::Generic(n) if *n == p));
            let k = rng.below(n);
            y.mutate_nth(&|t| matches!(t, Ty::Generic(n) if *n == p), k, &mut |t| {
                *t = Ty::Generic("Fresh".into())
            });
            Some(y)
        }
        Op::RenameLifetimes => rename_lifetimes(rng, x),
        Op::LifetimeNonStaticKind | Op::LifetimeStaticFlip => {
            let n = x.lifetime_slots();
            if n == 0 {
                return None;
            }
            let k = rng.below(n);
            let want_static_flip = op == Op::LifetimeStaticFlip;
            let mut i = 0;
            let mut changed = false;
            let name = rng.pick(&LT_POOL).to_string();
            let r = rng.below(3);
            y.visit_lifetimes_mut(&mut |slot| {
                if i == k {
                    match slot {
                        LtSlot::Ref(l) => {
                            let new = if want_static_flip {
                                if l.is_static() { Lt::Named(name.clone()) } else { Lt::Static }
                            } else if l.is_static() {
                                l.clone()
                            } else {
                                match r {
                                    0 => Lt::Named(name.clone()),
                                    1 => Lt::Inferred,
                                    _ => Lt::Elided,
                                }
                            };
                            changed = *l != new;
                            *l = new;
                        }
                        LtSlot::Arg(l) => {
                            let new = if want_static_flip {
                                if l.is_static() { GLt::Named(name.clone()) } else { GLt::Static }
                            } else if l.is_static() {
                                l.clone()
                            } else {
                                match r {
                                    0 => GLt::Named(name.clone()),
                                    _ => GLt::Inferred,
                                }
                            };
                            changed = *l != new;
                            *l = new;
                        }
                    }
                }
                i += 1;
            });
            changed.then_some(y)
        }
        Op::RenameFnInputs => {
            let pred = |t: &Ty| matches!(t, Ty::Fn { inputs, .. } if !inputs.is_empty());
            let n = x.count(&pred);
            if n == 0 {
                return None;
            }
            let k = rng.below(n);
            let mode = rng.below(3);
            let mut changed = false;
            y.mutate_nth(&pred, k, &mut |t| {
                if let Ty::Fn { inputs, .. } = t {
                    for (i, (name, _)) in inputs.iter_mut().enumerate() {
                        let new = match mode {
                            0 => None,
                            1 => Some(format!("arg{i}")),
                            _ => Some(FN_ARG_NAMES[(i + 1) % 3].to_string()),
                        };
                        changed |= *name != new;
                        *name = new;
                    }
                }
            });
            changed.then_some(y)
        }
        Op::FlipRefMut => {
            let pred = |t: &Ty| matches!(t, Ty::Ref { .. });
            let n = x.count(&pred);
            if n == 0 {
                return None;
            }
            let k = rng.below(n);
            y.mutate_nth(&pred, k, &mut |t| {
                if let Ty::Ref { mutable, .. } = t {
                    *mutable = !*mutable
                }
            });
            Some(y)
        }
        Op::FlipPtrMut => {
            let pred = |t: &Ty| matches!(t, Ty::Ptr { .. });
            let n = x.count(&pred);
            if n == 0 {
                return None;
            }
            let k = rng.below(n);
            y.mutate_nth(&pred, k, &mut |t| {
                if let Ty::Ptr { mutable, .. } = t {
                    *mutable = !*mutable
                }
            });
            Some(y)
        }
        Op::ChangeScalar => {
            let pred = |t: &Ty| matches!(t, Ty::Scalar(_));
            let n = x.count(&pred);
            if n == 0 {
                return None;
            }
            let k = rng.below(n);
            let d = 1 + rng.below(SCALARS.len() - 1);
            y.mutate_nth(&pred, k, &mut |t| {
                if let Ty::Scalar(i) = t {
                    *i = (*i + d) % SCALARS.len()
                }
            });
            Some(y)
        }
        Op::ChangeArrayLen => {
            let pred = |t: &Ty| matches!(t, Ty::Array(..));
            let n = x.count(&pred);
            if n == 0 {
                return None;
            }
            let k = rng.below(n);
            let d = 1 + rng.below(3);
            y.mutate_nth(&pred, k, &mut |t| {
                if let Ty::Array(_, len) = t {
                    *len += d
                }
            });
            Some(y)
        }
        Op::SwapTuple => {
            let pred = |t: &Ty| matches!(t, Ty::Tuple(es) if es.len() >= 2);
            let n = x.count(&pred);
            if n == 0 {
                return None;
            }
            let k = rng.below(n);
            let r = rng.next() as usize;
            let mut changed = false;
            y.mutate_nth(&pred, k, &mut |t| {
                if let Ty::Tuple(es) = t {
                    let i = r % es.len();
                    let j = (i + 1) % es.len();
                    changed = es[i] != es[j];
                    es.swap(i, j);
                }
            });
            changed.then_some(y)
        }
        Op::ChangeTupleArity => {
            let pred = |t: &Ty| matches!(t, Ty::Tuple(_));
            let n = x.count(&pred);
            if n == 0 {
                return None;
            }
            let k = rng.below(n);
            let drop = rng.chance(1, 2);
            let extra = concrete_small(rng);
            y.mutate_nth(&pred, k, &mut |t| {
                if let Ty::Tuple(es) = t {
                    if drop && !es.is_empty() {
                        es.pop();
                    } else {
                        es.push(extra.clone());
                    }
                }
            });
            Some(y)
        }
        Op::ChangePathDef => {
            let pred = |t: &Ty| matches!(t, Ty::Path { .. });
            let n = x.count(&pred);
            if n == 0 {
                return None;
            }
            let k = rng.below(n);
            let r = rng.next() as usize;
            let mut changed = false;
            y.mutate_nth(&pred, k, &mut |t| {
                if let Ty::Path {
                    alias,
                    pkg,
                    id,
                    segs,
                    args,
                } = t
                {
                    let sig: Vec<K> = args
                        .iter()
                        .map(|a| match a {
                            Arg::Ty(_) => K::T,
                            Arg::Lt(_) => K::L,
                            Arg::Const(_) => K::C,
                        })
                        .collect();
                    let cands: Vec<&Def> = DEFS
                        .iter()
                        .filter(|d| {
                            d.sig == sig.as_slice()
                                && d.alias == *alias
                                && !(PKGS[d.pkg].0 == pkg.as_str()
                                    && d.segs.iter().map(|s| s.to_string()).collect::<Vec<_>>()
                                        == *segs)
                        })
                        .collect();
                    if !cands.is_empty() {
                        let d = cands[r % cands.len()];
                        *pkg = PKGS[d.pkg].0.to_string();
                        *id = d.id;
                        *segs = d.segs.iter().map(|s| s.to_string()).collect();
                        changed = true;
                    }
                }
            });
            changed.then_some(y)
        }
        Op::FlipAlias => {
            let pred = |t: &Ty| matches!(t, Ty::Path { .. });
            let n = x.count(&pred);
            if n == 0 {
                return None;
            }
            let k = rng.below(n);
            y.mutate_nth(&pred, k, &mut |t| {
                if let Ty::Path { alias, .. } = t {
                    *alias = !*alias
                }
            });
            Some(y)
        }
        Op::ChangeConst => {
            let pred =
                |t: &Ty| matches!(t, Ty::Path { args, .. } if args.iter().any(|a| matches!(a, Arg::Const(_))));
            let n = x.count(&pred);
            if n == 0 {
                return None;
            }
            let k = rng.below(n);
            let d = 1 + rng.below(CONSTS.len() - 1);
            y.mutate_nth(&pred, k, &mut |t| {
                if let Ty::Path { args, .. } = t {
                    for a in args.iter_mut() {
                        if let Arg::Const(c) = a {
                            let i = CONSTS.iter().position(|x| x == c).unwrap_or(0);
                            *c = CONSTS[(i + d) % CONSTS.len()].to_string();
                            break;
                        }
                    }
                }
            });
            Some(y)
        }
        Op::ChangeFnAbi | Op::FlipFnUnsafe | Op::ToggleFnOutput | Op::ChangeFnArity => {
            let pred = |t: &Ty| matches!(t, Ty::Fn { .. });
            let n = x.count(&pred);
            if n == 0 {
                return None;
            }
            let k = rng.below(n);
            let d = 1 + rng.below(ALL_ABIS.len() - 1);
            let extra = concrete_small(rng);
            let drop = rng.chance(1, 2);
            y.mutate_nth(&pred, k, &mut |t| {
                if let Ty::Fn {
                    inputs,
                    output,
                    abi,
                    unsafe_,
                } = t
                {
                    match op {
                        Op::ChangeFnAbi => {
                            let i = ALL_ABIS.iter().position(|a| a == abi).unwrap();
                            *abi = ALL_ABIS[(i + d) % ALL_ABIS.len()];
                        }
                        Op::FlipFnUnsafe => *unsafe_ = !*unsafe_,
                        Op::ToggleFnOutput => {
                            *output = match output {
                                Some(_) => None,
                                None => Some(Box::new(extra.clone())),
                            }
                        }
                        _ => {
                            if drop && !inputs.is_empty() {
                                inputs.pop();
                            } else {
                                let named = inputs.first().map(|i| i.0.is_some()).unwrap_or(false);
                                inputs.push((named.then(|| "extra".to_string()), extra.clone()));
                            }
                        }
                    }
                }
            });
            Some(y)
        }
        Op::SubstituteGeneric => {
            let ps = x.params();
            if ps.is_empty() {
                return None;
            }
            let p = rng.pick(&ps).clone();
            let m: BTreeMap<String, Ty> = [(p, concrete_small(rng))].into();
            Some(x.subst(&m))
        }
        Op::SubstituteOneOccurrence => {
            let pred = |t: &Ty| matches!(t, Ty::Generic(_));
            let n = x.count(&pred);
            if n == 0 {
                return None;
            }
            let k = rng.below(n);
            let c = concrete_small(rng);
            y.mutate_nth(&pred, k, &mut |t| *t = c.clone());
            Some(y)
        }
        Op::AbstractSubterm => {
            let pred = |t: &Ty| !matches!(t, Ty::Generic(_));
            let n = x.count(&pred);
            if n == 0 {
                return None;
            }
            let k = rng.below(n);
            y.mutate_nth(&pred, k, &mut |t| *t = Ty::Generic("Fresh".into()));
            Some(y)
        }
        Op::ReplaceSubterm => {
            let n = x.size();
            let k = rng.below(n);
            let d = rng.below(3);
            let c = gen_ty(rng, d, GenCfg { generics: true });
            let mut changed = false;
            y.mutate_nth(&|_| true, k, &mut |t| {
                changed = *t != c;
                *t = c.clone()
            });
            changed.then_some(y)
        }
    }
}

/// Rename every parameter `G` to `KG`: no generated template ever uses a `K...` name.
pub fn rename_apart(x: &Ty) -> Ty {
    let m: BTreeMap<String, String> = x.params().into_iter().map(|p| (p.clone(), format!("K{p}"))).collect();
    x.rename_generics(&m)
}

/// Substitute every parameter of `x` by a random concrete type (same parameter, same type).
pub fn concretize(rng: &mut Rng, x: &Ty) -> (Ty, BTreeMap<String, Ty>) {
    let sigma: BTreeMap<String, Ty> = x
        .params()
        .into_iter()
        .map(|p| (p, concrete_small(rng)))
        .collect();
    (x.subst(&sigma), sigma)
}

/// Build a template for `c` by abstracting sub-terms into fresh parameters `P0, P1, ...`
/// (consistently: one parameter always stands for one exact sub-term; several identical sub-terms
/// may or may not share it). Every generic parameter already in `c` is first renamed apart
/// (`G` -> `Q_G`) so that the two sides never share a name. Returns the template and the
/// substitution that turns it back into `c`.
pub fn abstract_template(rng: &mut Rng, c: &Ty) -> (Ty, BTreeMap<String, Ty>) {
    let mut sigma: BTreeMap<String, Ty> = BTreeMap::new();
    let apart: BTreeMap<String, String> = c
        .params()
        .into_iter()
        .map(|p| (p.clone(), format!("Q{p}")))
        .collect();
    for (g, q) in &apart {
        sigma.insert(q.clone(), Ty::Generic(g.clone()));
    }
    let mut t = c.rename_generics(&apart);
    let rounds = 1 + rng.below(3);
    for r in 0..rounds {
        // candidate positions: sub-terms that do not mention an already introduced parameter
        let untouched = |n: &Ty| !n.params().iter().any(|p| p.starts_with('P'));
        let n = t.count(&untouched);
        if n == 0 {
            break;
        }
        let k = rng.below(n);
        let name = format!("P{r}");
        let mut picked: Option<Ty> = None;
        t.mutate_nth(&untouched, k, &mut |node| {
            picked = Some(node.clone());
            *node = Ty::Generic(name.clone());
        });
        let s = picked.unwrap();
        if rng.chance(2, 3) {
            // share the parameter with other identical sub-terms, each with probability 1/2
            let mut coins = rng.next();
            t.visit_mut(&mut |node| {
                if *node == s {
                    let take = coins & 1 == 1;
                    coins >>= 1;
                    if take {
                        *node = Ty::Generic(name.clone());
                    }
                    return false;
                }
                true
            });
        }
        // what the parameter stands for, in the target's own names
        let back: BTreeMap<String, String> = apart.iter().map(|(g, q)| (q.clone(), g.clone())).collect();
        sigma.insert(name, s.rename_generics(&back));
    }
    // parameters that no longer occur (their only occurrence was swallowed by a later round)
    let live = t.params();
    sigma.retain(|k, _| live.contains(k));
    (t, sigma)
}

// ------------------------------------------------------------------------------- exhaustive universe

/// All types of depth <= 2 over a reduced alphabet. `level` 0 is the quick-tier alphabet,
/// `level` 1 the thorough-tier one.
pub fn enumerate(level: usize) -> (Vec<Ty>, String) {
    let foo = path_from_def(&DEFS[0], vec![]);
    let scalar = |n: &str| Ty::Scalar(SCALARS.iter().position(|s| *s == n).unwrap());
    let leaves: Vec<Ty> = if level == 0 {
        vec![scalar("u8"), Ty::Generic("T".into()), Ty::Generic("U".into()), foo]
    } else {
        vec![
            scalar("u8"),
            scalar("u16"),
            Ty::Generic("T".into()),
            Ty::Generic("U".into()),
            foo,
        ]
    };
    let bar = DEFS.iter().find(|d| d.segs == ["app", "Bar"] && d.pkg == 1).unwrap();
    let pair = DEFS.iter().find(|d| d.segs == ["app", "Pair"]).unwrap();
    type U = Box<dyn Fn(Ty) -> Ty>;
    type B = Box<dyn Fn(Ty, Ty) -> Ty>;
    let mut unary: Vec<(&str, U)> = vec![
        ("&_", Box::new(|t| Ty::Ref { mutable: false, lt: Lt::Elided, inner: Box::new(t) })),
        ("&mut _", Box::new(|t| Ty::Ref { mutable: true, lt: Lt::Elided, inner: Box::new(t) })),
        ("*const _", Box::new(|t| Ty::Ptr { mutable: false, inner: Box::new(t) })),
        ("[_]", Box::new(|t| Ty::Slice(Box::new(t)))),
        ("[_; 2]", Box::new(|t| Ty::Array(Box::new(t), 2))),
        ("[_; 3]", Box::new(|t| Ty::Array(Box::new(t), 3))),
        (
            "fn(_)",
            Box::new(|t| Ty::Fn { inputs: vec![(None, t)], output: None, abi: AbiK::Rust, unsafe_: false }),
        ),
        ("app::Bar<_>", Box::new(move |t| path_from_def(bar, vec![Arg::Ty(t)]))),
    ];
    let mut binary: Vec<(&str, B)> = vec![("(_, _)", Box::new(|a, b| Ty::Tuple(vec![a, b])))];
    if level >= 1 {
        unary.push(("&'a _", Box::new(|t| Ty::Ref { mutable: false, lt: Lt::Named("a".into()), inner: Box::new(t) })));
        unary.push(("*mut _", Box::new(|t| Ty::Ptr { mutable: true, inner: Box::new(t) })));
        unary.push(("(_,)", Box::new(|t| Ty::Tuple(vec![t]))));
        unary.push((
            "unsafe fn() -> _",
            Box::new(|t| Ty::Fn { inputs: vec![], output: Some(Box::new(t)), abi: AbiK::Rust, unsafe_: true }),
        ));
        binary.push((
            "app::Pair<_, _>",
            Box::new(move |a, b| path_from_def(pair, vec![Arg::Ty(a), Arg::Ty(b)])),
        ));
    }
    let step = |prev: &Vec<Ty>| -> Vec<Ty> {
        let mut out = Vec::new();
        for (_, f) in &unary {
            for t in prev {
                out.push(f(t.clone()));
            }
        }
        for (_, f) in &binary {
            for a in prev {
                for b in prev {
                    out.push(f(a.clone(), b.clone()));
                }
            }
        }
        out
    };
    let d1: Vec<Ty> = leaves.iter().cloned().chain(step(&leaves)).collect();
    let mut all: Vec<Ty> = leaves.iter().cloned().chain(step(&d1)).collect();
    all.sort();
    all.dedup();
    let desc = format!(
        "leaves {{{}}}; unary {{{}}}; binary {{{}}}; every type of depth <= 2",
        leaves.iter().map(|l| l.show()).collect::<Vec<_>>().join(", "),
        unary.iter().map(|(n, _)| *n).collect::<Vec<_>>().join(", "),
        binary.iter().map(|(n, _)| *n).collect::<Vec<_>>().join(", "),
    );
    (all, desc)
}
