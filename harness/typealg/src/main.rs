//! C17 — runtime monitor for the type algebra of `rustdoc_ir` (`is_a_template_for`,
//! `bind_generic_type_parameters`, `is_equivalent_to`, `canonicalize`, rendering).
//!
//! argv: --seed N --tier quick|thorough [--budget-s S] [--threads N] [--cases N]
//!       [--exhaustive-level 0|1|none] [--strict-lifetimes] [--replay FILE]
//! stdout: JSONL (violation / inconclusive / summary), see /verif/harness/README.md.

mod ast;
mod generate;
mod laws;

use std::collections::{BTreeMap, BTreeSet};
use std::sync::atomic::{AtomicBool, AtomicUsize, Ordering};
use std::time::{Duration, Instant};

use serde_json::{Value, json};

use ast::*;
use generate::*;
use laws::*;

fn fnv(s: &str) -> u64 {
    let mut h: u64 = 0xcbf2_9ce4_8422_2325;
    for b in s.as_bytes() {
        h ^= *b as u64;
        h = h.wrapping_mul(0x0000_0100_0000_01b3);
    }
    h
}

fn nontrivial(t: &Ty) -> bool {
    t.depth() >= 2 && (t.has_generic() || t.has_reference())
}

const KEY_CAP: usize = 20_000;

struct Shard {
    stats: Stats,
    keys: BTreeSet<u64>,
    keys_seen: u64,
    samples: Vec<Value>,
    cases: u64,
    ops: BTreeMap<&'static str, u64>,
    depth_hist: [u64; 6],
    truncated: bool,
}

/// Operator choice: weighted towards the ones the property talks about.
fn pick_op(rng: &mut Rng) -> Op {
    const W: [(Op, usize); 25] = [
        (Op::Identity, 1),
        (Op::RenameBijective, 10),
        (Op::RenameMerge, 6),
        (Op::RenameSplit, 4),
        (Op::RenameLifetimes, 5),
        (Op::LifetimeNonStaticKind, 3),
        (Op::LifetimeStaticFlip, 3),
        (Op::RenameFnInputs, 2),
        (Op::FlipRefMut, 8),
        (Op::FlipPtrMut, 5),
        (Op::ChangeScalar, 5),
        (Op::ChangeArrayLen, 5),
        (Op::SwapTuple, 5),
        (Op::ChangeTupleArity, 2),
        (Op::ChangePathDef, 4),
        (Op::FlipAlias, 1),
        (Op::ChangeConst, 2),
        (Op::ChangeFnAbi, 2),
        (Op::FlipFnUnsafe, 2),
        (Op::ToggleFnOutput, 2),
        (Op::ChangeFnArity, 2),
        (Op::SubstituteGeneric, 8),
        (Op::SubstituteOneOccurrence, 3),
        (Op::AbstractSubterm, 6),
        (Op::ReplaceSubterm, 4),
    ];
    let total: usize = W.iter().map(|w| w.1).sum();
    let mut r = rng.below(total);
    for (op, w) in W {
        if r < w {
            return op;
        }
        r -= w;
    }
    Op::Identity
}

fn mutate_some(rng: &mut Rng, x: &Ty) -> (Op, Ty) {
    for _ in 0..12 {
        let op = pick_op(rng);
        if let Some(y) = mutate(rng, x, op) {
            return (op, y);
        }
    }
    (Op::Identity, x.clone())
}

fn sample_of(x: &Item, y: &Item, op: &str) -> Value {
    let t = std::panic::catch_unwind(std::panic::AssertUnwindSafe(|| {
        x.ir.is_a_template_for(&y.ir).map(|b| {
            b.iter()
                .map(|(k, v)| (k.clone(), format!("{v:?}")))
                .collect::<BTreeMap<_, _>>()
        })
    }))
    .ok();
    let e = std::panic::catch_unwind(std::panic::AssertUnwindSafe(|| {
        x.ir.is_equivalent_to(&y.ir).map(|m| {
            m.iter()
                .map(|(k, v)| (k.to_string(), v.to_string()))
                .collect::<BTreeMap<_, _>>()
        })
    }))
    .ok();
    json!({
        "op": op, "x": x.ty.show(), "y": y.ty.show(),
        "x.is_a_template_for(y)": t, "x.is_equivalent_to(y)": e,
        "x.canonicalize()": x.canon.as_ref().map(|c| format!("{:?}", c.inner())),
        "depth": x.ty.depth(),
    })
}

fn random_shard(seed: u64, tid: usize, cases: u64, deadline: Instant, strict: bool) -> Shard {
    let mut rng = Rng::new(seed.wrapping_mul(0x2545_F491_4F6C_DD1D).wrapping_add(tid as u64 * 0x1000_0000_01B3));
    let mut sh = Shard {
        stats: Stats { strict_lifetimes: strict, ..Stats::default() },
        keys: BTreeSet::new(),
        keys_seen: 0,
        samples: Vec::new(),
        cases: 0,
        ops: BTreeMap::new(),
        depth_hist: [0; 6],
        truncated: false,
    };
    let renderer = Renderer::new();
    for case in 0..cases {
        if case % 64 == 0 && Instant::now() >= deadline {
            sh.truncated = true;
            break;
        }
        let st = &mut sh.stats;
        let depth = match rng.below(10) {
            0 => 1,
            1 | 2 => 2,
            3..=5 => 3,
            _ => 4,
        };
        let x = gen_ty(&mut rng, depth, GenCfg { generics: true });
        sh.depth_hist[x.depth().min(5)] += 1;
        let ix = Item::new(x, st);
        check_single(&ix, st);
        check_against_canonical(&ix, st);
        renderer.check(&ix, st);

        // --- mutated partner
        let (op, y) = mutate_some(&mut rng, &ix.ty);
        *sh.ops.entry(op.name()).or_insert(0) += 1;
        let iy = Item::new(y, st);
        if op.renaming() && ref_equiv_diff(&ix.ty, &iy.ty).is_some() {
            st.inconclusive("generator self-check: a renaming operator changed more than names", || {
                json!({"op": op.name(), "x": ix.ty.show(), "y": iy.ty.show()})
            });
        }
        check_template(&ix, &iy, op.name(), st);
        check_template(&iy, &ix, op.name(), st);
        // the same two questions with the parameters of the target renamed apart, so that the
        // target's parameters are opaque constants for the template (always in scope)
        if !ix.params.is_empty() || !iy.params.is_empty() {
            let ax = Item::new(rename_apart(&ix.ty), st);
            let ay = Item::new(rename_apart(&iy.ty), st);
            check_template(&ix, &ay, op.name(), st);
            check_template(&iy, &ax, op.name(), st);
        }
        let xy = check_equivalence(&ix, &iy, op.name(), st);
        if case % 4 == 0 {
            renderer.check(&iy, st);
        }
        if nontrivial(&ix.ty) {
            sh.keys_seen += 1;
            let key = fnv(&format!("{}|{}|{}", ix.ty.skeleton(), iy.ty.skeleton(), op.name()));
            if sh.keys.len() < KEY_CAP {
                sh.keys.insert(key);
            }
            if tid == 0 && sh.samples.len() < 4 && case % 7 == 3 {
                sh.samples.push(sample_of(&ix, &iy, op.name()));
            }
        }

        // --- constructed instance: substitute every parameter by a concrete type
        let (c, sigma) = concretize(&mut rng, &ix.ty);
        let ic = Item::new(c, st);
        if exact_match(&ix.ty, &ic.ty).as_ref() != Some(&sigma) {
            st.inconclusive("generator self-check: substitution instance is not an exact match", || {
                json!({"x": ix.ty.show(), "c": ic.ty.show()})
            });
        } else {
            check_template(&ix, &ic, "instance_by_substitution", st);
            // binding is plain substitution
            st.tick("bind_is_substitution");
            let b = bindings_of(&sigma);
            if let Ok(bound) = std::panic::catch_unwind(std::panic::AssertUnwindSafe(|| {
                ix.ir.bind_generic_type_parameters(&b)
            })) && let Ok(bt) = Ty::from_ir(&bound)
                && let Some(cause) = first_diff(&bt, &ic.ty, LtMode::Exact)
            {
                st.violation(
                    json!({"law": "bind_is_substitution", "cause": cause}),
                    ix.size + ic.size,
                    || json!({"x": ix.ty.show(), "x_json": type_json(&ix.ir), "bound": bt.show(), "expected": ic.ty.show()}),
                );
            }
        }

        // --- constructed template: abstract sub-terms of a target into fresh parameters
        let target = if rng.chance(2, 3) { &ic } else { &ix };
        let (t, sigma_t) = abstract_template(&mut rng, &target.ty);
        let it = Item::new(t, st);
        if exact_match(&it.ty, &target.ty).as_ref() != Some(&sigma_t) {
            st.inconclusive("generator self-check: abstracted template is not an exact match", || {
                json!({"t": it.ty.show(), "c": target.ty.show()})
            });
        } else {
            check_template(&it, target, "abstract_subterms", st);
            if nontrivial(&it.ty) {
                sh.keys_seen += 1;
                let key = fnv(&format!("{}|{}|abstract", it.ty.skeleton(), target.ty.skeleton()));
                if sh.keys.len() < KEY_CAP {
                    sh.keys.insert(key);
                }
                if tid == 0 && sh.samples.len() < 5 && case % 11 == 5 {
                    sh.samples.push(sample_of(&it, target, "abstract_subterms"));
                }
            }
        }

        // --- one renaming orbit: x -> y1 -> y2
        if let Some(m1) = random_bijection(&mut rng, &ix.ty) {
            let y1 = ix.ty.rename_generics(&m1);
            let y1 = rename_lifetimes(&mut rng, &y1).unwrap_or(y1);
            let m2 = random_bijection(&mut rng, &y1).unwrap_or_default();
            let y2 = y1.rename_generics(&m2);
            let (i1, i2) = (Item::new(y1, st), Item::new(y2, st));
            check_orbit(&ix, &i1, &i2, st);
            check_equivalence(&ix, &i2, "orbit", st);
        }

        // --- arbitrary chain x -> y -> z
        if let Some(xy) = xy {
            let (_, z) = mutate_some(&mut rng, &iy.ty);
            let iz = Item::new(z, st);
            check_chain(&ix, &iy, &iz, xy, st);
        }
        sh.cases += 1;
    }
    sh
}

struct Exhaustive {
    stats: Stats,
    types: usize,
    pairs_done: u64,
    complete: bool,
    classes: usize,
    alphabet: String,
    skeleton_pairs: Vec<u64>,
    sample: Option<Value>,
}

fn exhaustive(level: usize, threads: usize, deadline: Instant, strict: bool) -> Exhaustive {
    let (tys, alphabet) = enumerate(level);
    let mut stats = Stats { strict_lifetimes: strict, ..Stats::default() };
    let items: Vec<Item> = tys.into_iter().map(|t| Item::new(t, &mut stats)).collect();
    let n = items.len();
    let apart: Vec<Item> = items.iter().map(|i| Item::new(rename_apart(&i.ty), &mut stats)).collect();
    let renderer = Renderer::new();
    for it in &items {
        check_single(it, &mut stats);
        check_against_canonical(it, &mut stats);
        renderer.check(it, &mut stats);
    }
    let stop = AtomicBool::new(false);
    // pass A: class representative = smallest index related to i (either direction)
    let mut minrep: Vec<usize> = vec![0; n];
    {
        let next = AtomicUsize::new(0);
        let chunks: Vec<Vec<(usize, usize)>> = std::thread::scope(|s| {
            let hs: Vec<_> = (0..threads)
                .map(|_| {
                    s.spawn(|| {
                        let mut out = Vec::new();
                        loop {
                            let i = next.fetch_add(1, Ordering::Relaxed);
                            if i >= n {
                                break;
                            }
                            let mut rep = i;
                            for j in 0..i {
                                if equiv_bool(&items[j], &items[i]) == Some(true)
                                    || equiv_bool(&items[i], &items[j]) == Some(true)
                                {
                                    rep = j;
                                    break;
                                }
                            }
                            out.push((i, rep));
                            if i % 256 == 0 && Instant::now() >= deadline {
                                stop.store(true, Ordering::Relaxed);
                            }
                            if stop.load(Ordering::Relaxed) {
                                break;
                            }
                        }
                        out
                    })
                })
                .collect();
            hs.into_iter().map(|h| h.join().unwrap()).collect()
        });
        for c in chunks {
            for (i, r) in c {
                minrep[i] = r;
            }
        }
    }
    let classes = minrep.iter().enumerate().filter(|(i, r)| i == *r).count();
    // pass B: every unordered pair, both directions
    let next = AtomicUsize::new(0);
    let results: Vec<(Stats, u64)> = std::thread::scope(|s| {
        let hs: Vec<_> = (0..threads)
            .map(|_| {
                s.spawn(|| {
                    let mut st = Stats { strict_lifetimes: strict, ..Stats::default() };
                    let mut pairs = 0u64;
                    loop {
                        if stop.load(Ordering::Relaxed) {
                            break;
                        }
                        // rows are handed out from both ends so that threads finish together
                        let k = next.fetch_add(1, Ordering::Relaxed);
                        if k >= n {
                            break;
                        }
                        let i = if k % 2 == 0 { k / 2 } else { n - 1 - k / 2 };
                        for j in i..n {
                            let (x, y) = (&items[i], &items[j]);
                            // targets with their parameters renamed apart (see random phase)
                            check_template(x, &apart[j], "exhaustive", &mut st);
                            if i != j {
                                check_template(y, &apart[i], "exhaustive", &mut st);
                            }
                            if let Some(rel) = check_equivalence(x, y, "exhaustive", &mut st) {
                                st.tick("equivalence_transitive_partition");
                                if rel != (minrep[i] == minrep[j]) {
                                    let rep_i = &items[minrep[i]];
                                    let rep_j = &items[minrep[j]];
                                    st.violation(
                                        json!({"law": "equivalence_transitive", "cause": "partition"}),
                                        x.size + y.size,
                                        || json!({"x": x.ty.show(), "y": y.ty.show(), "related": rel,
                                            "x_json": type_json(&x.ir), "y_json": type_json(&y.ir),
                                            "first_type_related_to_x": rep_i.ty.show(),
                                            "first_type_related_to_y": rep_j.ty.show()}),
                                    );
                                }
                            }
                            pairs += 1;
                        }
                        if Instant::now() >= deadline {
                            stop.store(true, Ordering::Relaxed);
                        }
                    }
                    (st, pairs)
                })
            })
            .collect();
        hs.into_iter().map(|h| h.join().unwrap()).collect()
    });
    let mut pairs_done = 0;
    for (st, p) in results {
        stats.merge(st);
        pairs_done += p;
    }
    let complete = !stop.load(Ordering::Relaxed);
    // distinct keys: pairs of skeletons of non-trivial types
    let sk: BTreeSet<u64> = items
        .iter()
        .filter(|i| nontrivial(&i.ty))
        .map(|i| fnv(&i.ty.skeleton()))
        .collect();
    let mut skeleton_pairs = Vec::new();
    'outer: for a in &sk {
        for b in &sk {
            if skeleton_pairs.len() >= KEY_CAP / 4 {
                break 'outer;
            }
            skeleton_pairs.push(a.rotate_left(17) ^ b.wrapping_mul(31) ^ 0xE5);
        }
    }
    let sample = items
        .iter()
        .find(|i| i.ty.depth() == 2 && i.params.len() == 2)
        .zip(items.iter().rev().find(|i| i.ty.depth() == 2 && i.params.len() == 2))
        .map(|(a, b)| sample_of(a, b, "exhaustive"));
    Exhaustive {
        stats,
        types: n,
        pairs_done,
        complete,
        classes,
        alphabet,
        skeleton_pairs,
        sample,
    }
}

// ------------------------------------------------------------------------------------------ replay

fn collect_cases(v: &Value, out: &mut Vec<Vec<String>>) {
    match v {
        Value::Object(m) => {
            if let Some(Value::String(x)) = m.get("x_json") {
                let mut c = vec![x.clone()];
                for k in ["y_json", "z_json"] {
                    if let Some(Value::String(s)) = m.get(k) {
                        c.push(s.clone());
                    }
                }
                out.push(c);
            }
            for (_, vv) in m {
                collect_cases(vv, out);
            }
        }
        Value::Array(a) => {
            for vv in a {
                collect_cases(vv, out);
            }
        }
        _ => {}
    }
}

fn replay(path: &str, strict: bool) -> (Stats, u64) {
    let mut st = Stats { strict_lifetimes: strict, ..Stats::default() };
    let text = std::fs::read_to_string(path).unwrap_or_else(|e| {
        eprintln!("cannot read replay file {path}: {e}");
        std::process::exit(3)
    });
    let v: Value = serde_json::from_str(&text).unwrap_or_else(|e| {
        eprintln!("replay file is not JSON: {e}");
        std::process::exit(3)
    });
    let mut cases = Vec::new();
    collect_cases(&v, &mut cases);
    cases.sort();
    cases.dedup();
    let renderer = Renderer::new();
    let mut n = 0;
    for c in cases {
        let mut items = Vec::new();
        for s in &c {
            match serde_json::from_str::<rustdoc_ir::Type>(s).map_err(|e| e.to_string()).and_then(|t| Ty::from_ir(&t)) {
                Ok(t) => items.push(Item::new(t, &mut st)),
                Err(e) => st.inconclusive("replay: cannot decode a type", || json!(e)),
            }
        }
        for it in &items {
            check_single(it, &mut st);
            check_against_canonical(it, &mut st);
            renderer.check(it, &mut st);
        }
        if items.len() >= 2 {
            check_template(&items[0], &items[1], "replay", &mut st);
            check_template(&items[1], &items[0], "replay", &mut st);
            let xy = check_equivalence(&items[0], &items[1], "replay", &mut st);
            if items.len() >= 3 {
                check_orbit(&items[0], &items[1], &items[2], &mut st);
                if let Some(xy) = xy {
                    check_chain(&items[0], &items[1], &items[2], xy, &mut st);
                }
            }
        }
        n += 1;
    }
    (st, n)
}

// -------------------------------------------------------------------------------------------- main

fn main() {
    let args: Vec<String> = std::env::args().collect();
    let get = |k: &str| args.iter().position(|a| a == k).and_then(|i| args.get(i + 1)).cloned();
    let has = |k: &str| args.iter().any(|a| a == k);
    let seed: u64 = get("--seed").and_then(|s| s.parse().ok()).unwrap_or(1);
    let tier = get("--tier").unwrap_or_else(|| "quick".into());
    let quick = tier != "thorough";
    let budget: f64 = get("--budget-s").and_then(|s| s.parse().ok()).unwrap_or(if quick { 45.0 } else { 540.0 });
    let threads: usize = get("--threads").and_then(|s| s.parse().ok()).unwrap_or(if quick { 4 } else { 12 });
    let cases: u64 = get("--cases").and_then(|s| s.parse().ok()).unwrap_or(if quick { 240_000 } else { 12_000_000 });
    let level: Option<usize> = match get("--exhaustive-level").as_deref() {
        Some("none") => None,
        Some(s) => s.parse().ok(),
        None => Some(if quick { 0 } else { 1 }),
    };
    let strict = has("--strict-lifetimes");
    install_silent_panic_hook();
    let t0 = Instant::now();

    if let Some(path) = get("--replay") {
        let (mut st, n) = replay(&path, strict);
        st.settle();
        emit(&st);
        let out = json!({"kind": "summary", "mode": "replay", "evaluations": n,
            "law_checks": st.checks, "observations": st.obs, "distinct_keys": []});
        println!("{out}");
        return;
    }

    // ---- exhaustive phase first (at most 60% of the budget), so that it is complete whenever possible
    let deadline = t0 + Duration::from_secs_f64(budget * 0.6);
    let mut total = Stats { strict_lifetimes: strict, ..Stats::default() };
    let mut keys: BTreeSet<u64> = BTreeSet::new();
    let mut samples = Vec::new();
    let mut exh_keys: Vec<u64> = Vec::new();
    let mut exh_sample = None;
    let mut exh_json = json!(null);
    let mut exh_pairs = 0;
    if let Some(level) = level {
        let ex = exhaustive(level, threads, deadline, strict);
        exh_pairs = ex.pairs_done;
        exh_keys = ex.skeleton_pairs.clone();
        exh_sample = ex.sample.clone();
        let mut ex = ex;
        ex.stats.settle();
        exh_json = json!({
            "exhaustive": ex.complete,
            "alphabet": ex.alphabet,
            "types": ex.types,
            "unordered_pairs_checked_in_both_directions": ex.pairs_done,
            "equivalence_classes_reported_by_the_implementation": ex.classes,
            "seconds": (t0.elapsed().as_secs_f64() * 10.0).round() / 10.0,
            "law_checks": ex.stats.checks,
            "observations": ex.stats.obs,
        });
        total.merge(ex.stats);
    }

    // ---- random phase (whatever is left of the budget). The work is cut into a fixed number of
    // logical shards with derived seeds, so the cases do not depend on the number of threads.
    const SHARDS: usize = 16;
    let deadline_random = t0 + Duration::from_secs_f64(budget);
    let t_random = Instant::now();
    let per = cases / SHARDS as u64;
    let next_shard = AtomicUsize::new(0);
    let mut shards: Vec<(usize, Shard)> = std::thread::scope(|s| {
        let hs: Vec<_> = (0..threads)
            .map(|_| {
                s.spawn(|| {
                    let mut out = Vec::new();
                    loop {
                        let k = next_shard.fetch_add(1, Ordering::Relaxed);
                        if k >= SHARDS {
                            break;
                        }
                        out.push((k, random_shard(seed, k, per, deadline_random, strict)));
                    }
                    out
                })
            })
            .collect();
        hs.into_iter().flat_map(|h| h.join().unwrap()).collect()
    });
    shards.sort_by_key(|(k, _)| *k);
    let shards: Vec<Shard> = shards.into_iter().map(|(_, s)| s).collect();
    let random_s = t_random.elapsed().as_secs_f64();
    let mut random_cases = 0;
    let mut keys_seen = 0;
    let mut ops: BTreeMap<&'static str, u64> = BTreeMap::new();
    let mut depth_hist = [0u64; 6];
    let mut truncated = false;
    for sh in shards {
        total.merge(sh.stats);
        for k in sh.keys {
            if keys.len() < KEY_CAP {
                keys.insert(k);
            }
        }
        samples.extend(sh.samples);
        random_cases += sh.cases;
        keys_seen += sh.keys_seen;
        for (k, v) in sh.ops {
            *ops.entry(k).or_insert(0) += v;
        }
        for i in 0..6 {
            depth_hist[i] += sh.depth_hist[i];
        }
        truncated |= sh.truncated;
    }

    for k in exh_keys {
        if keys.len() < KEY_CAP {
            keys.insert(k);
        }
    }
    if let Some(s) = exh_sample {
        samples.push(s);
    }
    total.settle();
    emit(&total);
    let vio_counts: BTreeMap<String, u64> = total.violations.iter().map(|(k, v)| (k.clone(), v.count)).collect();
    let out = json!({
        "kind": "summary",
        "evaluations": random_cases + exh_pairs,
        "random_cases": random_cases,
        "random_cases_truncated_by_budget": truncated,
        "random_phase_s": (random_s * 10.0).round() / 10.0,
        "total_s": (t0.elapsed().as_secs_f64() * 10.0).round() / 10.0,
        "threads": threads,
        "nontrivial_random_cases": keys_seen,
        "depth_histogram": {"0": depth_hist[0], "1": depth_hist[1], "2": depth_hist[2], "3": depth_hist[3], "4": depth_hist[4]},
        "mutation_operators": ops,
        "law_checks": total.checks,
        "observations": total.obs,
        "observation_samples": total.obs_samples,
        "violation_counts_by_sig": vio_counts,
        "exhaustive_depth2": exh_json,
        "distinct_keys": keys.iter().map(|k| format!("{k:016x}")).collect::<Vec<_>>(),
        "samples": samples,
    });
    println!("{out}");
}

fn emit(st: &Stats) {
    for e in st.violations.values() {
        let mut detail = e.detail.clone();
        if let Value::Object(m) = &mut detail {
            m.insert("occurrences_in_this_run".into(), json!(e.count));
        }
        println!("{}", json!({"kind": "violation", "sig": e.sig, "detail": detail}));
    }
    for (what, (count, detail)) in &st.inconclusive {
        println!("{}", json!({"kind": "inconclusive", "what": what, "detail": {"count": count, "first": detail}}));
    }
}
